// Package refmux is the reference model of the go-res pattern grammar and of
// pattern routing. It is written from the documentation (Handle doc comment,
// Pattern doc comments, property texts), tokenises on '.', and uses brute
// force everywhere: no scanner state machines, no trie, no backtracking.
package refmux

import (
	"sort"
	"strings"
)

// Token kinds.
const (
	Lit   = iota // literal token
	Param        // $name placeholder
	Any          // anonymous * placeholder
	Full         // > full wildcard
	Bad          // not a legal token
)

// Tokens splits on '.'; the empty string has no tokens.
func Tokens(s string) []string {
	if s == "" {
		return nil
	}
	return strings.Split(s, ".")
}

func legalByte(c byte) bool { return c >= 33 && c <= 126 && c != '?' }

// Kind classifies one pattern token.
func Kind(t string) int {
	if t == "" {
		return Bad
	}
	for i := 0; i < len(t); i++ {
		if !legalByte(t[i]) || t[i] == '.' {
			return Bad
		}
	}
	switch t[0] {
	case '>':
		if len(t) == 1 {
			return Full
		}
		return Bad
	case '*':
		if len(t) == 1 {
			return Any
		}
		return Bad
	case '$':
		if len(t) == 1 {
			return Bad
		}
		if strings.ContainsAny(t[1:], "*>") {
			return Bad
		}
		return Param
	}
	if strings.ContainsAny(t, "*>") {
		return Bad
	}
	return Lit
}

// Validity verdicts.
const (
	Invalid = iota
	Valid
	Unspecified
)

// PatternValidity is the documented validity of a pattern. Tokens made of two
// or more '$' characters only ("$$") are not covered by any documentation and
// are reported as Unspecified.
func PatternValidity(p string) int {
	if p == "" {
		return Valid
	}
	toks := Tokens(p)
	unspec := false
	for i, t := range toks {
		k := Kind(t)
		if k == Bad {
			return Invalid
		}
		if k == Full && i != len(toks)-1 {
			return Invalid
		}
		if k == Param && strings.Trim(t, "$") == "" {
			unspec = true
		}
	}
	if unspec {
		return Unspecified
	}
	return Valid
}

// ValidName reports whether s is a valid resource name: non-empty tokens of
// legal characters without '*', '>' and '?'.
func ValidName(s string) bool {
	if s == "" {
		return false
	}
	for _, t := range Tokens(s) {
		if !ValidPart(t) {
			return false
		}
	}
	return true
}

// ValidPart reports whether t is a valid single name part (method names, event
// names, connection ids, store ids used as one token).
func ValidPart(t string) bool {
	if t == "" {
		return false
	}
	for i := 0; i < len(t); i++ {
		c := t[i]
		if !legalByte(c) || c == '.' || c == '*' || c == '>' {
			return false
		}
	}
	return true
}

// ValidRID is the reference for res.IsValidRID: a valid name, optionally
// followed by '?' and any query.
func ValidRID(rid string) bool {
	name := rid
	if i := strings.IndexByte(rid, '?'); i >= 0 {
		name = rid[:i]
	}
	return ValidName(name)
}

// Match reports whether the plain resource name matches the pattern
// (both assumed valid).
func Match(p, name string) bool {
	pt, nt := Tokens(p), Tokens(name)
	for i, t := range pt {
		k := Kind(t)
		if k == Full {
			return len(nt) > i
		}
		if i >= len(nt) {
			return false
		}
		if k == Lit && t != nt[i] {
			return false
		}
	}
	return len(pt) == len(nt)
}

// Params returns the name's tokens at the $-placeholder positions.
func Params(p, name string) map[string]string {
	pt, nt := Tokens(p), Tokens(name)
	var m map[string]string
	for i, t := range pt {
		if Kind(t) == Param && i < len(nt) {
			if m == nil {
				m = map[string]string{}
			}
			m[t[1:]] = nt[i]
		}
	}
	return m
}

// Covers reports whether every name of pattern q matches pattern p.
func Covers(p, q string) bool {
	pt, qt := Tokens(p), Tokens(q)
	for i, t := range pt {
		k := Kind(t)
		if k == Full {
			return len(qt) > i
		}
		if i >= len(qt) {
			return false
		}
		qk := Kind(qt[i])
		if qk == Full {
			return false
		}
		if k == Lit && (qk != Lit || qt[i] != t) {
			return false
		}
	}
	return len(pt) == len(qt)
}

// IndexWildcard is the byte offset of the first wildcard token, -1 if none.
func IndexWildcard(p string) int {
	off := 0
	for _, t := range Tokens(p) {
		if k := Kind(t); k == Param || k == Any || k == Full {
			return off
		}
		off += len(t) + 1
	}
	return -1
}

// HasAnon reports whether the pattern has * or > tokens.
func HasAnon(p string) bool {
	for _, t := range Tokens(p) {
		if k := Kind(t); k == Any || k == Full {
			return true
		}
	}
	return false
}

// ReplaceTags substitutes $name tokens whose name is in m.
func ReplaceTags(p string, m map[string]string) string {
	toks := Tokens(p)
	out := make([]string, len(toks))
	for i, t := range toks {
		out[i] = t
		if len(t) > 1 && t[0] == '$' {
			if v, ok := m[t[1:]]; ok {
				out[i] = v
			}
		}
	}
	return strings.Join(out, ".")
}

// Entry is one registered handler in the reference router.
type Entry struct {
	Pattern  string // full pattern including mux path and mount prefixes
	Marker   int
	Group    string // group template ("" = resource name)
	Parallel bool
	// TagBase is the pattern the group tags refer to (the pattern as given
	// to Handle/AddHandler); it is always a suffix of Pattern's tokens.
	Listeners []int
}

func class(t string) int {
	switch Kind(t) {
	case Lit:
		return 0
	case Param, Any:
		return 1
	default:
		return 2
	}
}

// StructKey maps a pattern to its structural identity (placeholder names erased).
func StructKey(p string) string {
	toks := Tokens(p)
	out := make([]string, len(toks))
	for i, t := range toks {
		switch Kind(t) {
		case Param, Any:
			out[i] = "*"
		default:
			out[i] = t
		}
	}
	return strings.Join(out, ".")
}

// less reports whether pattern a is more specific than b (token classes
// compared from the left: literal < placeholder < full wildcard).
func less(a, b string) bool {
	at, bt := Tokens(a), Tokens(b)
	for i := 0; i < len(at) && i < len(bt); i++ {
		ca, cb := class(at[i]), class(bt[i])
		if ca != cb {
			return ca < cb
		}
	}
	return len(at) > len(bt)
}

// Route returns the most specific matching entry and all matching entries.
func Route(entries []Entry, name string) (best *Entry, matches []*Entry) {
	for i := range entries {
		if Match(entries[i].Pattern, name) {
			matches = append(matches, &entries[i])
		}
	}
	if len(matches) == 0 {
		return nil, nil
	}
	sort.SliceStable(matches, func(i, j int) bool { return less(matches[i].Pattern, matches[j].Pattern) })
	return matches[0], matches
}

// GroupOf computes the worker group of name under entry e.
func GroupOf(e *Entry, name string) string {
	if e.Parallel {
		return ""
	}
	if e.Group == "" {
		return name
	}
	params := Params(e.Pattern, name)
	var b strings.Builder
	g := e.Group
	for i := 0; i < len(g); {
		if g[i] == '$' && i+1 < len(g) && g[i+1] == '{' {
			j := strings.IndexByte(g[i:], '}')
			if j > 0 {
				b.WriteString(params[g[i+2:i+j]])
				i += j + 1
				continue
			}
		}
		b.WriteByte(g[i])
		i++
	}
	return b.String()
}

// GroupTags lists the ${tag} names of a group template; ok is false when the
// template is syntactically broken.
func GroupTags(g string) (tags []string, ok bool) {
	for i := 0; i < len(g); i++ {
		if g[i] != '$' {
			continue
		}
		if i+1 >= len(g) || g[i+1] != '{' {
			return nil, false
		}
		j := strings.IndexByte(g[i:], '}')
		if j < 0 || j == 2 {
			return nil, false
		}
		name := g[i+2 : i+j]
		for k := 0; k < len(name); k++ {
			c := name[k]
			if !(c >= 'A' && c <= 'Z' || c >= 'a' && c <= 'z' || c >= '0' && c <= '9' || c == '_' || c == '-') {
				return nil, false
			}
		}
		tags = append(tags, name)
		i += j
	}
	return tags, true
}
