package c15

import (
	"encoding/json"
	"fmt"
	"strings"
	"sync"
	"testing"
	"testing/synctest"
	"time"

	res "github.com/jirenius/go-res"
	"pgregory.net/rapid"

	"verifharness/internal/evid"
	"verifharness/internal/fakeconn"
)

// TestPropQueryBurst (bubble, virtual clock): one query event that receives a burst of
// 20-90 query requests while a callback of its group holds the worker, and more requests
// (and With callbacks of the group) at drawn moments while the burst is being worked off.
// Each callback takes a millisecond. Every request has exactly one response, carrying its
// own query; no two callbacks of the group run at the same instant; the nil call comes once,
// after the duration, not while another callback of the group runs.
func TestPropQueryBurst(t *testing.T) {
	rapid.Check(t, func(rt *rapid.T) {
		workers := rapid.IntRange(2, 4).Draw(rt, "workers")
		burst := rapid.IntRange(20, 90).Draw(rt, "burst")
		shared := rapid.Bool().Draw(rt, "sharedGroup")
		nlate := rapid.IntRange(1, 6).Draw(rt, "nlate")
		lateAt := make([]int, nlate)
		for i := range lateAt {
			lateAt[i] = rapid.IntRange(0, 100).Draw(rt, "lateAtMs")
		}
		var msg string
		func() {
			defer func() {
				if v := recover(); v != nil {
					msg = fmt.Sprintf("bubble ended abnormally: %v", v)
				}
			}()
			synctest.Test(t, func(*testing.T) {
				s := res.NewService("svc")
				s.SetWorkerCount(workers)
				s.SetLogger(nil)
				s.SetInChannelSize(256)
				s.SetQueryEventDuration(3 * time.Second)
				get := res.GetResource(func(r res.GetRequest) { r.NotFound() })
				s.Handle("q.$id", res.Model, get)
				s.Handle("qs.$id", res.Model, get, res.Group("shared"))
				served := make(chan struct{})
				s.SetOnServe(func(*res.Service) { close(served) })
				conn := fakeconn.New()
				conn.Blocking = true // a delivery waits for room in the query event's channel
				ret := make(chan error, 1)
				go func() { ret <- s.Serve(conn) }()
				<-served
				rid, other := "svc.q.1", "svc.q.1"
				if shared {
					rid, other = "svc.qs.1", "svc.qs.2"
				}
				var mu sync.Mutex
				active, maxActive, nils, nilDuring := 0, 0, 0, false
				enter := func() {
					mu.Lock()
					active++
					if active > maxActive {
						maxActive = active
					}
					mu.Unlock()
				}
				leave := func() { mu.Lock(); active--; mu.Unlock() }
				release := make(chan struct{})
				emitted := make(chan struct{})
				if err := s.With(rid, func(r res.Resource) {
					enter()
					r.QueryEvent(func(qr res.QueryRequest) {
						if qr == nil {
							mu.Lock()
							nils++
							if active > 0 {
								nilDuring = true
							}
							mu.Unlock()
							return
						}
						enter()
						time.Sleep(time.Millisecond)
						leave()
						qr.Model(map[string]string{"q": qr.Query()})
					})
					close(emitted)
					<-release
					leave()
				}); err != nil {
					msg = "With: " + err.Error()
					return
				}
				<-emitted
				subj := ""
				for _, e := range conn.Published("event." + rid + ".query") {
					var p struct{ Subject string }
					_ = json.Unmarshal(e.Data, &p)
					subj = p.Subject
				}
				if subj == "" {
					msg = "no query event published"
					close(release)
					return
				}
				sent := 0
				send := func() {
					reply := fmt.Sprintf("_INBOX.b%d", sent)
					if n := conn.Deliver(subj, reply, []byte(fmt.Sprintf(`{"query":"n=%d"}`, sent))); n != 1 && msg == "" {
						msg = fmt.Sprintf("query request %d delivered to %d subscriptions", sent, n)
					}
					sent++
				}
				for i := 0; i < burst; i++ {
					send()
				}
				synctest.Wait()
				close(release)
				start := time.Now()
				withs := 0
				for i := 0; i <= 100; i++ {
					for _, at := range lateAt {
						if at == i {
							send()
							// a callback of the same group submitted from outside as well
							_ = s.With(other, func(res.Resource) {
								enter()
								time.Sleep(time.Millisecond)
								leave()
								mu.Lock()
								withs++
								mu.Unlock()
							})
						}
					}
					time.Sleep(time.Millisecond)
				}
				_ = start
				time.Sleep(4 * time.Second) // past the duration
				synctest.Wait()
				mu.Lock()
				defer mu.Unlock()
				for i := 0; i < sent && msg == ""; i++ {
					resp := conn.Published(fmt.Sprintf("_INBOX.b%d", i))
					want := fmt.Sprintf(`"q":"n=%d"`, i)
					if len(resp) != 1 {
						msg = fmt.Sprintf("query request %d of %d (burst of %d behind a held callback, %d more while it was worked off) got %d responses", i, sent, burst, nlate, len(resp))
					} else if !strings.Contains(string(resp[0].Data), want) {
						msg = fmt.Sprintf("query request %d answered %s, expected a model with %s", i, resp[0].Data, want)
					}
				}
				switch {
				case msg != "":
				case maxActive > 1:
					msg = fmt.Sprintf("%d callbacks of the query event's group ran at the same instant (burst of %d requests, %d workers)", maxActive, burst, workers)
				case withs != nlate:
					msg = fmt.Sprintf("%d of %d With callbacks of the group ran", withs, nlate)
				case nils != 1:
					msg = fmt.Sprintf("the callback was invoked with nil %d times after the duration", nils)
				case nilDuring:
					msg = "the nil call ran while another callback of the group was running"
				}
				_ = s.Shutdown()
				<-ret
			})
		}()
		ev.Case(burst > 32, evid.Hash("burst", workers, burst, shared, fmt.Sprint(lateAt)), "query-burst")
		if msg != "" {
			rt.Fatalf("%s (workers %d, burst %d, shared group %v, late requests at ms %v)", msg, workers, burst, shared, lateAt)
		}
	})
}
