HOOK_COMMITS = "aaae3172ef50f67df568a7a6c7f61adff9962da7 ".split()
NOT_APPLICABLE = {}
META = {
    "C17": dict(
        technique="bounded-exhaustive enumeration + rapid property-based testing + native fuzzing against a token-wise reference grammar",
        text="Exploration: every (pattern, string) pair over all strings of length <=4 (quick) / <=5 (thorough) on {a,b,.,$,*,>} is checked against a brute-force token-wise reference (match, values, substitution round-trip, covering, wildcard index, validity agreement with Handle/NewMux/Mount/IsValidRID/Call/Auth); rapid generates longer patterns, near-miss names, tag maps and IDTransformer round-trips; thorough adds a coverage-guided fuzz campaign. Exhaustive inside the bound, sampled beyond it.",
        note="Trusted: the reference grammar in harness/internal/refmux (written from the Handle/Pattern doc comments and the property text), Go 1.26.8 toolchain. Laws are asserted only on documented input domains (valid pattern; valid name or valid pattern).",
    ),
}
