package c07

import (
	"encoding/json"
	"errors"
	"fmt"
	"strconv"
	"strings"
	"sync/atomic"
	"testing"
	"time"

	res "github.com/jirenius/go-res"
	"pgregory.net/rapid"

	"verifharness/internal/evid"
	"verifharness/internal/fakeconn"
	"verifharness/internal/gen"
	"verifharness/internal/protoval"
	"verifharness/internal/svc"
)

// qAct is what a query event callback does with one query request.
type qAct struct {
	Kind string   `json:"kind"`
	Msg  string   `json:"msg,omitempty"`
	Code string   `json:"code,omitempty"`
	V    *gen.Val `json:"v,omitempty"`
	N    int      `json:"n,omitempty"`
}

type qEvent struct {
	RName string `json:"rname"`
	Reqs  []qAct `json:"reqs"`
	// Batched: the query requests are all delivered while a callback of the resource holds
	// the worker
	Batched bool `json:"batched,omitempty"`
}

func genQAct(t *rapid.T) qAct {
	a := qAct{Kind: rapid.SampledFrom([]string{"invalid-default", "invalid-default", "invalid-custom", "invalid-custom", "notfound", "error", "events", "events", "model", "collection", "none", "panic", "timeout", "badpayload", "noquery"}).Draw(t, "kind")}
	switch a.Kind {
	case "invalid-custom":
		a.Msg = rapid.OneOf(rapid.SampledFrom([]string{"x", "no", "bad q", "Invalid query", "a considerably longer message than the default one"}), gen.StringTricky()).Draw(t, "msg")
	case "error":
		a.Code = rapid.SampledFrom([]string{"custom.err", "system.notFound", "a"}).Draw(t, "code")
		a.Msg = rapid.OneOf(rapid.SampledFrom([]string{"m", "", "Not found"}), gen.StringTricky()).Draw(t, "msg")
	case "panic":
		a.Msg = rapid.SampledFrom([]string{"boom", "", "x"}).Draw(t, "msg")
		a.N = rapid.IntRange(0, 2).Draw(t, "pkind")
	case "model", "collection":
		v := gen.AnyVal(100).Draw(t, "v")
		a.V = &v
	case "events":
		a.N = rapid.IntRange(0, 3).Draw(t, "nev")
		v := gen.ResValue(false).Draw(t, "v")
		if rapid.IntRange(0, 3).Draw(t, "nullvalue") == 0 {
			v = gen.Val{Kind: "json", JSON: "null"} // a nil value is a value: the member is present
		}
		a.V = &v
	case "timeout":
		a.N = rapid.SampledFrom([]int{0, 5, 1500, 86400000}).Draw(t, "ms")
	}
	return a
}

func (a qAct) exec(qr res.QueryRequest, typ string) {
	switch a.Kind {
	case "invalid-default":
		qr.InvalidQuery("")
	case "invalid-custom":
		qr.InvalidQuery(a.Msg)
	case "notfound":
		qr.NotFound()
	case "error":
		qr.Error(&res.Error{Code: a.Code, Message: a.Msg})
	case "model":
		qr.Model(a.V.Go())
	case "collection":
		qr.Collection(a.V.Go())
	case "events":
		for i := 0; i < a.N; i++ {
			if typ == "collection" {
				if i%2 == 0 {
					qr.AddEvent(a.V.Go(), i)
				} else {
					qr.RemoveEvent(i)
				}
			} else {
				qr.ChangeEvent(map[string]interface{}{"k" + strconv.Itoa(i): a.V.Go()})
			}
		}
	case "panic":
		switch a.N {
		case 0:
			panic(a.Msg)
		case 1:
			panic(errors.New(a.Msg))
		default:
			panic(&res.Error{Code: "custom.panic", Message: a.Msg})
		}
	case "timeout":
		qr.Timeout(time.Duration(a.N) * time.Millisecond)
		qr.NotFound()
	case "none":
	}
}

// payload is the payload of the j-th query request of its event.
func (a qAct) payload(j int) string {
	switch a.Kind {
	case "badpayload":
		return "{nope"
	case "noquery":
		return "{}"
	}
	return fmt.Sprintf(`{"query":"q=%d"}`, j)
}

// TestPropQueryRequests: responses to query requests (queryevent.go) are validated
// like every other response, and the fixed ones are compared with their documented
// text: default and custom InvalidQuery, NotFound, the no-events result.
func TestPropQueryRequests(t *testing.T) {
	rapid.Check(t, func(t *rapid.T) {
		ne := rapid.IntRange(1, 3).Draw(t, "nevents")
		var evs []qEvent
		for i := 0; i < ne; i++ {
			e := qEvent{RName: rapid.SampledFrom([]string{"svc.m.1", "svc.c.1", "svc.u.1", "svc.m.2"}).Draw(t, "rname"), Batched: rapid.IntRange(0, 2).Draw(t, "batched") == 0}
			n := rapid.IntRange(1, 6).Draw(t, "nreq")
			for j := 0; j < n; j++ {
				e.Reqs = append(e.Reqs, genQAct(t))
			}
			evs = append(evs, e)
		}
		s := res.NewService("svc")
		s.SetWorkerCount(2)
		s.Handle("m.$id", res.Model, res.GetResource(func(r res.GetRequest) { r.NotFound() }))
		s.Handle("c.$id", res.Collection, res.GetResource(func(r res.GetRequest) { r.NotFound() }))
		s.Handle("u.$id", res.GetResource(func(r res.GetRequest) { r.NotFound() }))
		conn := fakeconn.New()
		var passedOn atomic.Int64
		r, err := svc.Start(s, conn, func(point string, arg interface{}) {
			if point == "qlistener.msgDone" {
				passedOn.Add(1)
			}
		})
		if err != nil {
			t.Fatalf("%v", err)
		}
		replies := map[string]protoval.ReqInfo{}
		fail := ""
		interesting := false
		for ei, e := range evs {
			typ := map[byte]string{'m': "model", 'c': "collection", 'u': ""}[e.RName[4]]
			before := conn.LogLen()
			done := make(chan struct{})
			e := e
			if err := s.With(e.RName, func(rr res.Resource) {
				defer close(done)
				rr.QueryEvent(func(qr res.QueryRequest) {
					if qr == nil {
						return
					}
					j, err := strconv.Atoi(strings.TrimPrefix(qr.Query(), "q="))
					if err != nil || j < 0 || j >= len(e.Reqs) {
						qr.NotFound()
						return
					}
					e.Reqs[j].exec(qr, typ)
				})
			}); err != nil {
				t.Fatalf("With(%q): %v", e.RName, err)
			}
			<-done
			subj := ""
			for _, p := range conn.LogFrom(before) {
				if p.Kind == "pub" && p.Subject == "event."+e.RName+".query" {
					var qe struct {
						Subject string `json:"subject"`
					}
					_ = json.Unmarshal(p.Data, &qe)
					subj = qe.Subject
				}
			}
			if subj == "" {
				t.Fatalf("event %d: no query event published for %s: %v", ei, e.RName, conn.LogFrom(before))
			}
			// a third of the events get all their query requests while a callback of the resource
			// holds the worker: they wait in the group's queue together, and each is still
			// answered on its own reply subject
			batched := e.Batched && len(e.Reqs) > 1
			var batchReplies []string
			if batched {
				holding, release := make(chan struct{}), make(chan struct{})
				if err := s.With(e.RName, func(res.Resource) { close(holding); <-release }); err != nil {
					t.Fatalf("With(%q): %v", e.RName, err)
				}
				<-holding
				base := passedOn.Load()
				for j, a := range e.Reqs {
					reply := r.NewReply()
					replies[reply] = protoval.ReqInfo{}
					batchReplies = append(batchReplies, reply)
					if n := conn.Deliver(subj, reply, []byte(a.payload(j))); n != 1 {
						t.Fatalf("query request on %s delivered to %d subscriptions", subj, n)
					}
				}
				deadline := time.Now().Add(30 * time.Second)
				for passedOn.Load() < base+int64(len(e.Reqs)) {
					if time.Now().After(deadline) {
						close(release)
						t.Fatalf("VERIF-INCONCLUSIVE: the query listener did not pass on %d requests within 30s", len(e.Reqs))
					}
					time.Sleep(50 * time.Microsecond)
				}
				close(release)
			}
			for j, a := range e.Reqs {
				var reply string
				if batched {
					reply = batchReplies[j]
				} else {
					reply = r.NewReply()
					replies[reply] = protoval.ReqInfo{}
					if n := conn.Deliver(subj, reply, []byte(a.payload(j))); n != 1 {
						t.Fatalf("query request on %s delivered to %d subscriptions", subj, n)
					}
				}
				var resp [][]byte
				deadline := time.Now().Add(20 * time.Second)
				for {
					_, resp = r.Replies(reply)
					if len(resp) > 0 || time.Now().After(deadline) {
						break
					}
					time.Sleep(20 * time.Microsecond)
				}
				if len(resp) != 1 {
					fail = fmt.Sprintf("query request %d of event %d (%+v): %d responses", j, ei, a, len(resp))
					break
				}
				want := ""
				switch a.Kind {
				case "invalid-default":
					want = `{"error":{"code":"system.invalidQuery","message":"Invalid query"}}`
					interesting = interesting || j > 0
				case "invalid-custom":
					if a.Msg != "" {
						mb, _ := json.Marshal(a.Msg)
						want = `{"error":{"code":"system.invalidQuery","message":` + string(mb) + `}}`
					} else {
						want = `{"error":{"code":"system.invalidQuery","message":"Invalid query"}}`
					}
				case "notfound", "timeout":
					want = `{"error":{"code":"system.notFound","message":"Not found"}}`
				case "none":
					want = `{"result":{"events":[]}}`
				case "noquery":
					want = `{"error":{"code":"system.invalidQuery","message":"Missing query"}}`
				}
				if msg := protoval.Response(resp[0], false); msg != "" {
					fail = fmt.Sprintf("query request %d of event %d (%+v): %s", j, ei, a, msg)
					break
				}
				if a.Kind == "events" {
					// every event carried by the response has the shape documented for its type
					var p struct {
						Result *struct {
							Events []struct {
								Event string          `json:"event"`
								Data  json.RawMessage `json:"data"`
							} `json:"events"`
						} `json:"result"`
					}
					if json.Unmarshal(resp[0], &p) == nil && p.Result != nil {
						for k, e := range p.Result.Events {
							if msg := protoval.Event(e.Event, e.Data); msg != "" {
								fail = fmt.Sprintf("query request %d of event %d (%+v): event %d (%s) of the response %s: %s", j, ei, a, k, e.Event, resp[0], msg)
							}
						}
						if typ == "collection" && len(p.Result.Events) != a.N {
							fail = fmt.Sprintf("query request %d of event %d (%+v): the callback added %d events, the response carries %d: %s", j, ei, a, a.N, len(p.Result.Events), resp[0])
						}
					}
					if fail != "" {
						break
					}
				}
				if want != "" && !gen.JSONEqual(resp[0], []byte(want)) {
					if a.Kind == "noquery" {
						// only the error class is documented for a request without query
						var p struct {
							Error *struct{ Code string } `json:"error"`
						}
						if json.Unmarshal(resp[0], &p) == nil && p.Error != nil {
							continue
						}
					}
					fail = fmt.Sprintf("query request %d of event %d (%+v): response %s, expected %s", j, ei, a, resp[0], want)
					break
				}
			}
			if fail != "" {
				break
			}
		}
		_ = r.Stop()
		b, _ := json.Marshal(evs)
		if fail != "" {
			t.Fatalf("%s\nevents: %s", fail, b)
		}
		if msg, _ := validateLog(conn.Log(), replies); msg != "" {
			t.Fatalf("%s\nevents: %s", msg, b)
		}
		ev.Case(interesting, evid.Hash(string(b)), "query-requests")
	})
}
