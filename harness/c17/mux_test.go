package c17

import (
	"fmt"
	"strconv"
	"strings"
	"sync"
	"testing"

	res "github.com/jirenius/go-res"
	"pgregory.net/rapid"

	"verifharness/internal/evid"
	"verifharness/internal/refmux"
)

// TestPropMuxAgreesWithMatches: "validity and matching are consistent with what
// registration and routing accept": for a mux with a path and a few registered valid
// patterns, GetHandler finds a handler for a name exactly when Pattern(path.pattern)
// .Matches(name) holds for one of them, and the handler it returns is one whose
// pattern matches the name.
// samePattern: equal token by token; an anonymous placeholder may be reported as * whatever it
// was registered as.
func samePattern(got, want string) bool {
	g, w := refmux.Tokens(got), refmux.Tokens(want)
	if len(g) != len(w) {
		return false
	}
	for i := range g {
		if g[i] != w[i] && !(w[i] == "*" && strings.HasPrefix(g[i], "*")) {
			return false
		}
	}
	return true
}

func TestPropMuxAgreesWithMatches(t *testing.T) {
	rapid.Check(t, func(t *rapid.T) {
		path := rapid.SampledFrom([]string{"", "", "test", "a.b", "a$"}).Draw(t, "path")
		m := res.NewMux(path)
		n := rapid.IntRange(1, 5).Draw(t, "npat")
		var full []string
		var marker []string
		mounts := map[string]*res.Mux{}
		nested, maxDepth := 0, 0
		registered := map[int]string{} // per accepted pattern: what OnRegister was told
		for i := 0; i < n; i++ {
			p := genValidPattern().Draw(t, "pattern")
			if rapid.IntRange(0, 2).Draw(t, "short") > 0 {
				toks := refmux.Tokens(p)
				if len(toks) > 3 {
					p = strings.Join(toks[:3], ".")
				}
			}
			mk := "m" + strconv.Itoa(i)
			// leading literal tokens may be walked through mounted sub-muxes (existing ones or
			// new ones, several levels deep); the handler is added to the mux reached
			cur, rest, key := m, refmux.Tokens(p), ""
			for len(rest) > 1 && rest[0] != "" && !strings.ContainsAny(rest[0][:1], "$*>") && refmux.ValidName(rest[0]) {
				k := key + "." + rest[0]
				sub := mounts[k]
				if rapid.IntRange(0, 2).Draw(t, "viaMount") == 0 {
					break
				}
				if sub == nil {
					sub = res.NewMux("")
					tok := rest[0]
					if panics(func() { cur.Mount(tok, sub) }) {
						break // something is registered there already
					}
					mounts[k] = sub
					nested++
				}
				cur, rest, key = sub, rest[1:], k
			}
			sp := strings.Join(rest, ".")
			idx := len(full)
			if panics(func() {
				cur.AddHandler(sp, res.Handler{Call: map[string]res.CallHandler{mk: nil}, OnRegister: func(_ *res.Service, p res.Pattern, _ res.Handler) {
					registered[idx] = string(p)
				}})
			}) {
				continue // conflicting registration (same structure, other placeholder names)
			}
			if cur != m {
				depth := strings.Count(key, ".")
				if depth > maxDepth {
					maxDepth = depth
				}
			}
			fp := p
			if path != "" {
				fp = path + "." + p
			}
			full = append(full, fp)
			marker = append(marker, mk)
		}
		if len(full) == 0 {
			return
		}
		// Mounted into a service (all registrations were made before): every handler is told
		// its full pattern, which is the pattern it was registered with below the mount path.
		if path != "" && refmux.ValidName(path) && !strings.ContainsAny(path, "$*>") && rapid.IntRange(0, 2).Draw(t, "mountToService") == 0 {
			svc := res.NewService("root")
			if !panics(func() { svc.Mount("z", m) }) {
				for i, fp := range full {
					want := "root.z." + fp
					if got, ok := registered[i]; ok && !samePattern(got, want) {
						t.Fatalf("the handler registered with pattern %q was told by OnRegister that its pattern is %q (expected %q; all patterns %q)", fp, got, want, full)
					}
				}
			}
			return // (a mux can be mounted once: the lookups below are made on unmounted muxes)
		}
		if rapid.IntRange(0, 3).Draw(t, "concurrent") == 0 {
			// several goroutines look names up on the same mux at once: same answers as alone
			var names []string
			for k := 0; k < 12; k++ {
				names = append(names, genNameFor(full[rapid.IntRange(0, len(full)-1).Draw(t, "cfrom")]).Draw(t, "cname"))
			}
			type ans struct {
				found  bool
				params string
				group  string
			}
			look := func(n string) (a ans) {
				defer func() { _ = recover() }()
				if mh := m.GetHandler(n); mh != nil {
					a = ans{true, fmt.Sprint(mh.Params), mh.Group}
				}
				return
			}
			alone := map[string]ans{}
			for _, n := range names {
				alone[n] = look(n)
			}
			var wg sync.WaitGroup
			var mu sync.Mutex
			bad := ""
			for g := 0; g < 4; g++ {
				wg.Add(1)
				go func(g int) {
					defer wg.Done()
					for r := 0; r < 50; r++ {
						n := names[(g+r)%len(names)]
						if a := look(n); a != alone[n] {
							mu.Lock()
							bad = fmt.Sprintf("GetHandler(%q) gives %+v when other goroutines look names up on the same mux, %+v alone (patterns %q)", n, a, alone[n], full)
							mu.Unlock()
						}
					}
				}(g)
			}
			wg.Wait()
			if bad != "" {
				t.Fatalf("%s", bad)
			}
		}
		nn := rapid.IntRange(1, 8).Draw(t, "nnames")
		for k := 0; k < nn; k++ {
			src := full[rapid.IntRange(0, len(full)-1).Draw(t, "from")]
			name := genNameFor(src).Draw(t, "name")
			if path != "" {
				switch rapid.IntRange(0, 9).Draw(t, "glue") {
				case 0:
					name = path + "-model" + strings.TrimPrefix(name, path)
				case 1:
					name = path + "s" + strings.TrimPrefix(name, path)
				case 2:
					name = strings.TrimPrefix(name, path+".")
				case 3:
					name = path
				}
			}
			if !refmux.ValidName(name) {
				continue
			}
			var mh *res.Match
			if panics(func() { mh = m.GetHandler(name) }) {
				t.Fatalf("GetHandler(%q) panicked (mux path %q, patterns %q)", name, path, full)
			}
			any := false
			for _, fp := range full {
				if res.Pattern(fp).Matches(name) {
					any = true
				}
			}
			multi := 0
			for _, fp := range full {
				if refmux.Match(fp, name) {
					multi++
				}
			}
			labels := []string{"mux-vs-matches"}
			if maxDepth > 0 {
				labels = append(labels, "mount-depth-"+strconv.Itoa(maxDepth))
			}
			ev.Case(multi >= 2 || maxDepth >= 2 || (path != "" && !strings.HasPrefix(name, path+".")), evid.Hash("mux", path, fmt.Sprint(full), name, maxDepth), labels...)
			if (mh != nil) != any {
				t.Fatalf("mux path %q patterns %q: GetHandler(%q) found=%v, but Pattern.Matches says a registered pattern matches=%v", path, full, name, mh != nil, any)
			}
			if mh != nil {
				ok := false
				for i, fp := range full {
					if _, has := mh.Handler.Call[marker[i]]; has && res.Pattern(fp).Matches(name) {
						ok = true
					}
				}
				if !ok {
					t.Fatalf("mux path %q patterns %q: GetHandler(%q) returned a handler whose pattern does not match the name", path, full, name)
				}
				// value extraction: the routed parameters are the values the pattern extracts
				for i, fp := range full {
					if _, has := mh.Handler.Call[marker[i]]; !has || dupParam(fp) {
						continue
					}
					want, vok := res.Pattern(fp).Values(name)
					if !vok {
						continue
					}
					same := len(want) == len(mh.Params)
					for k, v := range want {
						if mh.Params[k] != v {
							same = false
						}
					}
					if !same {
						t.Fatalf("mux path %q patterns %q (%d mounted sub-muxes, deepest %d): GetHandler(%q) gives parameters %v, Pattern(%q).Values gives %v", path, full, nested, maxDepth, name, mh.Params, fp, want)
					}
				}
			}
		}
	})
}
