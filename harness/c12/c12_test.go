package c12

import (
	"bufio"
	"bytes"
	"encoding/hex"
	"encoding/json"
	"errors"
	"fmt"
	"math"
	"net/url"
	"os"
	"os/exec"
	"path/filepath"
	"sort"
	"strconv"
	"strings"
	"sync"
	"sync/atomic"
	"syscall"
	"testing"
	"time"

	"github.com/dgraph-io/badger"
	"github.com/jirenius/go-res/store"
	"github.com/jirenius/go-res/store/badgerstore"
	"pgregory.net/rapid"

	"verifharness/internal/bdb"
	"verifharness/internal/evid"
)

const prop = "C12"

var ev = evid.For(prop)

func TestMain(m *testing.M) {
	if os.Getenv("VERIF_C12_CHILD") != "" {
		childMain()
		return
	}
	os.Exit(evid.Main(m))
}

func init() {
	ev.SetRule("cases = (workload: store configuration - prefix set/empty, typed struct / untyped map / BinaryMarshaler values, 1-2 indexes - 0-3 seeds, 1-3 process generations each calling Init and then 1-8 create/update/delete operations) x (kill point, occurrence): every instrumented point (store.committed, init.seeded, index.begin, index.committed, plus before/after every operation) at every occurrence of every generation is enumerated, the child process SIGKILLs itself there, later generations run on the surviving directory; the parent folds the acknowledged operations into the set of admissible states (the in-flight operation applied or absent; Init all-or-nothing), reopens the database and checks the content, then RebuildIndexes and every index query against the reference scan; a case is non-trivial when the kill landed between BEGIN and ACK of a mutation, inside Init, or between a value commit and its index update; distinct = (workload hash, generation, point, occurrence)")
	ev.Assume("process kill only: the OS page cache survives, so fsync placement (power loss) is not exercised")
	ev.Assume("the database is reopened with BadgerDB's Truncate option, as crash recovery requires")
}

// ---- workload ---------------------------------------------------------------------

// Rec is the typed value.
type Rec struct {
	A string `json:"a,omitempty"` // an empty A is absent from the stored JSON
	N int    `json:"n"`
	P string `json:"p,omitempty"` // padding: values with N == bigN are well above a kilobyte
}

// bigN: values carrying this number also carry 1500 bytes of padding.
const bigN = 7

var padding = strings.Repeat("0123456789", 150)

// Bin is a BinaryMarshaler value type.
type Bin struct {
	A string
	N int
}

func (b Bin) MarshalBinary() ([]byte, error) { return []byte(b.A + "|" + strconv.Itoa(b.N)), nil }
func (b *Bin) UnmarshalBinary(d []byte) error {
	i := bytes.LastIndexByte(d, '|')
	if i < 0 {
		return errors.New("bad binary value")
	}
	n, err := strconv.Atoi(string(d[i+1:]))
	if err != nil {
		return err
	}
	b.A, b.N = string(d[:i]), n
	return nil
}

// Op is a workload operation.
type Op struct {
	K  string `json:"k"` // init create update delete upd2
	ID string `json:"id,omitempty"`
	A  string `json:"a,omitempty"`
	N  int    `json:"n,omitempty"`
}

// Workload is a whole workload.
type Workload struct {
	Prefix  string   `json:"prefix"`
	Kind    string   `json:"kind"` // typed map binary
	Indexes []string `json:"indexes"`
	Seeds   []Op     `json:"seeds"`
	Gens    [][]Op   `json:"gens"`
	// Par, when > 0, names the generation (Par-1) whose operations are issued by three
	// goroutines at once (partitioned by id, so per-id order is kept). That generation is
	// never killed; kills in the others are enumerated as usual.
	Par int `json:"par,omitempty"`
}

func (w Workload) String() string { b, _ := json.Marshal(w); return string(b) }

// Kill names a kill point.
type Kill struct {
	Gen   int    `json:"gen"`
	Point string `json:"point"`
	Occ   int    `json:"occ"`
	// Point "@time": the parent SIGKILLs the child from outside, DelayUs microseconds after
	// it has read the AfterLine-th output line of the child (Occ unused).
	AfterLine int `json:"afterLine,omitempty"`
	DelayUs   int `json:"delayUs,omitempty"`
}

// nanN: for map stores, the number NaN - a value that JSON cannot encode.
const nanN = 99

func unencodable(w Workload, op Op) bool {
	return w.Kind == "map" && op.N == nanN && (op.K == "create" || op.K == "update" || op.K == "upd2")
}

func value(kind, a string, n int) interface{} {
	switch kind {
	case "map":
		if n == nanN {
			return map[string]interface{}{"a": a, "n": math.NaN()}
		}
		if n == bigN && a != "" {
			return map[string]interface{}{"a": a, "n": n, "p": padding}
		}
		if a == "" {
			return map[string]interface{}{"n": n} // a value that lacks the indexed field
		}
		return map[string]interface{}{"a": a, "n": n}
	case "binary":
		return Bin{A: a, N: n}
	}
	if n == bigN {
		return Rec{A: a, N: n, P: padding}
	}
	return Rec{A: a, N: n}
}

func fields(v interface{}) (string, int) {
	switch t := v.(type) {
	case Rec:
		return t.A, t.N
	case Bin:
		return t.A, t.N
	case map[string]interface{}:
		a, _ := t["a"].(string)
		n, _ := t["n"].(float64)
		if i, ok := t["n"].(int); ok {
			n = float64(i)
		}
		return a, int(n)
	}
	return "?", -1
}

func indexKey(name string, v interface{}) []byte {
	a, n := fields(v)
	switch name {
	case "ia":
		if a == "" {
			return nil
		}
		// '~' stands for the byte 0xff, '^' for the byte 0x00 (binary index keys)
		k := []byte(a)
		for i := range k {
			if k[i] == '~' {
				k[i] = 0xff
			}
			if k[i] == '^' {
				k[i] = 0x00
			}
		}
		return k
	case "ie":
		// a key that is empty, but not nil, for values whose field is empty: still indexed
		if m, ok := v.(map[string]interface{}); ok {
			if _, has := m["a"]; !has {
				return nil
			}
		}
		return append([]byte{}, a...)
	default:
		return []byte(strconv.Itoa(n % 3))
	}
}

type env struct {
	db *badger.DB
	st *badgerstore.Store
	qs *badgerstore.QueryStore
	// keyHook, when set, is called (once, then cleared) the next time an index Key function
	// runs: something that happens while RebuildIndexes or an index update is under way
	keyHook atomic.Pointer[func()]
}

func openEnv(dir string, w Workload) (*env, error) {
	o := bdb.Options(dir)
	o.Truncate = true
	db, err := badger.Open(o)
	if err != nil {
		return nil, err
	}
	st := badgerstore.NewStore(db).SetPrefix(w.Prefix)
	switch w.Kind {
	case "typed":
		st.SetType(Rec{})
	case "binary":
		st.SetType(Bin{})
	}
	var prepMu sync.Mutex
	prepared := map[string]*badgerstore.IndexQuery{}
	qs := badgerstore.NewQueryStore(st, func(qs *badgerstore.QueryStore, q url.Values) (*badgerstore.IndexQuery, error) {
		// the same query gets the same (prepared) IndexQuery value again
		prepMu.Lock()
		defer prepMu.Unlock()
		if iq := prepared[q.Encode()]; iq != nil {
			return iq, nil
		}
		p, _ := hex.DecodeString(q.Get("prefix"))
		iq := &badgerstore.IndexQuery{Index: qs.Index(q.Get("index")), KeyPrefix: p, Limit: -1, Reverse: q.Get("reverse") == "true"}
		if q.Get("window") == "1" {
			// every second key length filtered out, one entry skipped, at most two returned
			iq.FilterKeys = func(k []byte) bool { return len(k)%2 == 1 }
			iq.Offset, iq.Limit = 1, 2
		}
		prepared[q.Encode()] = iq
		return iq, nil
	})
	e := &env{db: db, st: st, qs: qs}
	for _, name := range w.Indexes {
		name := name
		qs.AddIndex(badgerstore.Index{Name: name, Key: func(v interface{}) []byte {
			if h := e.keyHook.Swap(nil); h != nil {
				(*h)()
			}
			return indexKey(name, v)
		}})
	}
	return e, nil
}

func (e *env) apply(w Workload, op Op) error {
	switch op.K {
	case "init":
		return e.st.Init(func(add func(id string, v interface{})) error {
			for _, s := range w.Seeds {
				add(s.ID, value(w.Kind, s.A, s.N))
			}
			return nil
		})
	case "initfail":
		// an Init whose callback fails after having offered the seeds: nothing is seeded, the
		// store is not marked, and a later Init call does the work
		return e.st.Init(func(add func(id string, v interface{})) error {
			for _, s := range w.Seeds {
				add(s.ID, value(w.Kind, s.A, s.N))
			}
			return errors.New("seed source unavailable")
		})
	}
	tx := e.st.Write(op.ID)
	defer tx.Close()
	switch op.K {
	case "create":
		return tx.Create(value(w.Kind, op.A, op.N))
	case "update":
		return tx.Update(value(w.Kind, op.A, op.N))
	case "upd2":
		// two updates in one write transaction: to another value and back to what it was
		cur, err := tx.Value()
		if err != nil {
			return err
		}
		if err := tx.Update(value(w.Kind, op.A, op.N)); err != nil {
			return err
		}
		return tx.Update(cur)
	default:
		return tx.Delete()
	}
}

// ---- child --------------------------------------------------------------------------

func childMain() {
	var w Workload
	if err := json.Unmarshal([]byte(os.Getenv("VERIF_C12_WORKLOAD")), &w); err != nil {
		fmt.Println("CHILDERR bad workload", err)
		os.Exit(3)
	}
	gen, _ := strconv.Atoi(os.Getenv("VERIF_C12_GEN"))
	var kill Kill
	_ = json.Unmarshal([]byte(os.Getenv("VERIF_C12_KILL")), &kill)
	var outMu sync.Mutex
	say := func(f string, a ...interface{}) {
		// one write(2) per line, serialised: lines written before SIGKILL survive in the pipe
		outMu.Lock()
		_, _ = os.Stdout.WriteString(fmt.Sprintf(f+"\n", a...))
		outMu.Unlock()
	}
	var mu sync.Mutex
	counts := map[string]int{}
	visit := func(point string) {
		mu.Lock()
		counts[point]++
		n := counts[point]
		mu.Unlock()
		if kill.Point == point && kill.Occ == n {
			outMu.Lock() // no further line may be written once the kill is decided
			_, _ = os.Stdout.WriteString(fmt.Sprintf("KILL %s %d\n", point, n))
			_ = syscall.Kill(os.Getpid(), syscall.SIGKILL)
			select {}
		}
	}
	badgerstore.VerifHook = func(point string, arg interface{}) { visit(point) }
	e, err := openEnv(os.Getenv("VERIF_C12_DIR"), w)
	if err != nil {
		say("CHILDERR open %v", err)
		os.Exit(3)
	}
	e.st.OnChange(func(id string, before, after interface{}) {
		say("CHG %s %v %v", id, before != nil, after != nil)
	})
	runOp := func(i int, op Op) {
		say("BEGIN %d", i)
		visit("op.before")
		err := e.apply(w, op)
		if err != nil {
			say("ERR %d %v", i, strings.ReplaceAll(err.Error(), "\n", " "))
		} else {
			say("ACK %d", i)
		}
		visit("op.after")
	}
	if w.Par == gen+1 {
		// everything up to the first Init alone, then three writers on disjoint id sets
		var wg sync.WaitGroup
		parts := make([][]int, 3)
		firstInit := 0
		for i, op := range w.Gens[gen] {
			if op.K == "init" {
				firstInit = i
				break
			}
		}
		for i, op := range w.Gens[gen] {
			if i <= firstInit {
				runOp(i, op)
				continue
			}
			h := 0
			for _, c := range op.ID {
				h = h*31 + int(c)
			}
			parts[h%3] = append(parts[h%3], i)
		}
		for _, part := range parts {
			wg.Add(1)
			go func(part []int) {
				defer wg.Done()
				for _, i := range part {
					runOp(i, w.Gens[gen][i])
				}
			}(part)
		}
		wg.Wait()
	} else {
		for i, op := range w.Gens[gen] {
			runOp(i, op)
		}
	}
	e.qs.Flush()
	say("FLUSHED")
	mu.Lock()
	b, _ := json.Marshal(counts)
	mu.Unlock()
	say("COUNTS %s", b)
	_ = e.db.Close()
	say("DONE")
	os.Exit(0)
}

type childResult struct {
	begun    int            // index of last BEGIN (-1 none)
	outcome  map[int]string // i -> "ack" | "err"
	killed   bool
	killLine string
	done     bool
	flushed  bool
	counts   map[string]int
	changes  []string
	raw      string
}

func runChild(dir string, w Workload, gen int, kill *Kill) (*childResult, error) {
	cmd := exec.Command(os.Args[0], "-test.run", "^$")
	wb, _ := json.Marshal(w)
	kb, _ := json.Marshal(kill)
	if kill == nil {
		kb = []byte("{}")
	}
	cmd.Env = append(os.Environ(), "VERIF_C12_CHILD=1", "VERIF_C12_WORKLOAD="+string(wb), "VERIF_C12_GEN="+strconv.Itoa(gen), "VERIF_C12_KILL="+string(kb), "VERIF_C12_DIR="+dir, "VERIF_EVID_DIR=")
	var buf bytes.Buffer
	var bufMu sync.Mutex
	pr, pw, err := os.Pipe()
	if err != nil {
		return nil, err
	}
	cmd.Stdout = pw
	cmd.Stderr = pw
	done := make(chan error, 1)
	if err := cmd.Start(); err != nil {
		pw.Close()
		pr.Close()
		return nil, err
	}
	pw.Close()
	timed := kill != nil && kill.Point == "@time"
	readDone := make(chan struct{})
	killedByParent := false
	go func() {
		defer close(readDone)
		br := bufio.NewReader(pr)
		lines := 0
		for {
			line, err := br.ReadString('\n')
			bufMu.Lock()
			buf.WriteString(line)
			bufMu.Unlock()
			if line != "" {
				lines++
				if timed && lines == kill.AfterLine {
					d := time.Duration(kill.DelayUs) * time.Microsecond
					go func() {
						time.Sleep(d)
						_ = cmd.Process.Kill()
					}()
				}
			}
			if err != nil {
				return
			}
		}
	}()
	go func() { done <- cmd.Wait() }()
	select {
	case werr := <-done:
		if werr != nil && strings.Contains(werr.Error(), "killed") {
			killedByParent = true
		}
	case <-time.After(60 * time.Second):
		_ = cmd.Process.Kill()
		return nil, fmt.Errorf("VERIF-INCONCLUSIVE: child did not finish within 60s")
	}
	<-readDone
	pr.Close()
	r := &childResult{begun: -1, outcome: map[int]string{}, counts: map[string]int{}, raw: buf.String()}
	for _, line := range strings.Split(buf.String(), "\n") {
		f := strings.Fields(line)
		if len(f) == 0 {
			continue
		}
		switch f[0] {
		case "BEGIN":
			r.begun, _ = strconv.Atoi(f[1])
		case "ACK":
			i, _ := strconv.Atoi(f[1])
			r.outcome[i] = "ack"
		case "ERR":
			i, _ := strconv.Atoi(f[1])
			r.outcome[i] = "err: " + strings.Join(f[2:], " ")
		case "KILL":
			r.killed = true
			r.killLine = line
		case "FLUSHED":
			r.flushed = true
		case "DONE":
			r.done = true
		case "COUNTS":
			_ = json.Unmarshal([]byte(strings.TrimPrefix(line, "COUNTS ")), &r.counts)
		case "CHG":
			r.changes = append(r.changes, line)
		case "CHILDERR":
			return r, fmt.Errorf("child error: %s", line)
		}
	}
	if timed {
		// killed from outside somewhere, or finished before the signal arrived
		r.killed = killedByParent && !r.done
		if !r.killed && !r.done {
			return r, fmt.Errorf("child neither completed nor was killed: %s", tail(r.raw))
		}
		return r, nil
	}
	if kill != nil && kill.Point != "" && !r.killed {
		return r, fmt.Errorf("kill point %v was not reached: %s", *kill, tail(r.raw))
	}
	if (kill == nil || kill.Point == "") && !r.done {
		return r, fmt.Errorf("unkilled child did not complete: %s", tail(r.raw))
	}
	return r, nil
}

func tail(s string) string {
	if len(s) > 600 {
		return "…" + s[len(s)-600:]
	}
	return s
}

// ---- model: set of admissible states ---------------------------------------------------

type state struct {
	vals   map[string]string // id -> "a|n"
	inited bool
}

func (s state) key() string {
	var ks []string
	for k, v := range s.vals {
		ks = append(ks, k+"="+v)
	}
	sort.Strings(ks)
	return fmt.Sprint(s.inited, ks)
}

func (s state) clone() state {
	c := state{vals: map[string]string{}, inited: s.inited}
	for k, v := range s.vals {
		c.vals[k] = v
	}
	return c
}

// step applies op to s; ok=false when the op fails in that state.
func step(w Workload, s state, op Op) (state, bool) {
	if unencodable(w, op) {
		return s, false
	}
	n := s.clone()
	switch op.K {
	case "initfail":
		// fails when the store is not initialised yet (the callback is then called and its
		// error returned); on an initialised store Init returns nil without calling it
		return s, n.inited
	case "init":
		if !n.inited {
			for _, sd := range w.Seeds {
				if _, ok := n.vals[sd.ID]; !ok {
					n.vals[sd.ID] = sd.A + "|" + strconv.Itoa(sd.N)
				}
			}
			n.inited = true
		}
		return n, true
	case "create":
		if _, ok := n.vals[op.ID]; ok {
			return s, false
		}
		n.vals[op.ID] = op.A + "|" + strconv.Itoa(op.N)
		return n, true
	case "update":
		if _, ok := n.vals[op.ID]; !ok {
			return s, false
		}
		n.vals[op.ID] = op.A + "|" + strconv.Itoa(op.N)
		return n, true
	case "upd2":
		// acknowledged: the value is what it was
		if _, ok := n.vals[op.ID]; !ok {
			return s, false
		}
		return n, true
	default:
		if _, ok := n.vals[op.ID]; !ok {
			return s, false
		}
		delete(n.vals, op.ID)
		return n, true
	}
}

func dedupe(ss []state) []state {
	seen := map[string]bool{}
	var out []state
	for _, s := range ss {
		if k := s.key(); !seen[k] {
			seen[k] = true
			out = append(out, s)
		}
	}
	return out
}

// advance folds one generation's child result into the admissible state set.
func advance(w Workload, states []state, ops []Op, r *childResult) ([]state, string) {
	for i, op := range ops {
		oc, have := r.outcome[i]
		switch {
		case have:
			var next []state
			for _, s := range states {
				n, ok := step(w, s, op)
				if ok == (oc == "ack") {
					next = append(next, n)
				}
			}
			if len(next) == 0 {
				return nil, fmt.Sprintf("operation %d %+v reported %q, which no admissible state allows (states: %v)", i, op, oc, keys(states))
			}
			states = dedupe(next)
		case r.begun == i:
			// in flight at the kill: applied fully or absent
			var next []state
			for _, s := range states {
				next = append(next, s)
				if n, ok := step(w, s, op); ok {
					next = append(next, n)
					if op.K == "upd2" {
						// killed between its two updates: the intermediate value
						mid := s.clone()
						mid.vals[op.ID] = op.A + "|" + strconv.Itoa(op.N)
						next = append(next, mid)
					}
				}
			}
			return dedupe(next), ""
		default:
			return states, ""
		}
	}
	return states, ""
}

func keys(ss []state) []string {
	var k []string
	for _, s := range ss {
		k = append(k, s.key())
	}
	return k
}

// observe reads the real state of the reopened database.
func observe(e *env, w Workload, ids []string) (state, error) {
	s := state{vals: map[string]string{}}
	for _, id := range ids {
		tx := e.st.Read(id)
		v, err := tx.Value()
		_ = tx.Close()
		if err == nil {
			a, n := fields(v)
			s.vals[id] = a + "|" + strconv.Itoa(n)
		} else if !errors.Is(err, store.ErrNotFound) {
			return s, fmt.Errorf("reading %q after reopen: %v", id, err)
		}
	}
	err := e.db.View(func(txn *badger.Txn) error {
		_, err := txn.Get([]byte("$" + prefixOf(w) + "init"))
		if err == nil {
			s.inited = true
			return nil
		}
		if err == badger.ErrKeyNotFound {
			return nil
		}
		return err
	})
	return s, err
}

func prefixOf(w Workload) string {
	if w.Prefix == "" {
		return ""
	}
	return w.Prefix + "."
}

func allIDs(w Workload) []string {
	set := map[string]bool{}
	for _, s := range w.Seeds {
		set[s.ID] = true
	}
	for _, g := range w.Gens {
		for _, op := range g {
			if op.ID != "" {
				set[op.ID] = true
			}
		}
	}
	var out []string
	for k := range set {
		out = append(out, k)
	}
	sort.Strings(out)
	return out
}

// checkIndexes compares every index query with the reference scan of the stored values.
func checkIndexes(e *env, w Workload, obs state) string {
	type ent struct{ key, id string }
	for _, idx := range w.Indexes {
		var es []ent
		prefixes := map[string]bool{"": true}
		for id, v := range obs.vals {
			i := strings.LastIndexByte(v, '|')
			n, _ := strconv.Atoi(v[i+1:])
			k := indexKey(idx, value(w.Kind, v[:i], n))
			if k == nil {
				continue
			}
			es = append(es, ent{string(k), id})
			for j := 1; j <= len(k); j++ {
				prefixes[string(k[:j])] = true
			}
		}
		zeroKeys := false
		for _, x := range es {
			if strings.IndexByte(x.key, 0) >= 0 {
				zeroKeys = true
			}
		}
		sort.Slice(es, func(i, j int) bool {
			if es[i].key != es[j].key {
				return es[i].key < es[j].key
			}
			return es[i].id < es[j].id
		})
		for p := range prefixes {
			for _, rev := range []bool{false, true} {
				var want []string
				for _, x := range es {
					if strings.HasPrefix(x.key, p) {
						want = append(want, x.id)
					}
				}
				if rev {
					for i, j := 0, len(want)-1; i < j; i, j = i+1, j-1 {
						want[i], want[j] = want[j], want[i]
					}
				}
				res, err := e.qs.Query(url.Values{"index": {idx}, "prefix": {hex.EncodeToString([]byte(p))}, "reverse": {strconv.FormatBool(rev)}})
				if err != nil {
					return fmt.Sprintf("index query %s prefix %q failed: %v", idx, p, err)
				}
				got, _ := res.([]string)
				if zeroKeys {
					// the separator byte inside keys leaves the relative order of some entries
					// open: the same ids, in whatever order
					got, want = append([]string(nil), got...), append([]string(nil), want...)
					sort.Strings(got)
					sort.Strings(want)
				}
				if fmt.Sprint(got) != fmt.Sprint(want) {
					return fmt.Sprintf("index %s prefix %q reverse=%v returns %q, the stored values give %q", idx, p, rev, got, want)
				}
				if zeroKeys {
					continue
				}
				// the same query through a key filter, an offset and a limit
				var wwant []string
				skip := 1
				for _, x := range func() []ent {
					var m []ent
					for _, x := range es {
						if strings.HasPrefix(x.key, p) {
							m = append(m, x)
						}
					}
					if rev {
						for i, j := 0, len(m)-1; i < j; i, j = i+1, j-1 {
							m[i], m[j] = m[j], m[i]
						}
					}
					return m
				}() {
					if len(x.key)%2 != 1 {
						continue
					}
					if skip > 0 {
						skip--
						continue
					}
					if len(wwant) < 2 {
						wwant = append(wwant, x.id)
					}
				}
				res, err = e.qs.Query(url.Values{"index": {idx}, "prefix": {hex.EncodeToString([]byte(p))}, "reverse": {strconv.FormatBool(rev)}, "window": {"1"}})
				if err != nil {
					return fmt.Sprintf("index query %s prefix %q (filter, offset 1, limit 2) failed: %v", idx, p, err)
				}
				got, _ = res.([]string)
				if fmt.Sprint(got) != fmt.Sprint(wwant) {
					return fmt.Sprintf("index %s prefix %q reverse=%v with an odd-length key filter, offset 1, limit 2 returns %q, the stored values give %q", idx, p, rev, got, wwant)
				}
			}
		}
	}
	return ""
}

// runScenario runs all generations with the given kills (one optional kill per generation) and checks the result.
func runScenario(w Workload, kills map[int]Kill) (msg string, nontrivial bool, counts []map[string]int) {
	dir := bdb.TempDir("c12")
	defer os.RemoveAll(dir)
	states := []state{{vals: map[string]string{}}}
	lastKilled := false
	anyKilled := false
	for g := range w.Gens {
		var k *Kill
		if kk, ok := kills[g]; ok {
			k = &kk
		}
		r, err := runChild(dir, w, g, k)
		if err != nil {
			if strings.Contains(err.Error(), "not reached") {
				return "", false, counts // the point does not occur in this run (earlier kill changed the path)
			}
			if r != nil && !r.killed && strings.Contains(r.raw, "panic") {
				return fmt.Sprintf("generation %d: child crashed on its own: %s", g, tail(r.raw)), nontrivial, counts
			}
			return "VERIF-INCONCLUSIVE: " + err.Error(), nontrivial, counts
		}
		counts = append(counts, r.counts)
		if r.killed {
			lastKilled = true
			anyKilled = true
			_, acked := r.outcome[r.begun]
			if r.begun >= 0 && !acked {
				nontrivial = true
			}
			if k.Point == "index.begin" || k.Point == "index.committed" || k.Point == "init.seeded" {
				nontrivial = true
			}
		} else {
			lastKilled = false
		}
		var m string
		states, m = advance(w, states, w.Gens[g], r)
		if m != "" {
			return fmt.Sprintf("generation %d: %s", g, m), nontrivial, counts
		}
	}
	e, err := openEnv(dir, w)
	if err != nil {
		return fmt.Sprintf("database cannot be reopened after the kill: %v", err), nontrivial, counts
	}
	defer e.db.Close()
	obs, err := observe(e, w, allIDs(w))
	if err != nil {
		return err.Error(), nontrivial, counts
	}
	okState := false
	for _, s := range states {
		if s.key() == obs.key() {
			okState = true
		}
	}
	if !okState {
		return fmt.Sprintf("after reopening, the store holds %s; admissible (acknowledged operations applied, in-flight one applied or absent, Init all-or-nothing and once): %v", obs.key(), keys(states)), nontrivial, counts
	}
	_ = lastKilled
	if !anyKilled {
		// a history without any kill, completed with Flush, must already have consistent indexes
		if m := checkIndexes(e, w, obs); m != "" {
			return "without any kill (Flush completed): " + m, nontrivial, counts
		}
	}
	if err := e.qs.RebuildIndexes(); err != nil {
		return fmt.Sprintf("RebuildIndexes failed: %v (store holds %s)", err, obs.key()), nontrivial, counts
	}
	if m := checkIndexes(e, w, obs); m != "" {
		return "after RebuildIndexes: " + m, nontrivial, counts
	}
	return "", nontrivial, counts
}

// ---- generator ---------------------------------------------------------------------------

func genWorkload() *rapid.Generator[Workload] {
	return rapid.Custom(func(t *rapid.T) Workload {
		w := Workload{Prefix: rapid.SampledFrom([]string{"", "pfx"}).Draw(t, "prefix"), Kind: rapid.SampledFrom([]string{"typed", "map", "binary"}).Draw(t, "kind")}
		// (an index whose name is the start of another index's name, and one named like the key
		// prefix of the store: their entries are still their own)
		w.Indexes = rapid.SampledFrom([][]string{{"ia"}, {"ia", "in"}, {"ia", "ie"}, {"ia", "i"}, {"pfx", "ia"}, {"i", "in", "pfx"}}).Draw(t, "indexes")
		ids := []string{"1", "2", "px", "k", "f1", "$me"} // some ids start with characters of the prefix "pfx." or of the init marker
		as := []string{"a", "b", "ab", "", "a~", "~", "a^", "^b"}
		ns := rapid.IntRange(0, 3).Draw(t, "nseeds")
		seen := map[string]bool{}
		for i := 0; i < ns; i++ {
			id := rapid.SampledFrom(ids).Draw(t, "seedid")
			if seen[id] {
				continue
			}
			seen[id] = true
			w.Seeds = append(w.Seeds, Op{ID: id, A: rapid.SampledFrom(as).Draw(t, "a"), N: rapid.IntRange(0, 9).Draw(t, "n")})
		}
		ng := rapid.IntRange(1, 3).Draw(t, "ngens")
		for g := 0; g < ng; g++ {
			ops := []Op{{K: "init"}}
			if rapid.IntRange(0, 2).Draw(t, "failfirst") == 0 {
				// the first attempt to seed fails; the process tries again
				ops = []Op{{K: "initfail"}, {K: "init"}}
			}
			if rapid.IntRange(0, 2+2*g).Draw(t, "lateinit") == 0 {
				// a generation that writes before it calls Init (Init may still come later),
				// preferably to an id that is also a seed
				id := rapid.SampledFrom(ids).Draw(t, "preid")
				if len(w.Seeds) > 0 && rapid.IntRange(0, 3).Draw(t, "preseed") > 0 {
					id = w.Seeds[rapid.IntRange(0, len(w.Seeds)-1).Draw(t, "preseedid")].ID
				}
				ops = []Op{{K: "create", ID: id, A: rapid.SampledFrom(as).Draw(t, "prea"), N: rapid.IntRange(0, 9).Draw(t, "pren")}, {K: "init"}}
			}
			n := rapid.IntRange(1, 8).Draw(t, "nops")
			for i := 0; i < n; i++ {
				k := rapid.SampledFrom([]string{"create", "create", "update", "update", "delete", "init", "upd2", "initfail"}).Draw(t, "k")
				op := Op{K: k}
				if k != "init" && k != "initfail" {
					op.ID = rapid.SampledFrom(ids).Draw(t, "id")
					op.A = rapid.SampledFrom(as).Draw(t, "a")
					op.N = rapid.IntRange(0, 9).Draw(t, "n")
					if w.Kind == "map" && rapid.IntRange(0, 11).Draw(t, "nan") == 0 {
						op.N = nanN // a value JSON cannot encode: the write fails and changes nothing
					}
				}
				ops = append(ops, op)
			}
			w.Gens = append(w.Gens, ops)
		}
		if rapid.IntRange(0, 2).Draw(t, "par") == 0 {
			w.Par = 1 + rapid.IntRange(0, ng-1).Draw(t, "pargen")
			// more, and longer, writes in the concurrent generation
			g := w.Par - 1
			for i := 0; i < 12; i++ {
				w.Gens[g] = append(w.Gens[g], Op{K: rapid.SampledFrom([]string{"create", "update", "update", "delete"}).Draw(t, "pk"), ID: rapid.SampledFrom(ids).Draw(t, "pid"),
					A: rapid.SampledFrom([]string{"a", "b", "ab", "", "a-considerably-longer-index-key-value"}).Draw(t, "pa"), N: rapid.IntRange(0, 9).Draw(t, "pn")})
			}
		}
		return w
	})
}

var points = []string{"op.before", "op.after", "store.committed", "init.seeded", "index.begin", "index.committed"}

// enumerate runs every (generation, point, occurrence) of a workload on `par` parallel workers.
func enumerate(t *testing.T, w Workload, par int) (violation string, kill Kill, scenarios int, nontrivial int) {
	// learn the counts with an unkilled run
	msg, _, counts := runScenario(w, nil)
	scenarios++
	if msg != "" {
		return msg, Kill{}, scenarios, 0
	}
	var kills []Kill
	for g := range w.Gens {
		if g >= len(counts) {
			break
		}
		if w.Par == g+1 {
			continue // the concurrent generation is not killed
		}
		for _, p := range points {
			for o := 1; o <= counts[g][p]; o++ {
				kills = append(kills, Kill{Gen: g, Point: p, Occ: o})
			}
		}
	}
	type res struct {
		msg string
		nt  bool
		k   Kill
	}
	ch := make(chan Kill)
	out := make(chan res)
	var wg sync.WaitGroup
	for i := 0; i < par; i++ {
		wg.Add(1)
		go func() {
			defer wg.Done()
			for k := range ch {
				m, nt, _ := runScenario(w, map[int]Kill{k.Gen: k})
				out <- res{m, nt, k}
			}
		}()
	}
	go func() {
		for _, k := range kills {
			ch <- k
		}
		close(ch)
		wg.Wait()
		close(out)
	}()
	for r := range out {
		scenarios++
		wh := evid.Hash(w.String())
		ev.Case(r.nt, evid.Hash(wh, r.k.Gen, r.k.Point, r.k.Occ), "kill-"+r.k.Point)
		if r.nt {
			nontrivial++
		}
		if r.msg != "" && violation == "" {
			violation, kill = r.msg, r.k
		}
	}
	return
}

func workloads(n int) []Workload {
	seed, _ := strconv.Atoi(os.Getenv("VERIF_RSEED"))
	var ws []Workload
	for i := 0; i < n; i++ {
		ws = append(ws, genWorkload().Example(seed+i*7919))
	}
	return ws
}

type replayCase struct {
	W Workload     `json:"workload"`
	K map[int]Kill `json:"kills"`
}

// TestCrashEnumeration enumerates all kill points of generated workloads.
func TestCrashEnumeration(t *testing.T) {
	if rp := os.Getenv("VERIF_REPLAY"); rp != "" {
		_, raw, err := evid.LoadReplay(rp)
		if err != nil {
			t.Fatal(err)
		}
		var rc replayCase
		_ = json.Unmarshal(raw, &rc)
		if msg, _, _ := runScenario(rc.W, rc.K); msg != "" {
			evid.Violation(t, prop, "crash", msg, rc)
		}
		return
	}
	n := evid.Pick(12, 80)
	par := 8
	for _, w := range workloads(n) {
		if dropKnown(&w) {
			ev.Exclude("C12-known")
		}
		msg, k, sc, _ := enumerate(t, w, par)
		ev.Add("scenarios", int64(sc))
		ev.Add("workloads", 1)
		ev.Sample("workload", 2, func() interface{} { return w })
		if msg != "" {
			if strings.HasPrefix(msg, "VERIF-INCONCLUSIVE") {
				t.Fatalf("%s", msg)
			}
			kills := map[int]Kill{}
			if k.Point != "" {
				kills[k.Gen] = k
			}
			evid.Violation(t, prop, "crash", fmt.Sprintf("kill %+v: %s", k, msg), replayCase{W: w, K: kills})
			return
		}
	}
	ev.SetExtra("exhaustive_per_workload", true)
}

// dropKnown adapts a workload to exclude listed known findings by construction.
func dropKnown(w *Workload) bool { return false }

// TestRandomTimeKills: the parent SIGKILLs a child generation from outside, a drawn
// number of microseconds after a drawn output line, i.e. anywhere - not only at an
// instrumented point. The same admissible-state fold decides (an operation that was
// begun but not acknowledged is in flight).
func TestRandomTimeKills(t *testing.T) {
	n := evid.Pick(48, 600)
	seed, _ := strconv.Atoi(os.Getenv("VERIF_RSEED"))
	nsh, sh := 1, 0
	if v, err := strconv.Atoi(os.Getenv("VERIF_SHARDS")); err == nil && v > 0 {
		nsh = v
		sh, _ = strconv.Atoi(os.Getenv("VERIF_SHARD"))
	}
	landed := 0
	for i := sh; i < n; i += nsh {
		w := genWorkload().Example(seed%1000003 + 100000 + i*7919)
		w.Par = 0
		g := (seed/11 + i) % len(w.Gens)
		x := uint64(seed)*2654435761 + uint64(i)*40503
		k := Kill{Gen: g, Point: "@time", AfterLine: 1 + int(x%uint64(2*len(w.Gens[g])+3)), DelayUs: []int{0, 0, 20, 80, 200, 500, 1500, 4000}[(x/97)%8]}
		msg, nt, _ := runScenario(w, map[int]Kill{g: k})
		ev.Case(nt, evid.Hash(w.String(), g, k.AfterLine, k.DelayUs), "random-time-kill")
		if nt {
			landed++
		}
		if msg != "" && !strings.HasPrefix(msg, "VERIF-INCONCLUSIVE") {
			evid.Violation(t, prop, "crash", fmt.Sprintf("kill %+v: %s", k, msg), replayCase{W: w, K: map[int]Kill{g: k}})
			return
		}
		if strings.HasPrefix(msg, "VERIF-INCONCLUSIVE") {
			t.Fatalf("%s", msg)
		}
	}
	ev.Add("random-time-kills-landed-in-flight", int64(landed))
}

var _ = filepath.Join

// TestBulkRebuild: several hundred stored values, reopen, RebuildIndexes, every index
// query (unlimited, filtered/windowed, both directions) against the stored values.
func TestBulkRebuild(t *testing.T) {
	rapid.Check(t, func(rt *rapid.T) {
		w := Workload{Prefix: rapid.SampledFrom([]string{"", "pfx"}).Draw(rt, "prefix"), Kind: rapid.SampledFrom([]string{"typed", "map"}).Draw(rt, "kind"), Indexes: []string{"ia", "in", "ie"}}
		n := rapid.IntRange(257, 400).Draw(rt, "values")
		dir := bdb.TempDir("c12bulk")
		defer os.RemoveAll(dir)
		e, err := openEnv(dir, w)
		if err != nil {
			rt.Fatalf("VERIF-INCONCLUSIVE: %v", err)
		}
		obs := state{vals: map[string]string{}}
		idStyle := rapid.IntRange(0, 2).Draw(rt, "idStyle")
		if idStyle == 1 {
			n = rapid.IntRange(257, 520).Draw(rt, "manyvalues") // (the small test database limits a transaction to about 1700 entries)
		}
		for i := 0; i < n; i++ {
			id := fmt.Sprintf("v%03d", i)
			switch idStyle {
			case 1:
				id = strconv.Itoa(i + 1) // plain numbers: "79" is a prefix of "790"
			case 2:
				// all strings over {a,b} by length: most keys are prefixes of the keys after them
				id = ""
				for k := i + 2; k > 1; k /= 2 {
					id = string("ab"[k%2]) + id
				}
			}
			op := Op{K: "create", ID: id, A: rapid.SampledFrom([]string{"a", "b", "ab", "", "a~", "~"}).Draw(rt, "a"), N: rapid.IntRange(0, 9).Draw(rt, "n")}
			if err := e.apply(w, op); err != nil {
				_ = e.db.Close()
				rt.Fatalf("create %s: %v", op.ID, err)
			}
			obs.vals[op.ID] = op.A + "|" + strconv.Itoa(op.N)
		}
		e.qs.Flush()
		_ = e.db.Close()
		e, err = openEnv(dir, w)
		if err != nil {
			rt.Fatalf("database cannot be reopened: %v", err)
		}
		defer e.db.Close()
		if m := checkIndexes(e, w, obs); m != "" {
			rt.Fatalf("%d values, after reopening: %s", n, m)
		}
		if err := e.qs.RebuildIndexes(); err != nil {
			rt.Fatalf("RebuildIndexes failed: %v", err)
		}
		if m := checkIndexes(e, w, obs); m != "" {
			rt.Fatalf("%d values, after RebuildIndexes: %s", n, m)
		}
		ev.Case(true, evid.Hash("bulk", w.Prefix, w.Kind, n), "bulk-rebuild")
	})
}

// TestInitRace: a write from another goroutine commits while Init is between its existence
// checks and its commit (held there by the init.seeded hook). Whatever the store does with
// the two, the outcome must be one a serial order explains: Init then the write, the write
// then Init, or Init failing as a whole and the write applied; it must hold after a reopen
// with Init called again, and the indexes must agree with the stored values.
func TestInitRace(t *testing.T) {
	rapid.Check(t, func(rt *rapid.T) {
		ids := []string{"1", "2", "px"}
		as := []string{"a", "b", "ab", ""}
		w := Workload{Prefix: rapid.SampledFrom([]string{"", "pfx"}).Draw(rt, "prefix"), Kind: rapid.SampledFrom([]string{"typed", "map", "binary"}).Draw(rt, "kind"), Indexes: []string{"ia", "in", "ie"}}
		for _, id := range ids {
			if rapid.IntRange(0, 3).Draw(rt, "seeded") > 0 {
				w.Seeds = append(w.Seeds, Op{ID: id, A: rapid.SampledFrom(as).Draw(rt, "sa"), N: rapid.IntRange(0, 9).Draw(rt, "sn")})
			}
		}
		if len(w.Seeds) == 0 {
			w.Seeds = append(w.Seeds, Op{ID: "1", A: "a", N: 1})
		}
		var pre []Op
		for i := rapid.IntRange(0, 2).Draw(rt, "npre"); i > 0; i-- {
			pre = append(pre, Op{K: "create", ID: rapid.SampledFrom(ids).Draw(rt, "pid"), A: rapid.SampledFrom(as).Draw(rt, "pa"), N: rapid.IntRange(0, 9).Draw(rt, "pn")})
		}
		race := Op{K: rapid.SampledFrom([]string{"create", "create", "update", "delete"}).Draw(rt, "rk"), ID: rapid.SampledFrom(ids).Draw(rt, "rid"), A: rapid.SampledFrom(as).Draw(rt, "ra"), N: 10 + rapid.IntRange(0, 9).Draw(rt, "rn")}
		dir := bdb.TempDir("c12race")
		defer os.RemoveAll(dir)
		e, err := openEnv(dir, w)
		if err != nil {
			rt.Fatalf("VERIF-INCONCLUSIVE: %v", err)
		}
		s0 := state{vals: map[string]string{}}
		for _, op := range pre {
			err := e.apply(w, op)
			n, ok := step(w, s0, op)
			if ok != (err == nil) {
				_ = e.db.Close()
				rt.Fatalf("%+v before Init: err=%v, model ok=%v", op, err, ok)
			}
			s0 = n
		}
		var raceErr error
		fired := false
		badgerstore.VerifHook = func(point string, arg interface{}) {
			if point != "init.seeded" || fired {
				return
			}
			fired = true
			done := make(chan error)
			go func() { done <- e.apply(w, race) }()
			raceErr = <-done
		}
		initErr := e.apply(w, Op{K: "init"})
		badgerstore.VerifHook = nil
		if !fired {
			_ = e.db.Close()
			rt.Fatalf("VERIF-INCONCLUSIVE: the init.seeded point was not reached")
		}
		// admissible outcomes
		var adm []state
		if initErr == nil {
			a, _ := step(w, s0, Op{K: "init"})
			if a2, ok := step(w, a, race); ok == (raceErr == nil) {
				adm = append(adm, a2)
			}
			if b, ok := step(w, s0, race); ok == (raceErr == nil) {
				b2, _ := step(w, b, Op{K: "init"})
				adm = append(adm, b2)
			}
		} else if c, ok := step(w, s0, race); ok == (raceErr == nil) {
			adm = append(adm, c)
		}
		adm = dedupe(adm)
		check := func(when string, want []state) state {
			obs, err := observe(e, w, ids)
			if err != nil {
				rt.Fatalf("%s: %v", when, err)
			}
			for _, s := range want {
				if s.key() == obs.key() {
					return obs
				}
			}
			_ = e.db.Close()
			rt.Fatalf("%s: store %s is none of the serial outcomes %v (before: %s; seeds %+v; write %+v returned %v while Init was seeding; Init returned %v)", when, obs.key(), keys(want), s0.key(), w.Seeds, race, raceErr, initErr)
			return obs
		}
		check("after Init and the concurrent write", adm)
		e.qs.Flush()
		_ = e.db.Close()
		if e, err = openEnv(dir, w); err != nil {
			rt.Fatalf("database cannot be reopened: %v", err)
		}
		defer func() { _ = e.db.Close() }()
		if err := e.apply(w, Op{K: "init"}); err != nil {
			rt.Fatalf("Init after reopening failed: %v", err)
		}
		var adm2 []state
		for _, s := range adm {
			n, _ := step(w, s, Op{K: "init"})
			adm2 = append(adm2, n)
		}
		obs := check("after reopening and calling Init again", dedupe(adm2))
		if err := e.qs.RebuildIndexes(); err != nil {
			rt.Fatalf("RebuildIndexes failed: %v", err)
		}
		if m := checkIndexes(e, w, obs); m != "" {
			rt.Fatalf("after Init raced by %+v (returned %v; Init returned %v), a reopen and RebuildIndexes: %s", race, raceErr, initErr, m)
		}
		_, raceOK := step(w, s0, race)
		ev.Case(raceOK || raceErr == nil, evid.Hash("race", w.String(), fmt.Sprint(pre), race), "init-race:"+race.K, fmt.Sprintf("init-err=%v", initErr != nil))
	})
}

// TestRebuildRace: a write from another goroutine (and its index update) lands while
// RebuildIndexes is scanning the stored values (the index Key function is the hook). The
// rebuild either fails - then it is called again - or succeeds; once it has succeeded every
// index query agrees with the stored values.
func TestRebuildRace(t *testing.T) {
	rapid.Check(t, func(rt *rapid.T) {
		ids := []string{"1", "2", "px", "f1"}
		as := []string{"a", "b", "ab", ""}
		w := Workload{Prefix: rapid.SampledFrom([]string{"", "pfx"}).Draw(rt, "prefix"), Kind: rapid.SampledFrom([]string{"typed", "map"}).Draw(rt, "kind"), Indexes: []string{"ia", "in", "ie"}}
		dir := bdb.TempDir("c12rebuild")
		defer os.RemoveAll(dir)
		e, err := openEnv(dir, w)
		if err != nil {
			rt.Fatalf("VERIF-INCONCLUSIVE: %v", err)
		}
		defer func() { _ = e.db.Close() }()
		for _, id := range ids {
			if rapid.IntRange(0, 4).Draw(rt, "present") > 0 {
				if err := e.apply(w, Op{K: "create", ID: id, A: rapid.SampledFrom(as).Draw(rt, "a"), N: rapid.IntRange(0, 9).Draw(rt, "n")}); err != nil {
					rt.Fatalf("create %s: %v", id, err)
				}
			}
		}
		e.qs.Flush()
		nrace := rapid.IntRange(1, 3).Draw(rt, "nrace")
		var race []Op
		for i := 0; i < nrace; i++ {
			race = append(race, Op{K: rapid.SampledFrom([]string{"delete", "update", "update", "create"}).Draw(rt, "rk"), ID: rapid.SampledFrom(ids).Draw(rt, "rid"), A: rapid.SampledFrom(as).Draw(rt, "ra"), N: rapid.IntRange(0, 9).Draw(rt, "rn")})
		}
		skip := rapid.IntRange(0, 5).Draw(rt, "afterKeyCalls")
		fired := false
		var arm func(n int)
		arm = func(n int) {
			h := func() {
				if n > 0 {
					arm(n - 1)
					return
				}
				fired = true
				done := make(chan struct{})
				go func() {
					defer close(done)
					for _, op := range race {
						_ = e.apply(w, op)
					}
					e.qs.Flush()
				}()
				<-done
			}
			e.keyHook.Store(&h)
		}
		arm(skip)
		var rerr error
		tries := 0
		for tries = 1; tries <= 4; tries++ {
			if rerr = e.qs.RebuildIndexes(); rerr == nil {
				break
			}
		}
		e.keyHook.Store(nil)
		if rerr != nil {
			rt.Fatalf("RebuildIndexes still fails at the fourth call, with nothing else going on: %v", rerr)
		}
		if !fired {
			for _, op := range race {
				_ = e.apply(w, op)
			}
		}
		e.qs.Flush()
		obs, err := observe(e, w, ids)
		if err != nil {
			rt.Fatalf("%v", err)
		}
		if m := checkIndexes(e, w, obs); m != "" {
			rt.Fatalf("writes %+v landed while RebuildIndexes was scanning (after %d key computations; RebuildIndexes returned nil at call %d): %s", race, skip, tries, m)
		}
		ev.Case(fired, evid.Hash("rebuildrace", w.String(), fmt.Sprint(race), skip), "rebuild-race", fmt.Sprintf("rebuild-calls-%d", tries))
	})
}

// ---- regression tier ------------------------------------------------------------------

func TestRegressRebuildAfterInitEmptyPrefix(t *testing.T) {
	w := Workload{Prefix: "", Kind: "typed", Indexes: []string{"ia"}, Seeds: []Op{{ID: "1", A: "a", N: 1}}, Gens: [][]Op{{{K: "init"}, {K: "create", ID: "2", A: "b", N: 2}}}}
	msg, _, _ := runScenario(w, nil)
	evid.ReportKnown(t, prop, "C12-rebuild-scans-init-marker", msg != "", msg, replayCase{W: w})
	ev.Case(true, evid.Hash("regress-rebuild"), "regress")
	ev.Case(true, evid.Hash("regress-rebuild-2"), "regress")
}

// TestRebuildWriters: writers that keep updating records of their own (a counter in the
// value) while RebuildIndexes is called again and again. badger refuses writes while index
// entries are being dropped: an update may fail then, but an update whose call returned
// success is in the store - each writer's last acknowledged value is what its record holds
// when everything has stopped - and after a final, undisturbed RebuildIndexes the indexes
// agree with the values.
func TestRebuildWriters(t *testing.T) {
	rapid.Check(t, func(rt *rapid.T) {
		w := Workload{Prefix: rapid.SampledFrom([]string{"", "pfx"}).Draw(rt, "prefix"), Kind: rapid.SampledFrom([]string{"typed", "map"}).Draw(rt, "kind"), Indexes: []string{"ia", "in"}}
		nw := rapid.IntRange(2, 6).Draw(rt, "writers")
		rebuilds := rapid.IntRange(5, 25).Draw(rt, "rebuilds")
		dir := bdb.TempDir("c12writers")
		defer os.RemoveAll(dir)
		e, err := openEnv(dir, w)
		if err != nil {
			rt.Fatalf("VERIF-INCONCLUSIVE: %v", err)
		}
		defer func() { _ = e.db.Close() }()
		ids := make([]string, nw)
		for i := range ids {
			ids[i] = "w" + strconv.Itoa(i)
			if err := e.apply(w, Op{K: "create", ID: ids[i], A: "a", N: 0}); err != nil {
				rt.Fatalf("create %s: %v", ids[i], err)
			}
		}
		e.qs.Flush()
		stop := make(chan struct{})
		acked := make([]int, nw)  // last counter value whose update returned success
		failed := make([]int, nw) // updates that were refused
		var lostMu sync.Mutex
		lost := ""
		var wg sync.WaitGroup
		for i := 0; i < nw; i++ {
			wg.Add(1)
			go func(i int) {
				defer wg.Done()
				for n := 1; ; n++ {
					select {
					case <-stop:
						return
					default:
					}
					if err := e.apply(w, Op{K: "update", ID: ids[i], A: []string{"a", "b", "ab"}[n%3], N: n}); err == nil {
						acked[i] = n
						// nobody else writes this record: what was acknowledged is what a read finds
						tx := e.st.Read(ids[i])
						v, rerr := tx.Value()
						_ = tx.Close()
						if _, got := fields(v); rerr != nil || got != n {
							lostMu.Lock()
							if lost == "" {
								lost = fmt.Sprintf("writer %d: its update to counter %d returned success, a read right after it finds %d (%v)", i, n, got, rerr)
							}
							lostMu.Unlock()
							return
						}
					} else {
						failed[i]++
					}
				}
			}(i)
		}
		for k := 0; k < rebuilds; k++ {
			_ = e.qs.RebuildIndexes() // may fail on a conflict with a writer: that is allowed
		}
		close(stop)
		wg.Wait()
		e.qs.Flush()
		if lost != "" {
			rt.Fatalf("%s (%d RebuildIndexes calls ran meanwhile)", lost, rebuilds)
		}
		refused := 0
		for i := range ids {
			refused += failed[i]
			tx := e.st.Read(ids[i])
			v, err := tx.Value()
			_ = tx.Close()
			if err != nil {
				rt.Fatalf("record %s after the run: %v", ids[i], err)
			}
			if _, n := fields(v); n != acked[i] {
				rt.Fatalf("writer %d: its last update that returned success wrote counter %d, the store holds %d (%d of its updates were refused; %d RebuildIndexes calls ran meanwhile)", i, acked[i], n, failed[i], rebuilds)
			}
		}
		var rerr error
		for tries := 0; tries < 4; tries++ {
			if rerr = e.qs.RebuildIndexes(); rerr == nil {
				break
			}
		}
		if rerr != nil {
			rt.Fatalf("RebuildIndexes still fails at the fourth call, with nothing else going on: %v", rerr)
		}
		e.qs.Flush()
		obs, err := observe(e, w, ids)
		if err != nil {
			rt.Fatalf("%v", err)
		}
		if m := checkIndexes(e, w, obs); m != "" {
			rt.Fatalf("after %d writers and %d RebuildIndexes calls, and a final undisturbed RebuildIndexes: %s", nw, rebuilds, m)
		}
		ev.Case(refused > 0, evid.Hash("rebuildwriters", w.String(), nw, rebuilds, refused > 0), "rebuild-writers")
		ev.Add("updates-refused-during-rebuild", int64(refused))
	})
}
