package c10

import (
	"errors"
	"encoding/json"
	"fmt"
	"os"
	"sort"
	"strconv"
	"strings"
	"testing"

	res "github.com/jirenius/go-res"
	"github.com/jirenius/go-res/store"
	"github.com/jirenius/go-res/store/badgerstore"
	"github.com/jirenius/go-res/store/mockstore"
	"pgregory.net/rapid"

	"verifharness/internal/bdb"
	"verifharness/internal/evid"
	"verifharness/internal/fakeconn"
	"verifharness/internal/gen"
	"verifharness/internal/svc"
)

const prop = "C10"

func TestMain(m *testing.M) { os.Exit(evid.Main(m)) }

var ev = evid.For(prop)

func init() {
	ev.SetRule("cases = (handler configuration: model or collection; transformer none / IDTransformer / custom TransformFuncs that project and rename fields and map ids; default none / empty / non-trivial; store mockstore or badgerstore) x (history of 1-12 Create/Update/Delete mutations over 1-3 ids with values made of primitives, references, soft references and data values, including updates that keep the served representation and delete-then-recreate); a reference RES client fetches every resource first, applies the published events in order after each mutation (indexes must be in range when applied, create only when missing, delete only when present) and must equal a fresh get; plus bounded-exhaustive: every ordered pair of collections of length <=4 over {a,b,c} and every pair of models over 3 keys x {absent,1,2}; a history is non-trivial when it has a collection update whose LCS is neither empty nor everything, or a model change with >=1 removed and >=1 changed key, or a create/delete with a default configured; distinct = hash of the case Mutations may share a write transaction with the previous one (non-trivial). Concurrent-get cases: a goroutine sends up to 400 gets while the mutations run; every response value plus the events published after it must give the final representation (non-trivial when some get has events both before and after it).")
	ev.Assume("values are compared as JSON values; a mutation whose before and after Go values are deeply equal must publish nothing")
}

// Cfg is a handler configuration.
type Cfg struct {
	Type    string `json:"type"`    // model collection
	Trans   string `json:"trans"`   // none id custom
	Default string `json:"default"` // "" = none, else JSON text
	Store   string `json:"store"`   // mock badger
	// Shared: (IDTransformer only) the same Transformer value also serves a second handler on
	// another pattern with its own store, which publishes first.
	Shared bool `json:"shared,omitempty"`
	// Builder: the handler value is put together with WithStore/WithTransformer/WithDefault.
	Builder bool `json:"builder,omitempty"`
	// TypedVals: the custom transformer returns map[string]store.Value / []store.Value.
	TypedVals bool `json:"typedVals,omitempty"`
	// Nest: the handler is registered two mount levels deep (resources svc.n.r.<id>).
	Nest bool `json:"nest,omitempty"`
	// WrapNotFound: the store reports missing values with an error that wraps store.ErrNotFound.
	WrapNotFound bool `json:"wrapNotFound,omitempty"`
	// Prefix: key prefix of the badgerstore.
	Prefix string `json:"prefix,omitempty"`
	// PlainStrings: (mock store) the stored values are plain Go []string / map[string]string
	// values, with strings that hold control characters and other unusual runes.
	PlainStrings bool `json:"plainStrings,omitempty"`
	// Typed: (badgerstore, models) the store has a struct type whose fields are all optional
	// (omitempty): a record holds only the members that are set.
	Typed bool `json:"typed,omitempty"`
}

// typedRec is the value type of the Typed configurations.
type typedRec struct {
	A      interface{} `json:"a,omitempty"`
	B      interface{} `json:"b,omitempty"`
	C      interface{} `json:"c,omitempty"`
	Hidden interface{} `json:"hidden,omitempty"`
	Name   interface{} `json:"name,omitempty"`
	Gone   interface{} `json:"gone,omitempty"`
}

// Mut is one mutation.
type Mut struct {
	K  string `json:"k"` // create update delete
	ID string `json:"id"`
	V  string `json:"v,omitempty"` // JSON text of the stored value
	// SameTxn runs the operation in the write transaction of the previous mutation
	// (only honoured when that one is on the same id).
	SameTxn bool `json:"sameTxn,omitempty"`
}

// Case is a case.
type Case struct {
	Cfg  Cfg   `json:"cfg"`
	Muts []Mut `json:"muts"`
}

func (c Case) String() string { b, _ := json.Marshal(c); return string(b) }

// storedValue materialises the JSON text as the Go value kept in the store.
func storedValue(cfg Cfg, text string) interface{} {
	if cfg.PlainStrings {
		if cfg.Type == "collection" {
			l := []string{}
			_ = json.Unmarshal([]byte(text), &l)
			return l
		}
		m := map[string]string{}
		_ = json.Unmarshal([]byte(text), &m)
		return m
	}
	if cfg.Typed {
		var r typedRec
		_ = json.Unmarshal([]byte(text), &r)
		return r
	}
	if cfg.Store == "badger" {
		var m map[string]interface{}
		if cfg.Type == "collection" {
			var l []interface{}
			_ = json.Unmarshal([]byte(text), &l)
			return map[string]interface{}{"list": l}
		}
		_ = json.Unmarshal([]byte(text), &m)
		return m
	}
	return json.RawMessage(text)
}

// transform is the custom projection: models drop key "hidden" and rename "a" to "A"; collections drop null elements.
func customTransform(cfg Cfg) func(id string, v interface{}) (interface{}, error) {
	return func(id string, v interface{}) (interface{}, error) {
		b, _ := json.Marshal(v)
		if cfg.Store == "badger" && cfg.Type == "collection" {
			var w struct{ List json.RawMessage }
			_ = json.Unmarshal(b, &w)
			b = w.List
		}
		if cfg.Type == "model" {
			var m map[string]json.RawMessage
			if err := json.Unmarshal(b, &m); err != nil {
				return nil, err
			}
			if _, gone := m["gone"]; gone {
				// a record the transformer hides (e.g. soft-deleted): the resource does not exist
				return nil, store.ErrNotFound
			}
			out := map[string]json.RawMessage{}
			for k, x := range m {
				switch k {
				case "hidden":
				case "a":
					out["A"] = x
				default:
					out[k] = x
				}
			}
			if cfg.TypedVals {
				// hand the handler its own value type (the diff then skips the JSON round trip)
				tv := map[string]store.Value{}
				for k, x := range out {
					var v store.Value
					if err := json.Unmarshal(x, &v); err != nil {
						return out, nil
					}
					tv[k] = v
				}
				return tv, nil
			}
			return out, nil
		}
		var l []json.RawMessage
		if err := json.Unmarshal(b, &l); err != nil {
			return nil, err
		}
		out := []json.RawMessage{}
		for _, x := range l {
			if string(x) == `"gone"` {
				return nil, store.ErrNotFound
			}
			if string(x) != "null" {
				out = append(out, x)
			}
		}
		if cfg.TypedVals {
			tv := []store.Value{}
			for _, x := range out {
				var v store.Value
				if err := json.Unmarshal(x, &v); err != nil {
					return out, nil
				}
				tv = append(tv, v)
			}
			return tv, nil
		}
		return out, nil
	}
}

// served computes the served representation (canonical JSON) of a stored text, "" if missing and no default.
func served(cfg Cfg, text string, exists bool) string {
	if !exists {
		if cfg.Default != "" {
			return canon([]byte(cfg.Default))
		}
		return ""
	}
	if cfg.Typed {
		// members that are null are not part of the record
		var r typedRec
		_ = json.Unmarshal([]byte(text), &r)
		b, _ := json.Marshal(r)
		text = string(b)
	}
	if cfg.Store == "badger" {
		// the untyped badgerstore keeps values as map[string]interface{}: numbers pass through float64
		var v interface{}
		_ = json.Unmarshal([]byte(text), &v)
		b, _ := json.Marshal(v)
		text = string(b)
	}
	if cfg.Trans == "custom" {
		v, err := customTransform(Cfg{Type: cfg.Type, Store: "mock"})("", json.RawMessage(text))
		if err != nil {
			return "" // hidden by the transformer: served as missing, the default does not apply
		}
		b, _ := json.Marshal(v)
		return canon(b)
	}
	return canon([]byte(text))
}

// canon canonicalises a served resource; a data value holding a primitive
// ({"data":5}) is the same RES value as the bare primitive.
func canon(b []byte) string {
	v := gen.Decode(b)
	norm := func(x interface{}) interface{} {
		if m, ok := x.(map[string]interface{}); ok && len(m) == 1 {
			if d, ok := m["data"]; ok {
				switch d.(type) {
				case map[string]interface{}, []interface{}:
				default:
					return d
				}
			}
		}
		return x
	}
	switch t := v.(type) {
	case map[string]interface{}:
		if _, isVal := t["rid"]; !isVal {
			if _, isVal = t["action"]; !isVal {
				if _, isData := t["data"]; !(isData && len(t) == 1) {
					for k, x := range t {
						t[k] = norm(x)
					}
				} else {
					v = norm(t)
				}
			}
		}
	case []interface{}:
		for i, x := range t {
			t[i] = norm(x)
		}
	}
	o, _ := json.Marshal(v)
	return string(o)
}

type fixture struct {
	cfg     Cfg
	st      store.Store
	s       *res.Service
	conn    *fakeconn.Conn
	rn      *svc.Runner
	cleanup func()
}

// ridBase is the resource name prefix of the served resources: svc.r. or, when the handler
// sits two mount levels deep, svc.n.r.
func ridBase(cfg Cfg) string {
	if cfg.Nest {
		return "svc.n.r."
	}
	return "svc.r."
}

func (f *fixture) ridOf(id string) string {
	switch f.cfg.Trans {
	case "none":
		return id // the store id is the resource name
	case "id":
		return ridBase(f.cfg) + id
	default:
		return ridBase(f.cfg) + "x" + id + ".y"
	}
}

func storeID(cfg Cfg, id string) string {
	if cfg.Trans == "none" {
		return ridBase(cfg) + id
	}
	return id
}

// wrapStore reports a missing value with an error that wraps store.ErrNotFound, which the
// store contract allows (callers use errors.Is).
type wrapStore struct{ store.Store }

type wrapRead struct{ store.ReadTxn }

func (w wrapStore) Read(id string) store.ReadTxn { return wrapRead{w.Store.Read(id)} }

func (r wrapRead) Value() (interface{}, error) {
	v, err := r.ReadTxn.Value()
	if err != nil && errors.Is(err, store.ErrNotFound) {
		return nil, fmt.Errorf("record %q: %w", r.ID(), store.ErrNotFound)
	}
	return v, err
}

func newFixture(cfg Cfg) (*fixture, error) {
	f := &fixture{cfg: cfg, cleanup: func() {}}
	if cfg.Store == "badger" {
		db, _, cleanup, err := bdb.OpenTemp("c10")
		if err != nil {
			return nil, err
		}
		f.cleanup = cleanup
		bst := badgerstore.NewStore(db).SetPrefix(cfg.Prefix)
		if cfg.Typed {
			bst.SetType(typedRec{})
		}
		f.st = bst
	} else {
		ms := mockstore.NewStore()
		// ids for records created through Write("") are generated: gen1, gen2, ...
		ngen := 0
		ms.NewID = func() string { ngen++; return storeID(cfg, "gen"+strconv.Itoa(ngen)) }
		f.st = ms
	}
	h := store.Handler{Store: f.st}
	if cfg.WrapNotFound {
		h.Store = wrapStore{f.st}
	}
	pattern := "r.$id"
	tr := func(id string, v interface{}) (interface{}, error) { return v, nil }
	if cfg.Store == "badger" && cfg.Type == "collection" {
		tr = func(id string, v interface{}) (interface{}, error) { return v.(map[string]interface{})["list"], nil }
	}
	switch cfg.Trans {
	case "id":
		h.Transformer = store.IDTransformer("id", tr)
	case "custom":
		pattern = "r.$xid.y"
		h.Transformer = store.TransformFuncs(
			func(rid string, pp map[string]string) string { return strings.TrimPrefix(pp["xid"], "x") },
			func(id string, v interface{}, p res.Pattern) string {
				// (a transformer that derives the resource id from the value has nothing to go
				// on without one: the handler always has the served value at hand)
				if v == nil {
					return ""
				}
				return string(p.ReplaceTag("xid", "x"+id))
			},
			customTransform(cfg),
		)
	case "none":
		if cfg.Store == "badger" && cfg.Type == "collection" {
			return nil, fmt.Errorf("unsupported combination")
		}
	}
	if cfg.Default != "" {
		h.Default = json.RawMessage(cfg.Default)
	}
	if cfg.Builder {
		// the same handler put together with the With... methods
		h = store.Handler{}.WithStore(h.Store).WithTransformer(h.Transformer).WithDefault(h.Default)
	}
	s := res.NewService("svc")
	s.SetWorkerCount(1)
	typ := res.Model
	if cfg.Type == "collection" {
		typ = res.Collection
	}
	if cfg.Nest {
		// two mount levels assembled bottom-up: the inner mux is mounted into the middle one
		// before that one is mounted to the service
		inner := res.NewMux("")
		inner.Handle(strings.TrimPrefix(pattern, "r."), typ, h)
		mid := res.NewMux("")
		mid.Mount("r", inner)
		s.Mount("n", mid)
	} else {
		s.Handle(pattern, typ, h)
	}
	var st2 *mockstore.Store
	if cfg.Shared && cfg.Trans == "id" {
		st2 = mockstore.NewStore()
		s.Handle("o.$id", typ, store.Handler{Store: st2, Transformer: h.Transformer})
	}
	f.s = s
	f.conn = fakeconn.New()
	rn, err := svc.Start(s, f.conn, nil)
	if err != nil {
		f.cleanup()
		return nil, err
	}
	f.rn = rn
	if st2 != nil {
		// the other handler publishes first
		tx := st2.Write("1")
		v := `{"a":1}`
		if cfg.Type == "collection" {
			v = `[1]`
		}
		_ = tx.Create(storedValue(cfg, v))
		_ = tx.Close()
	}
	oc := f.cleanup
	f.cleanup = func() { _ = rn.Stop(); oc() }
	return f, nil
}

func (f *fixture) get(rid string) (string, error) {
	reply, n := f.rn.Send("get."+rid, nil)
	if n != 1 {
		return "", fmt.Errorf("get %s not delivered", rid)
	}
	if err := f.rn.WaitDone(reply, 1); err != nil {
		return "", err
	}
	_, resp := f.rn.Replies(reply)
	if len(resp) != 1 {
		return "", behaviour(fmt.Sprintf("get %s: %d responses", rid, len(resp)))
	}
	var p struct {
		Result *struct{ Model, Collection json.RawMessage }
		Error  *res.Error
	}
	_ = json.Unmarshal(resp[0], &p)
	switch {
	case p.Error != nil && p.Error.Code == res.CodeNotFound:
		return "", nil
	case p.Error != nil:
		return "", behaviour(fmt.Sprintf("a get of %s is answered with %s: neither the resource nor system.notFound", rid, resp[0]))
	case p.Result != nil && p.Result.Model != nil:
		return canon(p.Result.Model), nil
	case p.Result != nil && p.Result.Collection != nil:
		return canon(p.Result.Collection), nil
	}
	return "", behaviour(fmt.Sprintf("a get of %s is answered with %s", rid, resp[0]))
}

// behaviour is an error that describes what the service did (as opposed to the harness
// failing to bring a situation about): a verdict, not an inconclusive run.
type behaviour string

func (b behaviour) Error() string { return string(b) }

// verdict turns an error of the fixture into the message of the case.
func verdict(err error) string {
	if _, ok := err.(behaviour); ok || strings.HasPrefix(err.Error(), "VERIF-INCONCLUSIVE") {
		return err.Error()
	}
	return "VERIF-INCONCLUSIVE: " + err.Error()
}

// client state: "" = missing, else canonical JSON
type client map[string]string

// apply applies one event to the client; returns a violation or "".
func (cl client) apply(rid, name string, data []byte, refetch func() (string, error)) string {
	cur := cl[rid]
	switch name {
	case "change":
		if cur == "" || cur[0] != '{' {
			return fmt.Sprintf("change event on %s while the client holds %q (not a model)", rid, cur)
		}
		var p struct{ Values map[string]json.RawMessage }
		_ = json.Unmarshal(data, &p)
		var m map[string]json.RawMessage
		_ = json.Unmarshal([]byte(cur), &m)
		if len(p.Values) == 0 {
			return fmt.Sprintf("change event on %s without values: %s", rid, data)
		}
		for k, v := range p.Values {
			if canon(v) == `{"action":"delete"}` {
				if _, ok := m[k]; !ok {
					return fmt.Sprintf("change event on %s deletes key %q which the client does not have (model %s)", rid, k, cur)
				}
				delete(m, k)
			} else {
				if old, ok := m[k]; ok && canon(old) == canon(v) {
					return fmt.Sprintf("change event on %s sets key %q to the value it already has (%s)", rid, k, v)
				}
				m[k] = v
			}
		}
		b, _ := json.Marshal(m)
		cl[rid] = canon(b)
	case "add", "remove":
		if cur == "" || cur[0] != '[' {
			return fmt.Sprintf("%s event on %s while the client holds %q (not a collection)", name, rid, cur)
		}
		var l []json.RawMessage
		_ = json.Unmarshal([]byte(cur), &l)
		var p struct {
			Value json.RawMessage
			Idx   int
		}
		_ = json.Unmarshal(data, &p)
		if name == "add" {
			if p.Idx < 0 || p.Idx > len(l) {
				return fmt.Sprintf("add event on %s with idx %d out of range for a collection of %d (%s)", rid, p.Idx, len(l), cur)
			}
			l = append(l[:p.Idx:p.Idx], append([]json.RawMessage{p.Value}, l[p.Idx:]...)...)
		} else {
			if p.Idx < 0 || p.Idx >= len(l) {
				return fmt.Sprintf("remove event on %s with idx %d out of range for a collection of %d (%s)", rid, p.Idx, len(l), cur)
			}
			l = append(l[:p.Idx:p.Idx], l[p.Idx+1:]...)
		}
		if l == nil {
			l = []json.RawMessage{}
		}
		b, _ := json.Marshal(l)
		cl[rid] = canon(b)
	case "create":
		if cur != "" {
			return fmt.Sprintf("create event on %s while the client already holds %s", rid, cur)
		}
		v, err := refetch()
		if err != nil {
			return verdict(err)
		}
		cl[rid] = v
	case "delete":
		if cur == "" {
			return fmt.Sprintf("delete event on %s which the client knows as missing", rid)
		}
		cl[rid] = ""
	default:
		return fmt.Sprintf("unexpected event %s on %s", name, rid)
	}
	return ""
}

// nopTxn stands in where no write transaction is open.
type nopTxn struct{ store.WriteTxn }

func (nopTxn) Close() error { return nil }

// initSeed runs Store.Init with one seed (badgerstore only).
func (f *fixture) initSeed(m Mut) error {
	bst, ok := f.st.(*badgerstore.Store)
	if !ok {
		return errors.New("Init on a store that has none")
	}
	return bst.Init(func(add func(id string, v interface{})) error {
		add(storeID(f.cfg, m.ID), storedValue(f.cfg, m.V))
		return nil
	})
}

func (f *fixture) mutate(tx store.WriteTxn, m Mut) error {
	switch m.K {
	case "create", "createnew":
		return tx.Create(storedValue(f.cfg, m.V))
	case "update":
		return tx.Update(storedValue(f.cfg, m.V))
	default:
		return tx.Delete()
	}
}

// run executes a case.
func run(c Case) (msg string, nontrivial bool) {
	f, err := newFixture(c.Cfg)
	if err != nil {
		return verdict(err), false
	}
	defer f.cleanup()
	ids := map[string]bool{}
	for _, m := range c.Muts {
		ids[m.ID] = true
	}
	cl := client{}
	ridFor := func(id string) string {
		switch c.Cfg.Trans {
		case "custom":
			return ridBase(c.Cfg) + "x" + id + ".y"
		default:
			return ridBase(c.Cfg) + id
		}
	}
	for id := range ids {
		v, err := f.get(ridFor(id))
		if err != nil {
			return verdict(err), false
		}
		cl[ridFor(id)] = v
	}
	model := map[string]string{} // id -> stored text
	inited := false                // Store.Init has run (badgerstore)
	for i := 0; i < len(c.Muts); {
		// the group of mutations that share one write transaction
		j := i + 1
		isInit := c.Muts[i].K == "init" // Store.Init seeding this id: never shares a transaction
		for !isInit && j < len(c.Muts) && c.Muts[j].SameTxn && c.Muts[j].ID == c.Muts[i].ID && c.Muts[j].K != "init" {
			j++
		}
		id := c.Muts[i].ID
		rid := ridFor(id)
		startText, startExisted := model[id]
		var evs []fakeconn.Entry
		var evAfter []string // per event: the served representation right after its step
		var tx store.WriteTxn = nopTxn{}
		if !isInit {
			wid := storeID(f.cfg, id)
			if c.Muts[i].K == "createnew" {
				wid = "" // the store generates the id (which the generator has predicted)
			}
			tx = f.st.Write(wid)
		}
		for k := i; k < j; k++ {
			m := c.Muts[k]
			prevText, existed := model[m.ID]
			mark := f.conn.LogLen()
			var err error
			if m.K == "createnew" {
				m.K = "create" // (the transaction was opened without id; the store generates m.ID)
			}
			okWanted := (m.K == "create") != existed
			if isInit {
				err = f.initSeed(m)
				okWanted = true
				if inited || existed {
					// Init seeds once over the store's lifetime and never overwrites
					inited = true
					if err != nil {
						return fmt.Sprintf("mutation %d %+v: Init failed: %v", k, m, err), nontrivial
					}
					if n := f.conn.LogLen() - mark; n != 0 {
						return fmt.Sprintf("mutation %d %+v: an Init that seeds nothing published %d messages", k, m, n), nontrivial
					}
					continue
				}
				inited = true
			} else {
				err = f.mutate(tx, m)
			}
			if (err == nil) != okWanted {
				_ = tx.Close()
				return fmt.Sprintf("mutation %d %+v: error %v with exists=%v (store contract)", k, m, err, existed), nontrivial
			}
			if err != nil {
				continue
			}
			if m.K == "delete" {
				delete(model, m.ID)
			} else {
				model[m.ID] = m.V
			}
			newText, exists := model[m.ID]
			sBefore, sAfter := served(c.Cfg, prevText, existed), served(c.Cfg, newText, exists)
			var stepEvs []fakeconn.Entry
			for _, e := range f.conn.LogFrom(mark) {
				if e.Kind != "pub" {
					continue
				}
				if strings.HasPrefix(e.Subject, "event."+rid+".") {
					stepEvs = append(stepEvs, e)
				} else if strings.HasPrefix(e.Subject, "event.") {
					_ = tx.Close()
					return fmt.Sprintf("mutation %d %+v published %s; events must go to the resource id chosen by the transformer (%s)", k, m, e.Subject, rid), nontrivial
				}
			}
			if sBefore == sAfter && len(stepEvs) > 0 {
				_ = tx.Close()
				return fmt.Sprintf("mutation %d %+v does not alter the served representation (%s) but published %d events, first %s %s", k, m, sBefore, len(stepEvs), stepEvs[0].Subject, stepEvs[0].Data), nontrivial
			}
			if (m.K == "create" || m.K == "delete") && c.Cfg.Default != "" {
				nontrivial = true
			}
			nontrivial = nontrivial || interesting(sBefore, sAfter)
			evs = append(evs, stepEvs...)
			for range stepEvs {
				evAfter = append(evAfter, sAfter)
			}
		}
		if err := tx.Close(); err != nil {
			return fmt.Sprintf("Close of the write transaction on %q: %v", id, err), nontrivial
		}
		if j-i > 1 {
			nontrivial = true
		}
		endText, endExists := model[id]
		sBefore, sAfter := served(c.Cfg, startText, startExisted), served(c.Cfg, endText, endExists)
		what := fmt.Sprintf("mutations %d..%d %+v", i, j-1, c.Muts[i:j])
		for x, e := range evs {
			name := e.Subject[strings.LastIndexByte(e.Subject, '.')+1:]
			refetch := func() (string, error) { return f.get(rid) }
			if j-i > 1 {
				// inside a longer transaction a get could not be answered at that moment: the
				// client is given what the service served right after that step
				after := evAfter[x]
				refetch = func() (string, error) { return after, nil }
			}
			if v := cl.apply(rid, name, e.Data, refetch); v != "" {
				return fmt.Sprintf("%s (served %s -> %s): %s; events: %s", what, sBefore, sAfter, v, describe(evs)), nontrivial
			}
		}
		fresh, err := f.get(rid)
		if err != nil {
			return verdict(err), nontrivial
		}
		if fresh != sAfter {
			return fmt.Sprintf("%s: fresh get returns %q, the served representation should be %q", what, fresh, sAfter), nontrivial
		}
		if cl[rid] != fresh {
			return fmt.Sprintf("%s (served %s -> %s): after applying the published events the client holds %q, a fresh get returns %q; events: %s", what, sBefore, sAfter, cl[rid], fresh, describe(evs)), nontrivial
		}
		i = j
	}
	return "", nontrivial
}

func describe(evs []fakeconn.Entry) string {
	var s []string
	for _, e := range evs {
		s = append(s, e.Subject[strings.LastIndexByte(e.Subject, '.')+1:]+" "+string(e.Data))
	}
	return strings.Join(s, "; ")
}

// interesting: partial LCS for collections, removed+changed keys for models.
func interesting(before, after string) bool {
	if before == "" || after == "" {
		return false
	}
	if before[0] == '[' {
		var a, b []json.RawMessage
		_ = json.Unmarshal([]byte(before), &a)
		_ = json.Unmarshal([]byte(after), &b)
		l := lcs(a, b)
		return l > 0 && (l < len(a) || l < len(b)) && !(l == len(a) && l == len(b))
	}
	var a, b map[string]json.RawMessage
	_ = json.Unmarshal([]byte(before), &a)
	_ = json.Unmarshal([]byte(after), &b)
	removed, changed := 0, 0
	for k, v := range a {
		if w, ok := b[k]; !ok {
			removed++
		} else if canon(v) != canon(w) {
			changed++
		}
	}
	return removed > 0 && changed > 0
}

func lcs(a, b []json.RawMessage) int {
	t := make([][]int, len(a)+1)
	for i := range t {
		t[i] = make([]int, len(b)+1)
	}
	for i := range a {
		for j := range b {
			if canon(a[i]) == canon(b[j]) {
				t[i+1][j+1] = t[i][j] + 1
			} else if t[i][j+1] > t[i+1][j] {
				t[i+1][j+1] = t[i][j+1]
			} else {
				t[i+1][j+1] = t[i+1][j]
			}
		}
	}
	return t[len(a)][len(b)]
}

// ---- generators ------------------------------------------------------------------

func genElem() *rapid.Generator[string] {
	return rapid.OneOf(
		rapid.SampledFrom([]string{`1`, `2`, `"a"`, `"b"`, `null`, `true`, `{"rid":"svc.r.1"}`, `{"rid":"svc.r.2","soft":true}`, `{"data":{"x":[1,2]}}`, `{"data":[1]}`, `1.5`, `"é\"x"`, `"gone"`}),
		rapid.Map(gen.ResValue(false), func(v gen.Val) string { return string(v.Wire()) }),
	)
}

func genValue(typ string) *rapid.Generator[string] {
	return rapid.Custom(func(t *rapid.T) string {
		if typ == "collection" {
			if rapid.IntRange(0, 11).Draw(t, "big") == 0 {
				// a long collection: a fixed head and tail around 64-80 small numbers, so that two
				// such values differ in a large middle part behind a common prefix
				k := rapid.IntRange(64, 80).Draw(t, "biglen")
				parts := []string{`"head"`, `"h2"`}
				for i := 0; i < k; i++ {
					parts = append(parts, strconv.Itoa(rapid.IntRange(0, 9).Draw(t, "bigelem")))
				}
				parts = append(parts, `"tail"`)
				return "[" + strings.Join(parts, ",") + "]"
			}
			n := rapid.IntRange(0, 6).Draw(t, "len")
			parts := make([]string, n)
			for i := range parts {
				parts[i] = genElem().Draw(t, "elem")
			}
			return "[" + strings.Join(parts, ",") + "]"
		}
		keys := []string{"a", "b", "c", "hidden", "name", "gone"}
		var parts []string
		for _, k := range keys {
			if k == "gone" && rapid.IntRange(0, 4).Draw(t, "gone") != 0 {
				continue
			}
			if rapid.Bool().Draw(t, "has-"+k) {
				parts = append(parts, strconv.Quote(k)+":"+genElem().Draw(t, "val"))
			}
		}
		return "{" + strings.Join(parts, ",") + "}"
	})
}

// genPlain generates all-string values for the PlainStrings configurations.
func genPlain(typ string) *rapid.Generator[string] {
	str := rapid.Map(rapid.SampledFrom([]string{"a", "b", "", "x y", "\x1b[31mred\x1b[0m", "\x00", "bell\x07", "\x0bvt", "del\x7f", "tag\U000e0001", "é\"q", "line\nbreak", "\u2028"}), func(s string) string {
		b, _ := json.Marshal(s)
		return string(b)
	})
	return rapid.Custom(func(t *rapid.T) string {
		if typ == "collection" {
			n := rapid.IntRange(0, 6).Draw(t, "len")
			parts := make([]string, n)
			for i := range parts {
				parts[i] = str.Draw(t, "elem")
			}
			return "[" + strings.Join(parts, ",") + "]"
		}
		var parts []string
		for _, k := range []string{"a", "b", "c", "name"} {
			if rapid.Bool().Draw(t, "has-"+k) {
				parts = append(parts, strconv.Quote(k)+":"+str.Draw(t, "val"))
			}
		}
		return "{" + strings.Join(parts, ",") + "}"
	})
}

func genCfg(storeKind string) *rapid.Generator[Cfg] {
	return rapid.Custom(func(t *rapid.T) Cfg {
		c := Cfg{Store: storeKind}
		c.Type = rapid.SampledFrom([]string{"model", "collection"}).Draw(t, "type")
		c.Trans = rapid.SampledFrom([]string{"none", "id", "custom"}).Draw(t, "trans")
		c.Shared = c.Trans == "id" && rapid.IntRange(0, 2).Draw(t, "shared") == 0
		c.Builder = rapid.Bool().Draw(t, "builder")
		c.Nest = rapid.IntRange(0, 3).Draw(t, "nest") == 0
		if storeKind == "badger" {
			c.Prefix = rapid.SampledFrom([]string{"", "pfx"}).Draw(t, "prefix")
		}
		wrapnf := storeKind == "mock" && rapid.IntRange(0, 3).Draw(t, "wrapnf") == 0
		c.TypedVals = c.Trans == "custom" && rapid.IntRange(0, 2).Draw(t, "typedvals") == 0
		if storeKind == "badger" && c.Type == "collection" && c.Trans == "none" {
			c.Trans = "id"
		}
		switch rapid.IntRange(0, 2).Draw(t, "default") {
		case 1:
			if c.Type == "model" {
				c.Default = `{}`
			} else {
				c.Default = `[]`
			}
		case 2:
			if c.Type == "model" {
				c.Default = `{"b":1,"z":"dflt"}`
			} else {
				c.Default = `[1,"a"]`
			}
		}
		// (without a default, what a get of a missing record answers when the store wraps its
		// not-found error is not specified: only generated together with a default)
		c.WrapNotFound = wrapnf && c.Default != ""
		c.Typed = storeKind == "badger" && c.Type == "model" && rapid.IntRange(0, 2).Draw(t, "typed") == 0
		if storeKind == "mock" && c.Trans != "custom" && c.Default == "" && rapid.IntRange(0, 4).Draw(t, "plain") == 0 {
			c.PlainStrings = true
		}
		return c
	})
}

func genCase(storeKind string) *rapid.Generator[Case] {
	return rapid.Custom(func(t *rapid.T) Case {
		c := Case{Cfg: genCfg(storeKind).Draw(t, "cfg")}
		n := rapid.IntRange(1, 12).Draw(t, "nmut")
		var last = map[string]string{}
		ngen := 0
		for i := 0; i < n; i++ {
			m := Mut{K: rapid.SampledFrom([]string{"create", "update", "update", "update", "delete"}).Draw(t, "k"), ID: rapid.SampledFrom([]string{"1", "2", "3", "gen1", "gen2"}).Draw(t, "id")}
			if storeKind == "mock" && m.K == "create" && strings.HasPrefix(m.ID, "gen") {
				m.ID = "1" // (gen ids only come into being through the store)
			}
			if m.K != "delete" {
				switch rapid.IntRange(0, 5).Draw(t, "vk") {
				case 0:
					if v, ok := last[m.ID]; ok {
						m.V = v // unchanged representation
						break
					}
					fallthrough
				default:
					if c.Cfg.PlainStrings {
						m.V = genPlain(c.Cfg.Type).Draw(t, "pv")
					} else {
						m.V = genValue(c.Cfg.Type).Draw(t, "v")
					}
				}
				last[m.ID] = m.V
			}
			if storeKind == "mock" && m.K == "create" && !c.Cfg.PlainStrings && rapid.IntRange(0, 3).Draw(t, "generated") == 0 {
				// created through Write(""): the store generates the id (gen1, gen2, ... in order)
				ngen++
				m.K, m.ID = "createnew", "gen"+strconv.Itoa(ngen)
			}
			if storeKind == "badger" && m.K == "create" && rapid.IntRange(0, 3).Draw(t, "asinit") == 0 {
				m.K = "init" // the id is offered as a seed to Store.Init instead
			}
			if i > 0 && c.Muts[i-1].ID == m.ID && m.K != "init" && m.K != "createnew" {
				m.SameTxn = rapid.IntRange(0, 3).Draw(t, "sametxn") == 0
			}
			c.Muts = append(c.Muts, m)
		}
		return c
	})
}

func TestPropMock(t *testing.T) {
	rapid.Check(t, func(rt *rapid.T) {
		c := genCase("mock").Draw(rt, "case")
		msg, nt := run(c)
		ev.Case(nt, evid.Hash(c.String()), "history-mock", "type-"+c.Cfg.Type, "trans-"+c.Cfg.Trans)
		if msg != "" {
			rt.Fatalf("%s\ncase: %s", msg, c)
		}
		if nt {
			ev.Sample("history", 3, func() interface{} { return c })
		}
	})
}

func TestPropBadger(t *testing.T) {
	rapid.Check(t, func(rt *rapid.T) {
		c := genCase("badger").Draw(rt, "case")
		msg, nt := run(c)
		ev.Case(nt, evid.Hash(c.String()), "history-badger")
		if msg != "" {
			rt.Fatalf("%s\ncase: %s", msg, c)
		}
	})
}

// ---- bounded-exhaustive pairs -----------------------------------------------------

func allLists(maxLen int) []string {
	var out []string
	var rec func(cur []string)
	rec = func(cur []string) {
		out = append(out, "["+strings.Join(cur, ",")+"]")
		if len(cur) == maxLen {
			return
		}
		for _, a := range []string{`"a"`, `"b"`, `"c"`} {
			rec(append(cur, a))
		}
	}
	rec(nil)
	return out
}

func allModels() []string {
	var out []string
	opts := []string{"", "1", "2"}
	for _, a := range opts {
		for _, b := range opts {
			for _, c := range opts {
				var p []string
				for k, v := range map[string]string{"a": a, "b": b, "c": c} {
					if v != "" {
						p = append(p, strconv.Quote(k)+":"+v)
					}
				}
				sort.Strings(p)
				out = append(out, "{"+strings.Join(p, ",")+"}")
			}
		}
	}
	return out
}

func shard() (int, int) {
	i, _ := strconv.Atoi(os.Getenv("VERIF_SHARD"))
	n, _ := strconv.Atoi(os.Getenv("VERIF_SHARDS"))
	if n < 1 {
		n = 1
	}
	return i, n
}

func TestExhaustivePairs(t *testing.T) {
	si, sn := shard()
	for _, typ := range []string{"collection", "model"} {
		cfg := Cfg{Type: typ, Trans: "id", Store: "mock"}
		vals := allLists(4)
		if typ == "model" {
			vals = allModels()
		}
		f, err := newFixture(cfg)
		if err != nil {
			t.Fatalf("VERIF-INCONCLUSIVE: %v", err)
		}
		var pairs, nt int64
		idx := 0
		tx := f.st.Write("1")
		_ = tx.Create(storedValue(cfg, vals[0]))
		_ = tx.Close()
		for _, a := range vals {
			for _, b := range vals {
				idx++
				if idx%sn != si {
					continue
				}
				pairs++
				// set before (events ignored), then the update under test
				tx := f.st.Write("1")
				_ = tx.Update(storedValue(cfg, a))
				_ = tx.Close()
				cl := client{"svc.r.1": canon([]byte(a))}
				mark := f.conn.LogLen()
				tx = f.st.Write("1")
				_ = tx.Update(storedValue(cfg, b))
				_ = tx.Close()
				var evs []fakeconn.Entry
				for _, e := range f.conn.LogFrom(mark) {
					if e.Kind == "pub" {
						evs = append(evs, e)
					}
				}
				bad := ""
				for _, e := range evs {
					name := e.Subject[strings.LastIndexByte(e.Subject, '.')+1:]
					if v := cl.apply("svc.r.1", name, e.Data, nil); v != "" {
						bad = v
						break
					}
				}
				if bad == "" && cl["svc.r.1"] != canon([]byte(b)) {
					bad = fmt.Sprintf("client ends with %s", cl["svc.r.1"])
				}
				if bad == "" && canon([]byte(a)) == canon([]byte(b)) && len(evs) > 0 {
					bad = "events published for an unchanged value"
				}
				if interesting(canon([]byte(a)), canon([]byte(b))) {
					nt++
				}
				if bad != "" {
					evid.Violation(t, prop, "pair", fmt.Sprintf("%s update %s -> %s: %s; events: %s", typ, a, b, bad, describe(evs)), map[string]string{"type": typ, "before": a, "after": b})
					f.cleanup()
					return
				}
			}
		}
		f.cleanup()
		ev.CountDistinct(pairs, nt)
		ev.Add("exhaustive-"+typ+"-pairs", pairs)
	}
	ev.SetExtra("exhaustive", true)
	ev.SetExtra("exhaustive_space", "every ordered pair of collections of length <=4 over {a,b,c} (121 x 121) and every ordered pair of models over keys a,b,c x {absent,1,2} (27 x 27)")
}

// ---- regression tier ---------------------------------------------------------------

func TestRegressDefaultWithoutTransformer(t *testing.T) {
	c := Case{Cfg: Cfg{Type: "collection", Trans: "none", Default: `[1,"a"]`, Store: "mock"}, Muts: []Mut{{K: "create", ID: "1", V: `["a",2]`}, {K: "delete", ID: "1"}}}
	msg, _ := run(c)
	evid.ReportKnown(t, prop, "C10-default-ignored-without-transformer", msg != "", msg, c)
	ev.Case(true, evid.Hash("regress-default"), "regress")
}
