HOOK_COMMITS = "aaae3172ef50f67df568a7a6c7f61adff9962da7 ".split()
NOT_APPLICABLE = {}
META = {
    "C17": dict(
        technique="bounded-exhaustive enumeration + rapid property-based testing + native fuzzing against a token-wise reference grammar",
        text="Exploration: every (pattern, string) pair over all strings of length <=4 (quick) / <=5 (thorough) on {a,b,.,$,*,>} is checked against a brute-force token-wise reference (match, values, substitution round-trip, covering, wildcard index, validity agreement with Handle/NewMux/Mount/IsValidRID/Call/Auth); rapid generates longer patterns, near-miss names, tag maps and IDTransformer round-trips; thorough adds a coverage-guided fuzz campaign. Exhaustive inside the bound, sampled beyond it.",
        note="Trusted: the reference grammar in harness/internal/refmux (written from the Handle/Pattern doc comments and the property text), Go 1.26.8 toolchain. Laws are asserted only on documented input domains (valid pattern; valid name or valid pattern).",
    ),
    "C06": dict(
        technique="bounded-exhaustive enumeration + rapid property-based testing (differential against a brute-force reference router) + native fuzzing for never-panics",
        text="Exploration: registration plans (pattern sets spread over root mux, Mount, Route, NewMux(path), handlers added before/after mounting or through a mounted prefix, group templates, listeners) are executed on real muxes and on a brute-force reference router; every lookup is compared for winner, params, group and listener set; registration outcomes (accepted / rejected) are compared with the documented rules. Exhaustive for all sets of <=2 patterns of <=3 tokens over a 6-token alphabet x 7 arrangements x all names of <=4 tokens; random beyond (<=12 patterns, <=6 tokens, nested mounts); arbitrary strings only for no-panic/soundness.",
        note="Trusted: harness/internal/refmux (brute-force matcher and specificity order written from the Handle doc comment and the property text). Results for syntactically invalid resource names are treated as unspecified apart from no-panic and soundness.",
    ),
    "C04": dict(
        technique="rapid property-based testing with generated handler-behaviour scripts (sequential and concurrent batches) and a response-count oracle",
        text="Exploration: generated services (1-3 patterns with any subset of access/get/call/new/auth handlers) receive generated requests (type x name x method x payload incl. malformed x HTTP flag) whose handlers interpret a generated behaviour script (reply variants, double reply, no reply, panics of six kinds before/after replying, nested Value, meta calls, events, unmarshalable values). Per request the number of non-pre-response messages on its private reply subject must be exactly 1 (0 only for access on a pattern without access handler, decided by the reference router), and the service must still answer a probe afterwards. Sequential cases inspect after the request.done hook; concurrent batches of up to 200 requests over 1-32 workers wait for all done hooks.",
        note="Trusted: harness/internal/refmux routing reference (to decide the access exception), the request.done/listener.msgDone hooks for quiescence. Unspecified: subjects without resource or method part (only no-crash).",
    ),
    "C05": dict(
        technique="rapid property-based testing; differential against a reference dispatch model and a reference interpreter of handler scripts",
        text="Exploration: the cases of C04 run with recording handlers (unique marker per handler function; every visible request field copied). A reference dispatch model (subject split at first dot / last dot, brute-force routing, named method else *, new preferring the New handler) predicts which single handler runs and what it must see (type, method, resource name, path params, group, query, cid, raw params/token byte-equal, header, host, remoteAddr, uri, isHttp); a reference interpreter of the behaviour script predicts the response class and, for error outcomes, the code (verbatim code/message/data for *res.Error passed to Error or panicked; system.internalError for other panics and missing replies; notFound/methodNotFound/internalError when nothing can be invoked).",
        note="Trusted: harness/internal/refmux, harness/internal/script.Predict (written from the request API doc comments), reqcase.Route. Result payload equality is C18's business; response shape C07's; response count C04's.",
    ),
}
