package c19

import (
	"fmt"
	"strconv"
	"sync"
	"sync/atomic"
	"testing"
	"testing/synctest"
	"time"

	res "github.com/jirenius/go-res"
	"github.com/jirenius/go-res/resprot"
	"pgregory.net/rapid"

	"verifharness/internal/evid"
	"verifharness/internal/fakeconn"
)

// tstep: the handler announces a timeout of D ms, then works for W ms (virtual time).
type tstep struct {
	D int `json:"d"`
	W int `json:"w"`
}

// runServiceCase: a real service and SendRequest inside one bubble. The handler runs
// the steps and then replies; the deadline model decides whether the client must see
// the reply or the timeout error, and which extensions it must report.
func runServiceCase(initial int, steps []tstep) string {
	s := res.NewService("svc")
	s.SetLogger(nil)
	s.SetWorkerCount(1)
	s.Handle("m", res.Call("do", func(r res.CallRequest) {
		for _, st := range steps {
			r.Timeout(time.Duration(st.D) * time.Millisecond)
			time.Sleep(time.Duration(st.W) * time.Millisecond)
		}
		r.OK(7)
	}))
	conn := fakeconn.New()
	served := make(chan struct{})
	s.SetOnServe(func(*res.Service) { close(served) })
	exited := make(chan struct{})
	go func() { _ = s.Serve(conn); close(exited) }()
	<-served
	// model (times in ms from the request)
	deadline := initial
	t := 0
	var wantExts []time.Duration
	alive := true
	for _, st := range steps {
		if alive && t < deadline {
			deadline = t + st.D
			wantExts = append(wantExts, time.Duration(st.D)*time.Millisecond)
		} else {
			alive = false
		}
		t += st.W
	}
	wantReply := alive && t < deadline
	var exts []time.Duration
	start := time.Now()
	r := resprot.SendRequest(conn, "call.svc.m.do", nil, time.Duration(initial)*time.Millisecond, func(d time.Duration) { exts = append(exts, d) })
	elapsed := int(time.Since(start) / time.Millisecond)
	msg := ""
	switch {
	case fmt.Sprint(exts) != fmt.Sprint(wantExts):
		msg = fmt.Sprintf("the client reported extensions %v, the handler announced %v before the deadline ran out", exts, wantExts)
	case wantReply && (!r.HasResult() || elapsed != t):
		msg = fmt.Sprintf("the handler replies at %dms with the deadline at %dms; the client got %+v (error %v) after %dms", t, deadline, r, r.Error, elapsed)
	case !wantReply && (r.Error == nil || r.Error.Code != res.CodeTimeout || elapsed != deadline):
		msg = fmt.Sprintf("the deadline runs out at %dms (reply only at %dms); the client got %+v (error %v) after %dms", deadline, t, r, r.Error, elapsed)
	}
	// let the handler finish, then stop
	time.Sleep(time.Duration(t+1) * time.Millisecond)
	synctest.Wait()
	_ = s.Shutdown()
	<-exited
	return msg
}

// TestPropServiceTimeouts: SendRequest against a real service in virtual time; handlers
// announce timeouts repeatedly (also the same duration again, and zero).
func TestPropServiceTimeouts(t *testing.T) {
	rapid.Check(t, func(rt *rapid.T) {
		// odd initial timeout and even step times: a reply never coincides with a deadline
		initial := rapid.SampledFrom([]int{51, 301, 1001}).Draw(rt, "initial")
		n := rapid.IntRange(0, 5).Draw(rt, "nsteps")
		var steps []tstep
		for i := 0; i < n; i++ {
			// (any odd number of milliseconds, besides the fixed ones)
			d := rapid.SampledFrom([]int{0, 101, 101, 401, 2001}).Draw(rt, "d")
			if rapid.Bool().Draw(rt, "anyD") {
				d = 2*rapid.IntRange(0, 10000).Draw(rt, "dHalf") + 1
			}
			steps = append(steps, tstep{D: d, W: rapid.SampledFrom([]int{2, 40, 100, 300, 1000}).Draw(rt, "w")})
		}
		var msg string
		func() {
			defer func() {
				if v := recover(); v != nil {
					msg = fmt.Sprintf("bubble ended abnormally: %v", v)
				}
			}()
			synctest.Test(t, func(*testing.T) { msg = runServiceCase(initial, steps) })
		}()
		same := false
		for i := 1; i < len(steps); i++ {
			if steps[i].D == steps[i-1].D {
				same = true
			}
		}
		ev.Case(same || len(steps) >= 3, evid.Hash("service", initial, fmt.Sprint(steps)), "service-in-bubble")
		if msg != "" {
			rt.Fatalf("%s\ninitial %dms steps %+v", msg, initial, steps)
		}
	})
}

// TestPropConcurrentServiceTimeouts: free-running. Several clients call different resources
// of one service (several workers) at the same moment; every handler announces its own
// timeout duration a few hundred times and then replies. Each client must be told exactly
// the durations its own handler announced, and get its own reply.
func TestPropConcurrentServiceTimeouts(t *testing.T) {
	rapid.Check(t, func(rt *rapid.T) {
		workers := rapid.IntRange(2, 8).Draw(rt, "workers")
		clients := rapid.IntRange(2, 8).Draw(rt, "clients")
		rounds := rapid.IntRange(100, 400).Draw(rt, "rounds")
		durs := make([]time.Duration, clients)
		for i := range durs {
			durs[i] = time.Duration(rapid.SampledFrom([]int{20000, 30001, 123456, 7000000, 99999, 1000000, 45678, 20500}).Draw(rt, "d")) * time.Millisecond
			if rapid.Bool().Draw(rt, "anyD") {
				durs[i] = time.Duration(rapid.IntRange(20000, 90000).Draw(rt, "dMs")) * time.Millisecond
			}
		}
		s := res.NewService("svc")
		s.SetLogger(nil)
		s.SetWorkerCount(workers)
		need := int32(min(clients, workers))
		var arrived atomic.Int32
		gate := make(chan struct{})
		s.Handle("m.$id", res.Call("do", func(r res.CallRequest) {
			i, _ := strconv.Atoi(r.PathParam("id"))
			if arrived.Add(1) == need {
				close(gate)
			}
			<-gate // as many handlers as there are workers start announcing together
			for k := 0; k < rounds; k++ {
				r.Timeout(durs[i])
			}
			r.OK(i)
		}))
		conn := fakeconn.New()
		conn.Blocking = true // nothing is dropped when a client's inbox channel is full
		served := make(chan struct{})
		s.SetOnServe(func(*res.Service) { close(served) })
		exited := make(chan struct{})
		go func() { _ = s.Serve(conn); close(exited) }()
		<-served
		msgs := make([]string, clients)
		var wg sync.WaitGroup
		for i := 0; i < clients; i++ {
			wg.Add(1)
			go func(i int) {
				defer wg.Done()
				var exts []time.Duration
				r := resprot.SendRequest(conn, "call.svc.m."+strconv.Itoa(i)+".do", nil, 20*time.Second, func(d time.Duration) { exts = append(exts, d) })
				var got int
				if !r.HasResult() {
					msgs[i] = fmt.Sprintf("client %d (handler announcing %v): no result: %+v (error %v)", i, durs[i], r, r.Error)
					return
				}
				if err := r.ParseResult(&got); err != nil || got != i {
					msgs[i] = fmt.Sprintf("client %d: got the result %s", i, r.Result)
					return
				}
				if len(exts) != rounds {
					msgs[i] = fmt.Sprintf("client %d: its handler announced %v %d times, the client was told %d extensions", i, durs[i], rounds, len(exts))
					return
				}
				for _, d := range exts {
					if d != durs[i] {
						msgs[i] = fmt.Sprintf("client %d: its handler only ever announced %v, the client was told an extension of %v (other handlers announce %v at the same time)", i, durs[i], d, durs)
						return
					}
				}
			}(i)
		}
		wg.Wait()
		_ = s.Shutdown()
		<-exited
		ev.Case(true, evid.Hash("conc-timeouts", workers, clients, rounds, fmt.Sprint(durs)), "service-concurrent-timeouts")
		for _, m := range msgs {
			if m != "" {
				rt.Fatalf("%s", m)
			}
		}
	})
}
