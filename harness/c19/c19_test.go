package c19

import (
	"context"
	"encoding/json"
	"errors"
	"fmt"
	"os"
	"strings"
	"sync"
	"testing"
	"testing/synctest"
	"time"

	res "github.com/jirenius/go-res"
	"github.com/jirenius/go-res/resprot"
	nats "github.com/nats-io/nats.go"
	"pgregory.net/rapid"

	"verifharness/internal/evid"
	"verifharness/internal/gen"
	"verifharness/internal/natsrv"
)

const prop = "C19"

func TestMain(m *testing.M) { os.Exit(evid.Main(m)) }

var ev = evid.For(prop)

func init() {
	ev.SetRule("cases = (initial timeout T, a script of 0-6 inbox messages each with a virtual delay and a kind: result / resource / error / invalid JSON / empty response, valid timeout pre-response, pre-response with unknown key, pre-response with unusable timeout value; 0-2 extension callbacks; request value nil / struct / unmarshalable; subscribe or publish failure) run against a scripted in-memory connection inside a synctest bubble; the model scans arrivals against the moving deadline and predicts the returned response and the exact virtual elapsed time; a case is non-trivial when it has >=1 valid pre-response followed by a response arriving after the original deadline but before the extended one, or >=2 pre-responses, or a response after the final deadline; distinct = hash of the case. A real-NATS variant checks the inbox subscription count after every return path and end-to-end results against a real service.")
	ev.Assume("no generated arrival coincides with a deadline; unusable timeout values (non-numeric, negative) are unspecified: only 'never returned as the response' and a bounded return time are asserted for such cases")
}

// Msg is one scripted inbox message.
type Msg struct {
	DelayMs int    `json:"delay"` // after the previous message (or the request)
	Kind    string `json:"kind"`  // result resource error invalid empty pre preunknown prebad
	N       int    `json:"n,omitempty"`
	Data    string `json:"data"`
}

// Case is one SendRequest scenario.
type Case struct {
	TimeoutMs int    `json:"timeout"`
	Script    []Msg  `json:"script"`
	Callbacks int    `json:"callbacks"`
	Req       string `json:"req"`   // nil struct unmarshalable nilptr nilmap emptymap
	Fault     string `json:"fault"` // "" subscribe publish
	// FaultErr: the error value the failing operation returns ("" a plain error, or one of the
	// client library's own values: closed draining timeout)
	FaultErr string `json:"faultErr,omitempty"`
}

func (c Case) String() string { b, _ := json.Marshal(c); return string(b) }

type scriptConn struct {
	c       Case
	mu      sync.Mutex
	subs    int
	pubs    []string
	pubData [][]byte
	ch      chan *nats.Msg
	inbox   string
	sent    int
}

func (sc *scriptConn) faultErr(what string) error {
	switch sc.c.FaultErr {
	case "closed":
		return nats.ErrConnectionClosed
	case "draining":
		return nats.ErrConnectionDraining
	case "timeout":
		return nats.ErrTimeout
	case "restimeout":
		// a connection wrapper may hand back the library's own error values
		return res.ErrTimeout
	case "resnotfound":
		return res.ErrNotFound
	case "deadline":
		// an error that calls itself a timeout, as net.Error and context errors do
		return context.DeadlineExceeded
	case "neterr":
		return netTimeout{}
	}
	return errors.New("injected " + what + " failure")
}

// netTimeout is an error with the Timeout and Temporary methods of net.Error.
type netTimeout struct{}

func (netTimeout) Error() string   { return "i/o timeout" }
func (netTimeout) Timeout() bool   { return true }
func (netTimeout) Temporary() bool { return true }

func (sc *scriptConn) Publish(subject string, payload []byte) error {
	return errors.New("unexpected Publish")
}
func (sc *scriptConn) ChanQueueSubscribe(subject, queue string, ch chan *nats.Msg) (*nats.Subscription, error) {
	return nil, errors.New("unexpected ChanQueueSubscribe")
}
func (sc *scriptConn) Close() {}

func (sc *scriptConn) ChanSubscribe(subject string, ch chan *nats.Msg) (*nats.Subscription, error) {
	sc.mu.Lock()
	defer sc.mu.Unlock()
	if sc.c.Fault == "subscribe" {
		return nil, sc.faultErr("subscribe")
	}
	sc.subs++
	sc.ch = ch
	sc.inbox = subject
	return &nats.Subscription{Subject: subject}, nil
}

func (sc *scriptConn) PublishRequest(subject, reply string, data []byte) error {
	sc.mu.Lock()
	if sc.c.Fault == "publish" {
		sc.mu.Unlock()
		return sc.faultErr("publish")
	}
	sc.pubs = append(sc.pubs, subject+" "+reply)
	sc.pubData = append(sc.pubData, append([]byte(nil), data...))
	ch := sc.ch
	sc.mu.Unlock()
	go func() {
		for _, m := range sc.c.Script {
			time.Sleep(time.Duration(m.DelayMs) * time.Millisecond)
			select {
			case ch <- &nats.Msg{Subject: reply, Data: []byte(m.Data)}:
				sc.mu.Lock()
				sc.sent++
				sc.mu.Unlock()
			default:
			}
		}
	}()
	return nil
}

type prediction struct {
	elapsed                   time.Duration
	kind                      string // result resource error-verbatim timeout internal invalidresp
	data                      string
	extensions                []time.Duration
	unspecified               bool
	maxElapsed                time.Duration
	afterOriginal, afterFinal bool
	npre                      int
}

func predict(c Case) prediction {
	var p prediction
	if c.Req == "unmarshalable" || c.Req == "rawbad" || c.Fault != "" {
		p.kind = "internal"
		return p
	}
	deadline := time.Duration(c.TimeoutMs) * time.Millisecond
	orig := deadline
	var at time.Duration
	p.maxElapsed = deadline
	for _, m := range c.Script {
		at += time.Duration(m.DelayMs) * time.Millisecond
		if at > deadline {
			if m.Kind != "pre" && m.Kind != "preunknown" && m.Kind != "prebad" {
				p.afterFinal = true
			}
			break
		}
		switch m.Kind {
		case "pre":
			p.npre++
			d := time.Duration(m.N) * time.Millisecond
			deadline = at + d
			p.extensions = append(p.extensions, d)
			if deadline > p.maxElapsed {
				p.maxElapsed = deadline
			}
		case "preunknown":
		case "prebad":
			p.unspecified = true
		default:
			p.elapsed = at
			p.kind = m.Kind
			p.data = m.Data
			if at > orig {
				p.afterOriginal = true
			}
			return p
		}
	}
	p.kind = "timeout"
	p.elapsed = deadline
	return p
}

type reqStruct struct {
	A int    `json:"a"`
	B string `json:"b"`
}

func runCase(c Case) (msg string, p prediction) {
	p = predict(c)
	sc := &scriptConn{c: c}
	var exts []time.Duration
	others := make([][]time.Duration, c.Callbacks)
	var cbs []func(time.Duration)
	for i := 0; i < c.Callbacks; i++ {
		i := i
		cbs = append(cbs, func(d time.Duration) {
			if i == 0 {
				exts = append(exts, d)
			}
			others[i] = append(others[i], d)
		})
	}
	var req interface{}
	switch c.Req {
	case "struct":
		req = reqStruct{A: 1, B: "x"}
	case "unmarshalable":
		req = make(chan int)
	case "rawbad":
		req = json.RawMessage(`{"a":1,`) // a raw message that is not JSON cannot be marshalled either
	case "rawok":
		req = json.RawMessage(`{"a":1,"b":"x"}`)
	case "nilptr":
		req = (*reqStruct)(nil) // a typed nil is a value: encoding/json writes null
	case "nilmap":
		req = map[string]int(nil)
	case "emptymap":
		req = map[string]int{}
	}
	start := time.Now()
	r := resprot.SendRequest(sc, "call.svc.model.method", req, time.Duration(c.TimeoutMs)*time.Millisecond, cbs...)
	elapsed := time.Since(start)
	// what the callbacks have seen by the time SendRequest returns: a caller forwards the
	// extensions to its own requester before it forwards the response
	extsAtReturn := append([]time.Duration(nil), exts...)
	synctest.Wait()
	code := ""
	if r.Error != nil {
		code = r.Error.Code
	}
	switch p.kind {
	case "internal":
		if code != res.CodeInternalError {
			return fmt.Sprintf("marshal/subscribe/publish failure must be reported as system.internalError, got %+v", r), p
		}
		if elapsed != 0 {
			return fmt.Sprintf("failure reported after waiting %v, expected no waiting", elapsed), p
		}
		if (c.Req == "unmarshalable" || c.Req == "rawbad") && (sc.subs != 0 || len(sc.pubs) != 0) {
			return "unmarshalable request still subscribed/published", p
		}
		if c.Fault == "subscribe" && len(sc.pubs) != 0 {
			return "request published although the inbox subscription failed", p
		}
		return "", p
	}
	if len(sc.pubs) != 1 {
		return fmt.Sprintf("expected exactly one request to be published, got %v", sc.pubs), p
	}
	wantReq := `{}`
	switch c.Req {
	case "nilptr", "nilmap":
		wantReq = `null`
	}
	if c.Req == "struct" || c.Req == "rawok" {
		wantReq = `{"a":1,"b":"x"}`
	}
	if !gen.JSONEqual(sc.pubData[0], []byte(wantReq)) {
		return fmt.Sprintf("request payload %s, expected %s", sc.pubData[0], wantReq), p
	}
	if !strings.HasSuffix(sc.pubs[0], " "+sc.inbox) {
		return fmt.Sprintf("request published with reply %q, inbox subscription is %q", sc.pubs[0], sc.inbox), p
	}
	if p.unspecified {
		// only: an unusable pre-response is never returned as the response, and the call returns in bounded time
		for _, m := range c.Script {
			if m.Kind == "prebad" && r.Error != nil && strings.Contains(r.Error.Message, "invalid character") && p.kind != "invalid" {
				return fmt.Sprintf("a pre-response with an unusable timeout value was parsed as the response: %+v", r.Error), p
			}
		}
		return "", p
	}
	if elapsed != p.elapsed {
		return fmt.Sprintf("SendRequest returned after %v of virtual time, the model says %v (%s)", elapsed, p.elapsed, p.kind), p
	}
	if c.Callbacks > 0 && fmt.Sprint(exts) != fmt.Sprint(p.extensions) {
		return fmt.Sprintf("extension callbacks saw %v, expected %v", exts, p.extensions), p
	}
	for i := range others {
		if fmt.Sprint(others[i]) != fmt.Sprint(p.extensions) {
			return fmt.Sprintf("extension callback %d of %d saw %v, expected %v", i, c.Callbacks, others[i], p.extensions), p
		}
	}
	if c.Callbacks > 0 && fmt.Sprint(extsAtReturn) != fmt.Sprint(p.extensions) {
		return fmt.Sprintf("when SendRequest returned the extension callbacks had seen %v, the pre-responses received before the response announce %v", extsAtReturn, p.extensions), p
	}
	switch p.kind {
	case "timeout":
		if code != res.CodeTimeout {
			return fmt.Sprintf("expected system.timeout at %v, got %+v (error %v)", p.elapsed, r, r.Error), p
		}
	case "result":
		var m struct{ Result json.RawMessage }
		_ = json.Unmarshal([]byte(p.data), &m)
		if !r.HasResult() || !gen.JSONEqual(r.Result, m.Result) {
			return fmt.Sprintf("expected result %s, got %+v (error %v)", m.Result, r, r.Error), p
		}
	case "resource":
		var m struct {
			Resource struct {
				RID string `json:"rid"`
			} `json:"resource"`
		}
		_ = json.Unmarshal([]byte(p.data), &m)
		if !r.HasResource() || string(r.Resource) != m.Resource.RID {
			return fmt.Sprintf("expected the resource response %s (resource id %q), got %+v", p.data, m.Resource.RID, r), p
		}
	case "error":
		var m struct{ Error *res.Error }
		_ = json.Unmarshal([]byte(p.data), &m)
		if !r.HasError() || r.Error.Code != m.Error.Code || r.Error.Message != m.Error.Message {
			return fmt.Sprintf("expected error %+v, got %+v", m.Error, r.Error), p
		}
		wd, _ := json.Marshal(m.Error.Data)
		gd, _ := json.Marshal(r.Error.Data)
		if !gen.JSONEqual(wd, gd) {
			return fmt.Sprintf("expected the error's data %s, got %s (response %s)", wd, gd, p.data), p
		}
	case "invalid", "empty":
		if code != res.CodeInternalError {
			return fmt.Sprintf("an unparsable response must be reported as system.internalError, got %+v", r), p
		}
	}
	return "", p
}

func genCase() *rapid.Generator[Case] {
	return rapid.Custom(func(t *rapid.T) Case {
		c := Case{TimeoutMs: rapid.SampledFrom([]int{100, 1000, 5000}).Draw(t, "timeout")}
		c.Callbacks = rapid.IntRange(0, 3).Draw(t, "callbacks")
		c.Req = rapid.SampledFrom([]string{"nil", "struct", "nil", "struct", "unmarshalable", "nilptr", "nilmap", "emptymap", "rawbad", "rawok"}).Draw(t, "req")
		if rapid.IntRange(0, 9).Draw(t, "faulty") == 0 {
			c.Fault = rapid.SampledFrom([]string{"subscribe", "publish"}).Draw(t, "fault")
			c.FaultErr = rapid.SampledFrom([]string{"", "closed", "draining", "timeout", "restimeout", "resnotfound", "deadline", "neterr"}).Draw(t, "faulterr")
		}
		n := rapid.IntRange(0, 6).Draw(t, "nmsg")
		at := 0
		deadlines := map[int]bool{c.TimeoutMs: true}
		for i := 0; i < n; i++ {
			m := Msg{Kind: rapid.SampledFrom([]string{"result", "resource", "error", "invalid", "empty", "pre", "pre", "pre", "preunknown", "prebad"}).Draw(t, "kind")}
			// odd delays; deadlines are even, so no arrival coincides with a deadline
			m.DelayMs = 2*rapid.SampledFrom([]int{0, 5, 25, 45, 60, 250, 520, 1200, 2600}).Draw(t, "delay") + 1
			at += m.DelayMs
			switch m.Kind {
			case "result":
				m.Data = `{"result":` + gen.JSONText(2).Draw(t, "result") + `}`
				if rapid.IntRange(0, 3).Draw(t, "meta") == 0 {
					// the meta member a service adds for HTTP requests, or members of a later protocol version
					m.Data = m.Data[:len(m.Data)-1] + rapid.SampledFrom([]string{`,"meta":{"status":201}}`, `,"meta":{"header":{"X-A":["b"]}}}`, `,"future":true}`}).Draw(t, "extramember")
				}
			case "resource":
				// (a Go service writes & < > as \u0026 ...; other encoders escape the solidus)
				m.Data = `{"resource":{"rid":` + rapid.SampledFrom([]string{`"svc.a"`, `"svc.b.c?x=1"`, `"svc.b?a=1\u0026b=2"`, `"svc.a\/b"`, `"svc.\u0061"`, `"svc.q?x=\u003c1\u003e"`}).Draw(t, "rid") + `}}`
			case "error":
				m.Data = `{"error":{"code":"` + rapid.SampledFrom([]string{"system.notFound", "custom.x"}).Draw(t, "code") + `","message":"` + rapid.SampledFrom([]string{"m", "Not found", "Invalid parameters"}).Draw(t, "errmsg") + `"` + rapid.SampledFrom([]string{"", "", `,"data":{"a":1}`, `,"extra":1`, `,"data":"why"`}).Draw(t, "errextra") + `}` + rapid.SampledFrom([]string{"", "", `,"meta":{"status":404}`}).Draw(t, "errmeta") + `}`
			case "invalid":
				m.Data = rapid.SampledFrom([]string{`{"res`, `[]`, `{}`, ` `, `42`, `{"result":}`, `{"result":1}{"result":2}`, `{"result":{"n":1}} trailing`, `{"resource":{"rid":"a.b"}}}`, `{"error":{"code":"system.notFound","message":"m"}},`, "\xef\xbb\xbf{\"result\":1}", "\xc3\xa9", "\xff", "\u00a0{\"result\":1}"}).Draw(t, "inv")
			case "empty":
				m.Data = ""
			case "pre":
				m.N = 2 * rapid.SampledFrom([]int{0, 10, 50, 500, 1500, 3000, 1073741824, 1500000000}).Draw(t, "n")
				m.Data = fmt.Sprintf(`timeout:"%d"`, m.N)
				if rapid.IntRange(0, 5).Draw(t, "extra") == 0 {
					m.Data = fmt.Sprintf(`foo:"bar" timeout:"%d"`, m.N)
				}
				deadlines[at+m.N] = true
			case "preunknown":
				m.Data = rapid.SampledFrom([]string{`foo:"1"`, `Ping:"x"`, `Timeout:"5"`, `a`, `timeouts:"9"`, `idletimeout:"20"`, `progress:"50" softtimeout:"20"`, `x_timeout:"20"`, `foo:"timeout:" bar:"20"`}).Draw(t, "unk")
			case "prebad":
				m.Data = rapid.SampledFrom([]string{`timeout:"x"`, `timeout:"-5"`, `timeout:""`, `timeout:"1.5"`}).Draw(t, "bad")
			}
			c.Script = append(c.Script, m)
		}
		return c
	})
}

func TestPropSendRequest(t *testing.T) {
	rapid.Check(t, func(rt *rapid.T) {
		c := genCase().Draw(rt, "case")
		var msg string
		var p prediction
		func() {
			defer func() {
				if v := recover(); v != nil {
					msg = fmt.Sprintf("bubble ended abnormally: %v", v)
				}
			}()
			synctest.Test(t, func(*testing.T) {
				msg, p = runCase(c)
				// let the script goroutine finish within the bubble
				time.Sleep(time.Hour)
			})
		}()
		nt := (p.npre >= 1 && p.afterOriginal) || p.npre >= 2 || p.afterFinal
		ev.Case(nt, evid.Hash(c.String()), "scripted", "kind-"+p.kind)
		if msg != "" {
			rt.Fatalf("%s\ncase: %s", msg, c)
		}
		if nt {
			ev.Sample("scripted", 3, func() interface{} { return c })
		}
	})
}

// ---- real NATS ----------------------------------------------------------------------

// faultConn wraps a real connection and injects failures.
type faultConn struct {
	*nats.Conn
	failPublish, failSubscribe bool
}

func (f *faultConn) PublishRequest(subject, reply string, data []byte) error {
	if f.failPublish {
		return nats.ErrConnectionClosed // what a closed client connection reports
	}
	return f.Conn.PublishRequest(subject, reply, data)
}

func (f *faultConn) ChanSubscribe(subject string, ch chan *nats.Msg) (*nats.Subscription, error) {
	if f.failSubscribe {
		return nil, errors.New("injected subscribe failure")
	}
	return f.Conn.ChanSubscribe(subject, ch)
}

func TestRealNATS(t *testing.T) {
	srv, err := natsrv.Start()
	if err != nil {
		t.Fatalf("VERIF-INCONCLUSIVE: %v", err)
	}
	defer srv.Stop()
	snc, err := srv.Connect()
	if err != nil {
		t.Fatalf("VERIF-INCONCLUSIVE: %v", err)
	}
	cnc, err := srv.Connect()
	if err != nil {
		t.Fatalf("VERIF-INCONCLUSIVE: %v", err)
	}
	defer cnc.Close()
	s := res.NewService("svc")
	s.SetLogger(nil)
	s.Handle("m.$kind", res.Call("do", func(r res.CallRequest) {
		switch r.PathParam("kind") {
		case "ext":
			r.Timeout(20 * time.Second)
			time.Sleep(1200 * time.Millisecond)
			r.OK(map[string]string{"kind": "ext"})
		case "many":
			// a keep-alive style handler: a good number of pre-responses before the answer
			for k := 0; k < 9; k++ {
				r.Timeout(20 * time.Second)
				time.Sleep(20 * time.Millisecond)
			}
			r.OK(map[string]string{"kind": "many"})
		case "ok":
			r.OK(42)
		case "err":
			r.Error(&res.Error{Code: "custom.e", Message: "E"})
		case "res":
			r.Resource("svc.m.created")
		case "silent":
			time.Sleep(300 * time.Millisecond)
			r.OK(nil)
		}
	}))
	served := make(chan struct{})
	s.SetOnServe(func(*res.Service) { close(served) })
	exited := make(chan error, 1)
	go func() { exited <- s.Serve(snc) }()
	select {
	case <-served:
	case <-time.After(10 * time.Second):
		t.Fatalf("VERIF-INCONCLUSIVE: service did not start")
	}
	// the service's subscriptions must have reached the server before the client publishes
	if err := snc.Flush(); err != nil {
		t.Fatalf("VERIF-INCONCLUSIVE: %v", err)
	}
	fc := &faultConn{Conn: cnc}
	base := cnc.NumSubscriptions()
	n := evid.Pick(40, 1000)
	kinds := []string{"ok", "err", "res", "ext", "silent", "pubfail", "subfail", "badreq", "nosvc", "many"}
	for i := 0; i < n; i++ {
		k := kinds[i%len(kinds)]
		fc.failPublish, fc.failSubscribe = k == "pubfail", k == "subfail"
		var req interface{}
		subj := "call.svc.m." + k + ".do"
		// generous: a deadline hit on a loaded machine must not look like a wrong result
		timeout := 10 * time.Second
		if k == "ext" {
			timeout = time.Second // the handler replies after 1.2s, having extended the deadline to 20s
		}
		switch k {
		case "badreq":
			req = func() {}
		case "nosvc":
			subj = "call.nosuchservice.x.do"
			timeout = 20 * time.Millisecond
		case "silent":
			timeout = 30 * time.Millisecond
		case "pubfail", "subfail":
			subj = "call.svc.m.ok.do"
		}
		exts := 0
		r := resprot.SendRequest(fc, subj, req, timeout, func(time.Duration) { exts++ })
		var bad string
		switch k {
		case "ok":
			var v int
			if !r.HasResult() || r.ParseResult(&v) != nil || v != 42 {
				bad = fmt.Sprintf("expected result 42, got %+v (%v)", r, r.Error)
			}
		case "err":
			if !r.HasError() || r.Error.Code != "custom.e" {
				bad = fmt.Sprintf("expected custom.e, got %+v (%v)", r, r.Error)
			}
		case "res":
			if !r.HasResource() || r.Resource != "svc.m.created" {
				bad = fmt.Sprintf("expected resource, got %+v (%v)", r, r.Error)
			}
		case "ext":
			// the handler extends the deadline to 20s and replies after 1.2s > the 1s initial timeout
			if !r.HasResult() || exts != 1 {
				bad = fmt.Sprintf("expected the reply after a deadline extension (extensions seen %d), got %+v (%v)", exts, r, r.Error)
			}
		case "many":
			if !r.HasResult() {
				bad = fmt.Sprintf("expected the reply after nine pre-responses (extensions seen %d), got %+v (%v)", exts, r, r.Error)
			}
		case "silent", "nosvc":
			if !r.HasError() || r.Error.Code != res.CodeTimeout {
				bad = fmt.Sprintf("expected system.timeout, got %+v (%v)", r, r.Error)
			}
		default:
			if !r.HasError() || r.Error.Code != res.CodeInternalError {
				bad = fmt.Sprintf("expected system.internalError for %s, got %+v (%v)", k, r, r.Error)
			}
		}
		if bad != "" {
			evid.Violation(t, prop, "realnats", k+": "+bad, k)
			break
		}
		if got := cnc.NumSubscriptions(); got != base {
			evid.Violation(t, prop, "realnats", fmt.Sprintf("after a SendRequest (%s) the connection has %d subscriptions, base %d: the inbox subscription was not released", k, got, base), k)
			break
		}
		ev.Case(k == "ext" || k == "pubfail" || k == "silent", evid.Hash("realnats", k, i), "realnats-"+k)
		if k == "silent" {
			time.Sleep(300 * time.Millisecond) // let the late reply go by
		}
	}
	_ = s.Shutdown()
	<-exited
}
