// Package evid collects per-property evidence (case counts, non-trivial
// fingerprints, label histograms, samples) inside a test process and writes a
// partial evidence file that bin/check merges. It also gives access to the
// committed known-findings file and writes replay files for violations found
// outside rapid.
package evid

import (
	"bufio"
	"encoding/json"
	"fmt"
	"hash/fnv"
	"os"
	"path/filepath"
	"sort"
	"strings"
	"sync"
	"testing"
)

// Collector gathers evidence for one property.
type Collector struct {
	mu          sync.Mutex
	Property    string
	Evaluations int64
	fps         map[uint64]struct{}
	Labels      map[string]int64
	Excluded    map[string]int64
	Samples     []interface{}
	sampleKeys  map[string]int
	Extra       map[string]interface{}
	Assumptions []string
	Rule        string
	Violations  int
	Counted     int64 // distinct non-trivial cases counted without fingerprints (exhaustive enumerations)
}

var (
	gmu        sync.Mutex
	collectors = map[string]*Collector{}
)

// For returns the collector of a property.
func For(prop string) *Collector {
	gmu.Lock()
	defer gmu.Unlock()
	c := collectors[prop]
	if c == nil {
		c = &Collector{Property: prop, fps: map[uint64]struct{}{}, Labels: map[string]int64{}, Excluded: map[string]int64{}, sampleKeys: map[string]int{}, Extra: map[string]interface{}{}}
		collectors[prop] = c
	}
	return c
}

// SetRule records the generation / non-triviality rule text.
func (c *Collector) SetRule(rule string) {
	c.mu.Lock()
	if c.Rule == "" {
		c.Rule = rule
	} else if !strings.Contains(c.Rule, rule) {
		c.Rule += " || " + rule
	}
	c.mu.Unlock()
}

// Assume records an assumption (deduplicated).
func (c *Collector) Assume(a string) {
	c.mu.Lock()
	defer c.mu.Unlock()
	for _, x := range c.Assumptions {
		if x == a {
			return
		}
	}
	c.Assumptions = append(c.Assumptions, a)
}

const maxFP = 4 << 20

// Case records one generated case. nontrivial says whether it satisfies the
// property's stated rule; fp is a fingerprint of the canonical case used to
// count distinct non-trivial cases; labels feed the histogram.
func (c *Collector) Case(nontrivial bool, fp uint64, labels ...string) {
	c.mu.Lock()
	c.Evaluations++
	if nontrivial {
		if len(c.fps) < maxFP {
			c.fps[fp] = struct{}{}
		}
		c.Labels["nontrivial"]++
	}
	for _, l := range labels {
		if l != "" {
			c.Labels[l]++
		}
	}
	c.mu.Unlock()
}

// CountDistinct adds n evaluations of which nt are non-trivial and distinct by
// construction (used by exhaustive enumerations whose cases are pairwise
// different and disjoint across shards, so no fingerprint set is needed).
func (c *Collector) CountDistinct(n, nt int64) {
	c.mu.Lock()
	c.Evaluations += n
	c.Counted += nt
	c.Labels["nontrivial"] += nt
	c.mu.Unlock()
}

// Label bumps label counters without counting a case.
func (c *Collector) Label(labels ...string) {
	c.mu.Lock()
	for _, l := range labels {
		c.Labels[l]++
	}
	c.mu.Unlock()
}

// Add adds n to a label counter.
func (c *Collector) Add(label string, n int64) {
	c.mu.Lock()
	c.Labels[label] += n
	c.mu.Unlock()
}

// Exclude counts a case (or sub-case) excluded by construction because it
// falls into a listed known finding.
func (c *Collector) Exclude(key string) {
	c.mu.Lock()
	c.Excluded[key]++
	c.mu.Unlock()
}

// Sample keeps up to perKind samples for each kind.
func (c *Collector) Sample(kind string, perKind int, v func() interface{}) {
	c.mu.Lock()
	defer c.mu.Unlock()
	if c.sampleKeys[kind] >= perKind || len(c.Samples) >= 40 {
		return
	}
	c.sampleKeys[kind]++
	c.Samples = append(c.Samples, map[string]interface{}{"kind": kind, "case": v()})
}

// SetExtra stores an extra coverage key (e.g. an exhaustive sub-block).
func (c *Collector) SetExtra(k string, v interface{}) {
	c.mu.Lock()
	c.Extra[k] = v
	c.mu.Unlock()
}

// Hash is a convenience FNV-1a fingerprint over the fmt representation.
func Hash(parts ...interface{}) uint64 {
	h := fnv.New64a()
	for _, p := range parts {
		switch v := p.(type) {
		case string:
			h.Write([]byte(v))
		case []byte:
			h.Write(v)
		default:
			fmt.Fprintf(h, "%v", v)
		}
		h.Write([]byte{0})
	}
	return h.Sum64()
}

type partial struct {
	Property    string                 `json:"property"`
	Evaluations int64                  `json:"evaluations"`
	FPs         []uint64               `json:"fps"`
	Labels      map[string]int64       `json:"labels"`
	Excluded    map[string]int64       `json:"excluded_known"`
	Samples     []interface{}          `json:"samples"`
	Extra       map[string]interface{} `json:"extra"`
	Assumptions []string               `json:"assumptions"`
	Rule        string                 `json:"rule"`
	Violations  int                    `json:"violations"`
	Counted     int64                  `json:"counted_distinct"`
}

// Write writes one partial file per collector into $VERIF_EVID_DIR.
func Write() {
	dir := os.Getenv("VERIF_EVID_DIR")
	if dir == "" {
		return
	}
	_ = os.MkdirAll(dir, 0o755)
	gmu.Lock()
	defer gmu.Unlock()
	for _, c := range collectors {
		c.mu.Lock()
		p := partial{Property: c.Property, Evaluations: c.Evaluations, Labels: c.Labels, Excluded: c.Excluded, Samples: c.Samples, Extra: c.Extra, Assumptions: c.Assumptions, Rule: c.Rule, Violations: c.Violations, Counted: c.Counted}
		for fp := range c.fps {
			p.FPs = append(p.FPs, fp)
		}
		sort.Slice(p.FPs, func(i, j int) bool { return p.FPs[i] < p.FPs[j] })
		c.mu.Unlock()
		b, err := json.Marshal(p)
		if err != nil {
			fmt.Fprintf(os.Stderr, "evid: marshal %s: %v\n", c.Property, err)
			// drop samples and retry
			p.Samples = []interface{}{fmt.Sprintf("unmarshalable samples: %v", err)}
			b, _ = json.Marshal(p)
		}
		name := filepath.Join(dir, fmt.Sprintf("%s.%d.json", c.Property, os.Getpid()))
		if err := os.WriteFile(name, b, 0o644); err != nil {
			fmt.Fprintf(os.Stderr, "evid: write %s: %v\n", name, err)
		}
	}
}

// Main is to be used from TestMain: os.Exit(evid.Main(m)).
func Main(m *testing.M) int {
	code := m.Run()
	Write()
	return code
}

// Tier returns "quick" or "thorough".
func Tier() string {
	if os.Getenv("VERIF_TIER") == "thorough" {
		return "thorough"
	}
	return "quick"
}

// Thorough reports whether the thorough tier is selected.
func Thorough() bool { return Tier() == "thorough" }

// Pick returns q in the quick tier and th in the thorough tier.
func Pick(q, th int) int {
	if Thorough() {
		return th
	}
	return q
}

// Root returns the /verif root directory.
func Root() string {
	if r := os.Getenv("VERIF_ROOT"); r != "" {
		return r
	}
	return "/verif"
}

// Finding is one line of known_findings.jsonl.
type Finding struct {
	Status   string `json:"status"` // "known" or "fixed"
	Property string `json:"property"`
	Key      string `json:"key"`
	What     string `json:"what"`
	Replay   string `json:"replay,omitempty"`
	Commit   string `json:"commit,omitempty"`
}

var (
	findOnce sync.Once
	findings []Finding
)

// Findings loads the committed known-findings file (never written at run time).
func Findings() []Finding {
	findOnce.Do(func() {
		f, err := os.Open(filepath.Join(Root(), "known_findings.jsonl"))
		if err != nil {
			return
		}
		defer f.Close()
		sc := bufio.NewScanner(f)
		sc.Buffer(make([]byte, 1<<20), 1<<20)
		for sc.Scan() {
			line := strings.TrimSpace(sc.Text())
			if line == "" || strings.HasPrefix(line, "#") {
				continue
			}
			var fd Finding
			if json.Unmarshal([]byte(line), &fd) == nil {
				findings = append(findings, fd)
			}
		}
	})
	return findings
}

// Known reports whether the finding with the given key is listed with status
// "known" (i.e. an open, recorded defect whose input class generators exclude).
func Known(key string) bool {
	for _, f := range Findings() {
		if f.Key == key && f.Status == "known" {
			return true
		}
	}
	return false
}

// KnownWhat returns the description of a finding.
func KnownWhat(key string) string {
	for _, f := range Findings() {
		if f.Key == key {
			return f.What
		}
	}
	return key
}

// ReportKnown is used by the regression test of a listed finding: fails is the
// outcome of replaying its recorded input on the current tree. For a "known"
// entry that still fails it prints the KNOWN-FINDING line (exit stays 0); for
// any other entry (fixed or unlisted) that fails it reports a violation.
func ReportKnown(t testing.TB, prop, key string, fails bool, detail string, replay interface{}) {
	t.Helper()
	if !fails {
		if Known(key) {
			fmt.Printf("NOTE: property=%s listed known finding %q no longer reproduces\n", prop, key)
		}
		return
	}
	if Known(key) {
		fmt.Printf("KNOWN-FINDING: property=%s %s [%s] %s\n", prop, KnownWhat(key), key, oneLine(detail))
		return
	}
	Violation(t, prop, "regress-"+key, detail, replay)
}

func oneLine(s string) string {
	s = strings.ReplaceAll(s, "\n", " | ")
	if len(s) > 300 {
		s = s[:300] + "…"
	}
	return s
}

// Violation writes a JSON replay file and prints the line bin/check converts
// into the VIOLATION verdict, then fails the test.
func Violation(t testing.TB, prop, name, detail string, replay interface{}) {
	t.Helper()
	For(prop).mu.Lock()
	For(prop).Violations++
	For(prop).mu.Unlock()
	dir := os.Getenv("VERIF_REPLAY_DIR")
	if dir == "" {
		dir = filepath.Join(Root(), "replays", prop)
	}
	_ = os.MkdirAll(dir, 0o755)
	obj := map[string]interface{}{"property": prop, "test": t.Name(), "name": name, "detail": detail, "case": replay}
	b, err := json.MarshalIndent(obj, "", " ")
	if err != nil {
		b = []byte(fmt.Sprintf("{\"property\":%q,\"test\":%q,\"detail\":%q}", prop, t.Name(), detail))
	}
	path := filepath.Join(dir, fmt.Sprintf("%s-%016x.json", sanitize(name), Hash(string(b))))
	_ = os.WriteFile(path, b, 0o644)
	fmt.Printf("VERIF-VIOLATION property=%s replay=%s\n", prop, path)
	t.Errorf("violation of %s: %s", prop, detail)
}

func sanitize(s string) string {
	var b strings.Builder
	for _, r := range s {
		if r >= 'a' && r <= 'z' || r >= 'A' && r <= 'Z' || r >= '0' && r <= '9' || r == '-' || r == '_' {
			b.WriteRune(r)
		} else {
			b.WriteByte('_')
		}
	}
	return b.String()
}

// LoadReplay loads a JSON replay file written by Violation and returns its
// "case" member re-marshalled.
func LoadReplay(path string) (test string, raw json.RawMessage, err error) {
	b, err := os.ReadFile(path)
	if err != nil {
		return "", nil, err
	}
	var obj struct {
		Test string          `json:"test"`
		Case json.RawMessage `json:"case"`
	}
	if err := json.Unmarshal(b, &obj); err != nil {
		return "", nil, err
	}
	return obj.Test, obj.Case, nil
}
