package c15

import (
	"encoding/json"
	"fmt"
	"strings"
	"sync"
	"sync/atomic"
	"testing"
	"testing/synctest"
	"time"

	res "github.com/jirenius/go-res"
	"pgregory.net/rapid"

	"verifharness/internal/evid"
	"verifharness/internal/fakeconn"
)

// RCase is a restart scenario: query events are emitted in a first Serve cycle, the
// service is shut down before or after they expire, the duration may be changed, and
// a second cycle emits more query events.
type RCase struct {
	Workers int      `json:"workers"`
	D1      int      `json:"d1"` // ms
	D2      int      `json:"d2"`
	Emit1   []string `json:"emit1"`
	Wait1   int      `json:"wait1"`
	Down    int      `json:"down"`
	Emit2   []string `json:"emit2"`
	Req2    bool     `json:"req2"`
	// Stopped: number of QueryEvent calls made while the service has no connection (before
	// the first Serve and between the cycles), through Service.Resource.
	Stopped int `json:"stopped,omitempty"`
	// Backlog: at the first Shutdown every worker is held by a callback, and callbacks of the
	// groups that the second cycle uses are waiting behind them, not yet started.
	Backlog bool `json:"backlog,omitempty"`
}

func (c RCase) String() string { b, _ := json.Marshal(c); return string(b) }

type rEvent struct {
	rid      string
	cycle    int
	emit     time.Time
	nilTimes []time.Time
	reqCalls int
	subject  string
}

func runRestart(c RCase) (viol []string, nontrivial bool) {
	var mu sync.Mutex
	var exits, starts int64
	res.VerifHook = func(point string, arg interface{}) {
		if point == "qlistener.exit" {
			atomic.AddInt64(&exits, 1)
		}
	}
	defer func() { res.VerifHook = nil }()
	s := res.NewService("svc")
	s.SetWorkerCount(c.Workers)
	s.SetLogger(nil)
	s.SetQueryEventDuration(time.Duration(c.D1) * time.Millisecond)
	get := res.GetResource(func(r res.GetRequest) { r.NotFound() })
	s.Handle("q.$id", res.Model, get)
	s.Handle("qs.$id", res.Collection, get, res.Group("shared"))
	s.Handle("qp.$id", res.Model, get, res.Parallel(true))
	served := make(chan struct{}, 2)
	s.SetOnServe(func(*res.Service) { served <- struct{}{} })
	var evs []*rEvent
	var conns []*fakeconn.Conn
	serve := func() chan struct{} {
		conn := fakeconn.New()
		conn.OnPublish = func(e fakeconn.Entry) {
			if strings.HasPrefix(e.Subject, "event.") && strings.HasSuffix(e.Subject, ".query") {
				var p struct{ Subject string }
				_ = json.Unmarshal(e.Data, &p)
				rid := strings.TrimSuffix(strings.TrimPrefix(e.Subject, "event."), ".query")
				mu.Lock()
				for _, qe := range evs {
					if qe.rid == rid && qe.subject == "" {
						qe.subject = p.Subject
						atomic.AddInt64(&starts, 1)
						break
					}
				}
				mu.Unlock()
			}
		}
		conns = append(conns, conn)
		exited := make(chan struct{})
		go func() { _ = s.Serve(conn); close(exited) }()
		<-served
		return exited
	}
	emit := func(rid string, cycle int) {
		qe := &rEvent{rid: rid, cycle: cycle}
		mu.Lock()
		evs = append(evs, qe)
		mu.Unlock()
		done := make(chan struct{})
		err := s.With(rid, func(r res.Resource) {
			defer close(done)
			qe.emit = time.Now()
			r.QueryEvent(func(qr res.QueryRequest) {
				mu.Lock()
				defer mu.Unlock()
				if qr == nil {
					qe.nilTimes = append(qe.nilTimes, time.Now())
					return
				}
				qe.reqCalls++
				if len(qe.nilTimes) > 0 && !strings.HasPrefix(qe.rid, "svc.qp.") {
					viol = append(viol, fmt.Sprintf("query event on %s (cycle %d): request callback after the nil call", qe.rid, qe.cycle))
				}
			})
		})
		if err != nil {
			viol = append(viol, "With: "+err.Error())
			return
		}
		synctest.Wait()
		select {
		case <-done:
		default:
			viol = append(viol, fmt.Sprintf("cycle %d: a With callback on %s was accepted by the running, idle service but has not run", cycle, rid))
		}
	}
	// a query event on a service without connection is a failed subscription: one nil call at
	// once, nothing published, nothing left behind
	stoppedEmit := func(when string) {
		for k := 0; k < c.Stopped; k++ {
			r, err := s.Resource("svc.q.1")
			if err != nil {
				viol = append(viol, "Resource: "+err.Error())
				return
			}
			nils, others := 0, 0
			r.QueryEvent(func(qr res.QueryRequest) {
				if qr == nil {
					nils++
				} else {
					others++
				}
			})
			synctest.Wait()
			if nils != 1 || others != 0 {
				viol = append(viol, fmt.Sprintf("QueryEvent %s (no connection): callback got nil %d times and %d requests, expected exactly one nil call", when, nils, others))
			}
		}
	}
	stoppedEmit("before the first Serve")
	exited := serve()
	for _, rid := range c.Emit1 {
		emit(rid, 1)
		time.Sleep(time.Millisecond)
	}
	time.Sleep(time.Duration(c.Wait1) * time.Millisecond)
	synctest.Wait()
	shutdownAt := time.Now()
	if c.Backlog {
		release := make(chan struct{})
		for w := 0; w < c.Workers; w++ {
			_ = s.With(fmt.Sprintf("svc.qp.%d", 90+w), func(res.Resource) { <-release })
		}
		synctest.Wait()
		for _, rid := range []string{"svc.q.1", "svc.q.2", "svc.qs.1"} {
			_ = s.With(rid, func(res.Resource) {}) // waits behind the held workers; dropped by the Shutdown
		}
		shut := make(chan error, 1)
		go func() { shut <- s.Shutdown() }()
		synctest.Wait()
		close(release)
		if err := <-shut; err != nil {
			viol = append(viol, "Shutdown: "+err.Error())
		}
	} else if err := s.Shutdown(); err != nil {
		viol = append(viol, "Shutdown: "+err.Error())
	}
	<-exited
	stoppedEmit("between Shutdown and the second Serve")
	time.Sleep(time.Duration(c.Down) * time.Millisecond)
	synctest.Wait()
	s.SetQueryEventDuration(time.Duration(c.D2) * time.Millisecond)
	exited = serve()
	for _, rid := range c.Emit2 {
		emit(rid, 2)
		time.Sleep(time.Millisecond)
	}
	if c.Req2 {
		mu.Lock()
		var subjects []string
		for _, qe := range evs {
			if qe.cycle == 2 && qe.subject != "" {
				subjects = append(subjects, qe.subject)
			}
		}
		mu.Unlock()
		for i, subj := range subjects {
			reply := fmt.Sprintf("_INBOX.rr%d", i)
			n := conns[1].Deliver(subj, reply, []byte(`{"query":"a=b"}`))
			synctest.Wait()
			if got := len(conns[1].Published(reply)); n != 1 || got != 1 {
				viol = append(viol, fmt.Sprintf("query request on an active query event of the second cycle: delivered to %d subscriptions, %d responses", n, got))
			}
		}
	}
	long := c.D1
	if c.D2 > long {
		long = c.D2
	}
	time.Sleep(time.Duration(long)*time.Millisecond + time.Second)
	synctest.Wait()
	mu.Lock()
	for i, qe := range evs {
		d := time.Duration(c.D1) * time.Millisecond
		if qe.cycle == 2 {
			d = time.Duration(c.D2) * time.Millisecond
		}
		activeAtShutdown := qe.cycle == 1 && !qe.emit.Add(d).Before(shutdownAt)
		if activeAtShutdown {
			nontrivial = true
			if len(qe.nilTimes) > 1 {
				viol = append(viol, fmt.Sprintf("query event %d on %s was active at Shutdown; its callback got nil %d times", i, qe.rid, len(qe.nilTimes)))
			}
			continue
		}
		if len(qe.nilTimes) != 1 {
			viol = append(viol, fmt.Sprintf("query event %d on %s (cycle %d, duration %v): callback invoked with nil %d times while the service was running, expected exactly once", i, qe.rid, qe.cycle, d, len(qe.nilTimes)))
			continue
		}
		if lag := qe.nilTimes[0].Sub(qe.emit); lag < d || lag > d+5*time.Millisecond {
			viol = append(viol, fmt.Sprintf("query event %d on %s (cycle %d): the configured duration is %v, the nil call came after %v", i, qe.rid, qe.cycle, d, lag))
		}
	}
	mu.Unlock()
	if e, st := atomic.LoadInt64(&exits), atomic.LoadInt64(&starts); e != st {
		viol = append(viol, fmt.Sprintf("%d query listener goroutines were started over two Serve cycles but only %d have exited after every duration has passed (goroutine, channel and subscription not released)", st, e))
	}
	if c.D1 != c.D2 && len(c.Emit2) > 0 {
		nontrivial = true
	}
	_ = s.Shutdown()
	<-exited
	return viol, nontrivial
}

// TestPropRestart: query events across Shutdown and a second Serve (restart with a
// changed duration, query events still active at Shutdown).
func TestPropRestart(t *testing.T) {
	ridList := []string{"svc.q.1", "svc.q.2", "svc.qs.1", "svc.qs.2", "svc.qp.1"}
	durs := []int{200, 1000, 3000}
	rapid.Check(t, func(rt *rapid.T) {
		c := RCase{
			Workers: rapid.IntRange(1, 3).Draw(rt, "workers"),
			D1:      rapid.SampledFrom(durs).Draw(rt, "d1"),
			D2:      rapid.SampledFrom(durs).Draw(rt, "d2"),
			Emit1:   rapid.SliceOfN(rapid.SampledFrom(ridList), 0, 3).Draw(rt, "emit1"),
			Wait1:   rapid.SampledFrom([]int{0, 100, 500, 1500, 4000}).Draw(rt, "wait1"),
			Down:    rapid.SampledFrom([]int{0, 50, 2000, 5000}).Draw(rt, "down"),
			Emit2:   rapid.SliceOfN(rapid.SampledFrom(ridList), 0, 3).Draw(rt, "emit2"),
			Req2:    rapid.Bool().Draw(rt, "req2"),
			Stopped: rapid.SampledFrom([]int{0, 0, 1, 2}).Draw(rt, "stopped"),
			Backlog: rapid.IntRange(0, 2).Draw(rt, "backlog") == 0,
		}
		var viol []string
		var nt bool
		func() {
			defer func() {
				if v := recover(); v != nil {
					viol = append(viol, fmt.Sprintf("bubble ended abnormally: %v", v))
				}
			}()
			synctest.Test(t, func(*testing.T) { viol, nt = runRestart(c) })
		}()
		ev.Case(nt, evid.Hash("restart", c.String()), "restart-scenario")
		if len(viol) > 0 {
			rt.Fatalf("%s\ncase: %s", viol[0], c)
		}
	})
}

// runLongHistory emits n query events one after another (some overlapping), lets each
// expire, and checks that nothing accumulates: one nil call per event, every listener
// goroutine gone.
func runLongHistory(durMs int, workers int, gaps []int, reqEvery int) (viol []string) {
	var mu sync.Mutex
	var exits int64
	res.VerifHook = func(point string, arg interface{}) {
		if point == "qlistener.exit" {
			atomic.AddInt64(&exits, 1)
		}
	}
	defer func() { res.VerifHook = nil }()
	s := res.NewService("svc")
	s.SetWorkerCount(workers)
	s.SetLogger(nil)
	s.SetQueryEventDuration(time.Duration(durMs) * time.Millisecond)
	get := res.GetResource(func(r res.GetRequest) { r.NotFound() })
	s.Handle("q.$id", res.Model, get)
	s.Handle("qs.$id", res.Collection, get, res.Group("shared"))
	conn := fakeconn.New()
	var subjects []string
	conn.OnPublish = func(e fakeconn.Entry) {
		if strings.HasPrefix(e.Subject, "event.") && strings.HasSuffix(e.Subject, ".query") {
			var p struct{ Subject string }
			_ = json.Unmarshal(e.Data, &p)
			mu.Lock()
			subjects = append(subjects, p.Subject)
			mu.Unlock()
		}
	}
	served := make(chan struct{})
	s.SetOnServe(func(*res.Service) { close(served) })
	exited := make(chan struct{})
	go func() { _ = s.Serve(conn); close(exited) }()
	<-served
	nils := make([]int, len(gaps))
	reqs := 0
	for i, gap := range gaps {
		i := i
		rid := []string{"svc.q.1", "svc.q.2", "svc.qs.1", "svc.qs.2"}[i%4]
		done := make(chan struct{})
		if err := s.With(rid, func(r res.Resource) {
			defer close(done)
			r.QueryEvent(func(qr res.QueryRequest) {
				mu.Lock()
				defer mu.Unlock()
				if qr == nil {
					nils[i]++
					return
				}
				if nils[i] > 0 {
					viol = append(viol, fmt.Sprintf("query event %d: request callback after the nil call", i))
				}
				qr.NotFound()
			})
		}); err != nil {
			return append(viol, "With: "+err.Error())
		}
		<-done
		synctest.Wait()
		if reqEvery > 0 && i%reqEvery == 0 {
			mu.Lock()
			subj := subjects[len(subjects)-1]
			mu.Unlock()
			reply := fmt.Sprintf("_INBOX.lh%d", i)
			n := conn.Deliver(subj, reply, []byte(`{"query":"a=b"}`))
			synctest.Wait()
			if got := len(conn.Published(reply)); n != 1 || got != 1 {
				viol = append(viol, fmt.Sprintf("query event %d: request delivered to %d subscriptions, %d responses", i, n, got))
			}
			reqs++
		}
		time.Sleep(time.Duration(gap) * time.Millisecond)
		synctest.Wait()
	}
	time.Sleep(time.Duration(durMs)*time.Millisecond + time.Second)
	synctest.Wait()
	mu.Lock()
	for i, n := range nils {
		if n != 1 {
			viol = append(viol, fmt.Sprintf("query event %d of %d: callback invoked with nil %d times, expected exactly once", i, len(gaps), n))
			break
		}
	}
	mu.Unlock()
	if e := atomic.LoadInt64(&exits); int(e) != len(gaps) {
		viol = append(viol, fmt.Sprintf("%d query events expired but only %d listener goroutines exited", len(gaps), e))
	}
	// (subscription release is observed on a real NATS connection in TestRealNATSRelease;
	// the in-memory connection cannot see Unsubscribe on the handles it returns)
	_ = s.Shutdown()
	<-exited
	return viol
}

// TestPropLongHistory: long histories of expired query events.
func TestPropLongHistory(t *testing.T) {
	rapid.Check(t, func(rt *rapid.T) {
		dur := rapid.SampledFrom([]int{50, 300, 1000}).Draw(rt, "dur")
		workers := rapid.IntRange(1, 3).Draw(rt, "workers")
		n := rapid.IntRange(20, 300).Draw(rt, "events")
		gapPool := rapid.SampledFrom([][]int{{0, 1}, {0, 10, 60}, {dur, dur + 1, dur - 1}, {0, 0, 0, 2 * dur}}).Draw(rt, "gaps")
		gaps := make([]int, n)
		for i := range gaps {
			gaps[i] = gapPool[rapid.IntRange(0, len(gapPool)-1).Draw(rt, "gap")]
		}
		reqEvery := rapid.SampledFrom([]int{0, 1, 3, 10}).Draw(rt, "reqEvery")
		var viol []string
		func() {
			defer func() {
				if v := recover(); v != nil {
					viol = append(viol, fmt.Sprintf("bubble ended abnormally: %v", v))
				}
			}()
			synctest.Test(t, func(*testing.T) { viol = runLongHistory(dur, workers, gaps, reqEvery) })
		}()
		ev.Case(n >= 100, evid.Hash("long", dur, workers, fmt.Sprint(gaps), reqEvery), "long-history")
		ev.Add("long-history-query-events", int64(n))
		if len(viol) > 0 {
			rt.Fatalf("%s\n(%d query events, duration %dms, %d workers)", viol[0], n, dur, workers)
		}
	})
}

// ---- connection faults -------------------------------------------------------------

type faultReq struct {
	Behav     string `json:"behav"` // model notfound error panic nothing invalid
	FailReply bool   `json:"failReply,omitempty"`
}

type faultEvent struct {
	RID         string     `json:"rid"`
	FailPublish bool       `json:"failPublish,omitempty"` // the publish of the query event itself fails
	Reqs        []faultReq `json:"reqs"`
}

// runFaults: query events on a connection that refuses single publishes. A query event
// whose own publish failed still gets its one nil call and is released; a query request
// whose reply could not be published gets nothing else instead.
func runFaults(durMs int, evs []faultEvent) (viol []string) {
	var mu sync.Mutex
	var exits int64
	res.VerifHook = func(point string, arg interface{}) {
		if point == "qlistener.exit" {
			atomic.AddInt64(&exits, 1)
		}
	}
	defer func() { res.VerifHook = nil }()
	s := res.NewService("svc")
	s.SetWorkerCount(2)
	s.SetLogger(nil)
	s.SetQueryEventDuration(time.Duration(durMs) * time.Millisecond)
	get := res.GetResource(func(r res.GetRequest) { r.NotFound() })
	s.Handle("q.$id", res.Model, get)
	conn := fakeconn.New()
	failOnce := map[string]bool{} // subject (or "*query") -> fail the next publish on it
	conn.FailPublish = func(subject string, n int) error {
		mu.Lock()
		defer mu.Unlock()
		key := subject
		if strings.HasPrefix(subject, "event.") && strings.HasSuffix(subject, ".query") {
			key = "*query"
		}
		if failOnce[key] {
			delete(failOnce, key)
			return fmt.Errorf("injected publish failure")
		}
		return nil
	}
	var lastSubject string
	conn.OnPublish = func(e fakeconn.Entry) {
		if strings.HasPrefix(e.Subject, "event.") && strings.HasSuffix(e.Subject, ".query") {
			var p struct{ Subject string }
			_ = json.Unmarshal(e.Data, &p)
			mu.Lock()
			lastSubject = p.Subject
			mu.Unlock()
		}
	}
	served := make(chan struct{})
	s.SetOnServe(func(*res.Service) { close(served) })
	exited := make(chan struct{})
	go func() { _ = s.Serve(conn); close(exited) }()
	<-served
	nils := make([]int, len(evs))
	listeners := 0
	nreq := 0
	for i, fe := range evs {
		i, fe := i, fe
		mu.Lock()
		lastSubject = ""
		if fe.FailPublish {
			failOnce["*query"] = true
		}
		mu.Unlock()
		behav := map[string]faultReq{}
		done := make(chan struct{})
		if err := s.With(fe.RID, func(r res.Resource) {
			defer close(done)
			r.QueryEvent(func(qr res.QueryRequest) {
				if qr == nil {
					mu.Lock()
					nils[i]++
					mu.Unlock()
					return
				}
				mu.Lock()
				b := behav[qr.Query()]
				mu.Unlock()
				switch b.Behav {
				case "model":
					qr.Model(map[string]int{"a": 1})
				case "notfound":
					qr.NotFound()
				case "error":
					qr.Error(&res.Error{Code: "custom.e", Message: "E"})
				case "invalid":
					qr.InvalidQuery("bad")
				case "panic":
					panic("boom")
				}
			})
		}); err != nil {
			return append(viol, "With: "+err.Error())
		}
		<-done
		synctest.Wait()
		listeners++
		mu.Lock()
		subj := lastSubject
		mu.Unlock()
		if fe.FailPublish {
			if subj != "" {
				viol = append(viol, fmt.Sprintf("query event %d: the publish was refused but a query event reached the connection", i))
			}
			continue
		}
		if subj == "" {
			viol = append(viol, fmt.Sprintf("query event %d: nothing published", i))
			continue
		}
		for j, rq := range fe.Reqs {
			q := fmt.Sprintf("e=%d&r=%d", i, j)
			reply := fmt.Sprintf("_INBOX.f%d.%d", i, j)
			mu.Lock()
			behav[q] = rq
			if rq.FailReply {
				failOnce[reply] = true
			}
			mu.Unlock()
			n := conn.Deliver(subj, reply, []byte(fmt.Sprintf(`{"query":%q}`, q)))
			synctest.Wait()
			nreq++
			got := conn.Published(reply)
			switch {
			case n != 1:
				viol = append(viol, fmt.Sprintf("query request %d/%d delivered to %d subscriptions", i, j, n))
			case rq.FailReply && len(got) != 0:
				viol = append(viol, fmt.Sprintf("query request %d/%d (%s): the connection refused its reply; afterwards %d other message(s) were published on its reply subject: %s", i, j, rq.Behav, len(got), got[0].Data))
			case !rq.FailReply && len(got) != 1:
				viol = append(viol, fmt.Sprintf("query request %d/%d (%s) got %d responses", i, j, rq.Behav, len(got)))
			}
		}
	}
	time.Sleep(time.Duration(durMs)*time.Millisecond + time.Second)
	synctest.Wait()
	mu.Lock()
	for i, n := range nils {
		if n != 1 {
			viol = append(viol, fmt.Sprintf("query event %d (its own publish refused=%v): callback invoked with nil %d times, expected exactly once", i, evs[i].FailPublish, n))
			break
		}
	}
	mu.Unlock()
	if e := atomic.LoadInt64(&exits); int(e) != listeners {
		viol = append(viol, fmt.Sprintf("%d query events were subscribed but %d listener goroutines exited", listeners, e))
	}
	_ = s.Shutdown()
	<-exited
	return viol
}

// TestPropPublishFaults: single refused publishes (of a query event, of a query reply).
func TestPropPublishFaults(t *testing.T) {
	rapid.Check(t, func(rt *rapid.T) {
		dur := rapid.SampledFrom([]int{100, 1000}).Draw(rt, "dur")
		n := rapid.IntRange(1, 4).Draw(rt, "events")
		var evs []faultEvent
		faults := 0
		for i := 0; i < n; i++ {
			fe := faultEvent{RID: rapid.SampledFrom([]string{"svc.q.1", "svc.q.2"}).Draw(rt, "rid"), FailPublish: rapid.IntRange(0, 3).Draw(rt, "failpub") == 0}
			k := rapid.IntRange(0, 4).Draw(rt, "nreq")
			for j := 0; j < k; j++ {
				fr := faultReq{Behav: rapid.SampledFrom([]string{"model", "notfound", "error", "invalid", "panic", "nothing"}).Draw(rt, "behav"), FailReply: rapid.IntRange(0, 2).Draw(rt, "failreply") == 0}
				if fr.FailReply {
					faults++
				}
				fe.Reqs = append(fe.Reqs, fr)
			}
			if fe.FailPublish {
				faults++
			}
			evs = append(evs, fe)
		}
		var viol []string
		func() {
			defer func() {
				if v := recover(); v != nil {
					viol = append(viol, fmt.Sprintf("bubble ended abnormally: %v", v))
				}
			}()
			synctest.Test(t, func(*testing.T) { viol = runFaults(dur, evs) })
		}()
		b, _ := json.Marshal(evs)
		ev.Case(faults > 0, evid.Hash("faults", dur, string(b)), "publish-faults")
		if len(viol) > 0 {
			rt.Fatalf("%s\nevents: %s", viol[0], b)
		}
	})
}

// TestPropExpiryDuringShutdown: a callback of the resource's group is still running (it
// emitted a query event and has not returned yet) when Shutdown is called; the query event
// expires while Shutdown waits for that callback. The final nil call is a callback of the
// group like any other: it must not run while the other callback is still running, and it
// runs at most once.
func TestPropExpiryDuringShutdown(t *testing.T) {
	rapid.Check(t, func(rt *rapid.T) {
		workers := rapid.IntRange(1, 4).Draw(rt, "workers")
		dur := rapid.SampledFrom([]int{1, 50, 1000}).Draw(rt, "durationMs")
		shutdownFirst := rapid.Bool().Draw(rt, "shutdownBeforeExpiry")
		grouped := rapid.Bool().Draw(rt, "sharedGroup")
		var msg string
		func() {
			defer func() {
				if v := recover(); v != nil {
					msg = fmt.Sprintf("bubble ended abnormally: %v", v)
				}
			}()
			synctest.Test(t, func(*testing.T) {
				s := res.NewService("svc")
				s.SetWorkerCount(workers)
				s.SetLogger(nil)
				s.SetQueryEventDuration(time.Duration(dur) * time.Millisecond)
				opts := []res.Option{res.GetResource(func(r res.GetRequest) { r.NotFound() })}
				if grouped {
					opts = append(opts, res.Group("shared"))
				}
				s.Handle("q.$id", opts...)
				conn := fakeconn.New()
				served := make(chan struct{})
				s.SetOnServe(func(*res.Service) { close(served) })
				ret := make(chan error, 1)
				go func() { ret <- s.Serve(conn) }()
				<-served
				var mu sync.Mutex
				running, nils, overlap := false, 0, false
				release := make(chan struct{})
				started := make(chan struct{})
				_ = s.With("svc.q.1", func(r res.Resource) {
					mu.Lock()
					running = true
					mu.Unlock()
					r.QueryEvent(func(qr res.QueryRequest) {
						if qr != nil {
							return
						}
						mu.Lock()
						nils++
						if running {
							overlap = true
						}
						mu.Unlock()
					})
					close(started)
					<-release
					mu.Lock()
					running = false
					mu.Unlock()
				})
				<-started
				shut := make(chan struct{})
				if shutdownFirst {
					go func() { _ = s.Shutdown(); close(shut) }()
					synctest.Wait()
					time.Sleep(time.Duration(dur)*time.Millisecond + time.Millisecond)
				} else {
					time.Sleep(time.Duration(dur)*time.Millisecond + time.Millisecond)
					synctest.Wait()
					go func() { _ = s.Shutdown(); close(shut) }()
				}
				synctest.Wait()
				close(release)
				<-shut
				<-ret
				synctest.Wait()
				mu.Lock()
				defer mu.Unlock()
				switch {
				case overlap:
					msg = "the final nil call of the query event ran while another callback of the same group was still running"
				case nils > 1:
					msg = fmt.Sprintf("the callback was invoked with nil %d times", nils)
				}
			})
		}()
		ev.Case(true, evid.Hash("expiry-during-shutdown", workers, dur, shutdownFirst, grouped), "expiry-during-shutdown")
		if msg != "" {
			rt.Fatalf("%s (workers %d, duration %dms, Shutdown called before the expiry: %v, shared group: %v)", msg, workers, dur, shutdownFirst, grouped)
		}
	})
}
