package c09

import (
	"encoding/json"
	"fmt"
	"sort"
	"sync"
	"sync/atomic"
	"testing"

	res "github.com/jirenius/go-res"
	"pgregory.net/rapid"

	"verifharness/internal/evid"
	"verifharness/internal/fakeconn"
	"verifharness/internal/svc"
)

// TestPropConcurrentResets: ResetAll and Reset called at the same time from several
// goroutines (handlers do that, each on its worker). Every system.reset on the connection is
// the event of one of the calls: ResetAll lists exactly the owned patterns, Reset exactly the
// patterns it was given; the events as a multiset are those of the calls made.
func TestPropConcurrentResets(t *testing.T) {
	rapid.Check(t, func(t *rapid.T) {
		explicit := rapid.Bool().Draw(t, "explicit")
		callers := rapid.IntRange(2, 6).Draw(t, "callers")
		rounds := rapid.IntRange(20, 120).Draw(t, "rounds")
		s := res.NewService("svc")
		s.SetLogger(nil)
		s.Handle("m.$id", res.Access(res.AccessGranted), res.GetModel(func(r res.ModelRequest) { r.NotFound() }))
		wantRes, wantAcc := []string{"svc", "svc.>"}, []string{"svc", "svc.>"}
		if explicit {
			wantRes, wantAcc = []string{"svc.m.*", "svc.k.>"}, []string{"svc.m.>"}
			s.SetOwnedResources(wantRes, wantAcc)
		}
		conn := fakeconn.New()
		r, err := svc.StartNoLog(s, conn, nil)
		if err != nil {
			t.Fatalf("%v", err)
		}
		start := conn.LogLen()
		want := map[string]int{}
		key := func(resources, access []string) string {
			b, _ := json.Marshal(map[string][]string{"r": resources, "a": access})
			return string(b)
		}
		var mu sync.Mutex
		for round := 0; round < rounds; round++ {
			var aligned int32
			var wg sync.WaitGroup
			for g := 0; g < callers; g++ {
				wg.Add(1)
				go func(g int) {
					defer wg.Done()
					all := (g+round)%3 == 0
					var rs, as []string
					if !all {
						rs = []string{fmt.Sprintf("svc.m.r%d-%d", round, g), fmt.Sprintf("svc.m.x%d-%d", round, g)}
						if g%2 == 0 {
							as = []string{fmt.Sprintf("svc.m.a%d-%d", round, g)}
						}
					}
					atomic.AddInt32(&aligned, 1)
					for k := 0; k < 1000000 && atomic.LoadInt32(&aligned) < int32(callers); k++ {
					}
					if all {
						s.ResetAll()
						mu.Lock()
						want[key(wantRes, wantAcc)]++
						mu.Unlock()
					} else {
						s.Reset(rs, as)
						mu.Lock()
						want[key(rs, as)]++
						mu.Unlock()
					}
				}(g)
			}
			wg.Wait()
		}
		got := map[string]int{}
		for _, e := range conn.LogFrom(start) {
			if e.Kind != "pub" || e.Subject != "system.reset" {
				continue
			}
			var ev struct {
				Resources []string `json:"resources"`
				Access    []string `json:"access"`
			}
			if err := json.Unmarshal(e.Data, &ev); err != nil {
				_ = r.Stop()
				t.Fatalf("system.reset with payload %s: %v", e.Data, err)
			}
			got[key(ev.Resources, ev.Access)]++
		}
		_ = r.Stop()
		var diff []string
		for k, n := range got {
			if want[k] != n {
				diff = append(diff, fmt.Sprintf("%s published %d times, called for %d times", k, n, want[k]))
			}
		}
		for k, n := range want {
			if got[k] == 0 {
				diff = append(diff, fmt.Sprintf("%s called for %d times, never published", k, n))
			}
		}
		sort.Strings(diff)
		if len(diff) > 0 {
			if len(diff) > 6 {
				diff = diff[:6]
			}
			t.Fatalf("%d goroutines calling ResetAll / Reset at the same time, %d rounds: the system.reset events are not those of the calls: %v", callers, rounds, diff)
		}
		ev.Case(true, evid.Hash("concresets", explicit, callers, rounds), "concurrent-resets")
		ev.Add("concurrent-reset-calls", int64(callers*rounds))
	})
}
