package cidx

import (
	"encoding/json"
	"fmt"
	"net/url"
	"sort"
	"strings"
	"testing"
	"time"

	res "github.com/jirenius/go-res"
	"github.com/jirenius/go-res/store"
	"github.com/jirenius/go-res/store/mockstore"
	"pgregory.net/rapid"

	"verifharness/internal/evid"
	"verifharness/internal/fakeconn"
	"verifharness/internal/svc"
)

// MCase is a handler-level case over a mock QueryStore that reports fine-grained events.
type MCase struct {
	Model bool     `json:"model"`
	Held  []string `json:"held"`
	Steps []MStep  `json:"steps"`
}

// MStep replaces the set of ids of the store.
type MStep struct {
	IDs   []string `json:"ids"`   // the new sorted id list
	Reset bool     `json:"reset"` // report reset instead of events
}

func (c MCase) String() string { b, _ := json.Marshal(c); return string(b) }

func filterIDs(ids []string, prefix string) []string {
	out := []string{}
	for _, id := range ids {
		if strings.HasPrefix(id, prefix) {
			out = append(out, id)
		}
	}
	return out
}

// diffEvents computes remove/add events turning a into b (both sorted, distinct).
func diffEvents(a, b []string) []store.ResultEvent {
	var evs []store.ResultEvent
	cur := append([]string(nil), a...)
	inB := map[string]bool{}
	for _, x := range b {
		inB[x] = true
	}
	for i := len(cur) - 1; i >= 0; i-- {
		if !inB[cur[i]] {
			evs = append(evs, store.ResultEvent{Name: "remove", Idx: i, Value: cur[i]})
			cur = append(cur[:i:i], cur[i+1:]...)
		}
	}
	for i, x := range b {
		if i >= len(cur) || cur[i] != x {
			evs = append(evs, store.ResultEvent{Name: "add", Idx: i, Value: x})
			cur = append(cur[:i:i], append([]string{x}, cur[i:]...)...)
		}
	}
	return evs
}

func runMock(c MCase) (msg string, nontrivial bool) {
	ids := []string{}
	qs := mockstore.NewQueryStore(func(q url.Values) (interface{}, error) {
		return filterIDs(ids, q.Get("prefix")), nil
	})
	toRID := func(id string) string { return "svc.item." + id }
	var trans store.QueryTransformer = store.IDToRIDCollectionTransformer(toRID)
	typ := res.Collection
	if c.Model {
		trans = store.IDToRIDModelTransformer(toRID)
		typ = res.Model
	}
	s := res.NewService("svc")
	s.SetWorkerCount(2)
	s.SetQueryEventDuration(20 * time.Second)
	s.Handle("all", typ, store.QueryHandler{QueryStore: qs, Transformer: trans,
		RequestHandler: func(string, map[string]string) (url.Values, error) { return url.Values{"prefix": {""}}, nil }})
	s.Handle("by.$p", typ, store.QueryHandler{QueryStore: qs, Transformer: trans,
		RequestHandler: func(rn string, pp map[string]string) (url.Values, error) {
			return url.Values{"prefix": {pp["p"]}}, nil
		},
		AffectedResources: func(p res.Pattern, qc store.QueryChange) []string {
			return []string{string(p.ReplaceTag("p", "a")), string(p.ReplaceTag("p", "b")), string(p.ReplaceTag("p", "ab"))}
		}})
	s.Handle("search", typ, store.QueryHandler{QueryStore: qs, Transformer: trans,
		QueryRequestHandler: func(rn string, pp map[string]string, q url.Values) (url.Values, string, error) {
			return url.Values{"prefix": {q.Get("prefix")}}, "prefix=" + q.Get("prefix"), nil
		}})
	conn := fakeconn.New()
	rn, err := svc.Start(s, conn, nil)
	if err != nil {
		return "start: " + err.Error(), false
	}
	defer rn.Stop()
	get := func(rid string) (string, error) {
		name, q := rid, ""
		if i := strings.IndexByte(rid, '?'); i >= 0 {
			name, q = rid[:i], rid[i+1:]
		}
		payload, _ := json.Marshal(map[string]string{"query": q})
		reply, n := rn.Send("get."+name, payload)
		if n != 1 {
			return "", fmt.Errorf("get not delivered")
		}
		if err := rn.WaitDone(reply, 1); err != nil {
			return "", err
		}
		_, resp := rn.Replies(reply)
		var p struct {
			Result *struct{ Model, Collection json.RawMessage }
		}
		if len(resp) != 1 || json.Unmarshal(resp[0], &p) != nil || p.Result == nil {
			return "", svc.Behaviour(fmt.Sprintf("a get of %s is answered with %q", rid, resp))
		}
		if c.Model {
			return canon(p.Result.Model), nil
		}
		return canon(p.Result.Collection), nil
	}
	// client-side application of events to a cached collection / model
	applyColl := func(cur string, name string, data json.RawMessage) (string, string) {
		var l []json.RawMessage
		_ = json.Unmarshal([]byte(cur), &l)
		var p struct {
			Value json.RawMessage
			Idx   int
		}
		_ = json.Unmarshal(data, &p)
		switch name {
		case "add":
			if p.Idx < 0 || p.Idx > len(l) {
				return cur, fmt.Sprintf("add idx %d out of range for %s", p.Idx, cur)
			}
			l = append(l[:p.Idx:p.Idx], append([]json.RawMessage{p.Value}, l[p.Idx:]...)...)
		case "remove":
			if p.Idx < 0 || p.Idx >= len(l) {
				return cur, fmt.Sprintf("remove idx %d out of range for %s", p.Idx, cur)
			}
			l = append(l[:p.Idx:p.Idx], l[p.Idx+1:]...)
		default:
			return cur, "unexpected event " + name + " on a collection"
		}
		if l == nil {
			l = []json.RawMessage{}
		}
		b, _ := json.Marshal(l)
		return canon(b), ""
	}
	applyModel := func(cur string, name string, data json.RawMessage) (string, string) {
		if name != "change" {
			return cur, "unexpected event " + name + " on a model"
		}
		var m map[string]json.RawMessage
		_ = json.Unmarshal([]byte(cur), &m)
		var p struct{ Values map[string]json.RawMessage }
		_ = json.Unmarshal(data, &p)
		for k, v := range p.Values {
			if canon(v) == `{"action":"delete"}` {
				delete(m, k)
			} else {
				m[k] = v
			}
		}
		b, _ := json.Marshal(m)
		return canon(b), ""
	}
	apply := applyColl
	if c.Model {
		apply = applyModel
	}
	cache := map[string]string{}
	for _, rid := range c.Held {
		v, err := get(rid)
		if err != nil {
			return svc.Verdict(err), false
		}
		cache[rid] = v
	}
	replySeq := 0
	for i, st := range c.Steps {
		before := append([]string(nil), ids...)
		after := append([]string(nil), st.IDs...)
		sort.Strings(after)
		ids = after
		mark := conn.LogLen()
		qs.TriggerQueryChange(mockstore.QueryChange{IDValue: "x", OnEvents: func(q url.Values) ([]store.ResultEvent, bool, error) {
			if st.Reset {
				return nil, true, nil
			}
			return diffEvents(filterIDs(before, q.Get("prefix")), filterIDs(after, q.Get("prefix"))), false, nil
		}})
		log := conn.LogFrom(mark)
		for _, rid := range c.Held {
			name, q := rid, ""
			if j := strings.IndexByte(rid, '?'); j >= 0 {
				name, q = rid[:j], rid[j+1:]
			}
			fresh, err := get(rid)
			if err != nil {
				return svc.Verdict(err), nontrivial
			}
			for _, e := range log {
				if e.Kind != "pub" {
					continue
				}
				switch {
				case e.Subject == "system.reset":
					var p struct{ Resources []string }
					_ = json.Unmarshal(e.Data, &p)
					for _, r := range p.Resources {
						if res.Pattern(r).Matches(name) {
							cache[rid] = fresh
						}
					}
				case e.Subject == "event."+name+".query":
					var p struct{ Subject string }
					_ = json.Unmarshal(e.Data, &p)
					replySeq++
					reply := fmt.Sprintf("_INBOX.mq%d", replySeq)
					payload, _ := json.Marshal(map[string]string{"query": "prefix=" + strings.TrimPrefix(q, "prefix=")})
					resps, err := rn.QueryResponse(name, p.Subject, reply, payload)
					if err != nil {
						return err.Error(), nontrivial
					}
					if len(resps) != 1 {
						return fmt.Sprintf("the query request %s on the query event of %s got %d responses (a callback queued behind it on the resource has run): %q", payload, name, len(resps), resps), true
					}
					var qr struct {
						Result *struct {
							Events []struct {
								Event string
								Data  json.RawMessage
							}
							Model, Collection json.RawMessage
						}
					}
					data := resps[0]
					_ = json.Unmarshal(data, &qr)
					if qr.Result == nil {
						return fmt.Sprintf("step %d: query response %s", i, data), nontrivial
					}
					if qr.Result.Collection != nil {
						cache[rid] = canon(qr.Result.Collection)
					} else if qr.Result.Model != nil {
						cache[rid] = canon(qr.Result.Model)
					}
					for _, ev := range qr.Result.Events {
						var m string
						cache[rid], m = apply(cache[rid], ev.Event, ev.Data)
						if m != "" {
							return fmt.Sprintf("step %d (%v -> %v) resource %s: query response event: %s (response %s)", i, before, after, rid, m, data), nontrivial
						}
					}
				case strings.HasPrefix(e.Subject, "event."+name+".") && q == "":
					evName := e.Subject[strings.LastIndexByte(e.Subject, '.')+1:]
					var m string
					cache[rid], m = apply(cache[rid], evName, e.Data)
					if m != "" {
						return fmt.Sprintf("step %d (%v -> %v) resource %s: %s", i, before, after, rid, m), nontrivial
					}
				}
			}
			if cache[rid] != fresh {
				return fmt.Sprintf("step %d (%v -> %v, reset=%v): after applying what was published for %s the client holds %s, a fresh get returns %s", i, before, after, st.Reset, rid, cache[rid], fresh), true
			}
			if fmt.Sprint(before) != fmt.Sprint(after) {
				nontrivial = true
			}
		}
	}
	return "", nontrivial
}

func TestC14HandlerMockEvents(t *testing.T) {
	ev := evid.For("C14")
	ev.SetRule("handler-level cases over a mock QueryStore that reports fine-grained remove/add events (or reset): the QueryHandler must forward them (transformed to references, or to a model change with delete actions) so that the client reproduces a fresh get")
	rapid.Check(t, func(rt *rapid.T) {
		c := MCase{Model: rapid.Bool().Draw(rt, "model")}
		c.Held = rapid.SliceOfNDistinct(rapid.SampledFrom([]string{"svc.all", "svc.by.a", "svc.by.b", "svc.by.ab", "svc.search?prefix=a", "svc.search?prefix=", "svc.search?prefix=b"}), 1, 4, rapid.ID[string]).Draw(rt, "held")
		n := rapid.IntRange(1, 10).Draw(rt, "nsteps")
		pool := []string{"a", "a1", "ab", "abc", "b", "b2", "ba", "c"}
		for i := 0; i < n; i++ {
			c.Steps = append(c.Steps, MStep{IDs: rapid.SliceOfNDistinct(rapid.SampledFrom(pool), 0, 6, rapid.ID[string]).Draw(rt, "ids"), Reset: rapid.IntRange(0, 4).Draw(rt, "reset") == 0})
		}
		msg, nt := runMock(c)
		ev.Case(nt, evid.Hash("mock", c.String()), "handler-mock")
		if msg != "" {
			rt.Fatalf("%s\ncase: %s", msg, c)
		}
	})
}

var _ = fakeconn.New
