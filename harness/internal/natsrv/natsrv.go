// Package natsrv starts an embedded nats-server (v2.1.8, from the module cache)
// on a random loopback port.
package natsrv

import (
	"fmt"
	"time"

	"github.com/nats-io/nats-server/v2/server"
	nats "github.com/nats-io/nats.go"
)

// Server is a running embedded server.
type Server struct {
	S   *server.Server
	URL string
}

// Start starts a server.
func Start() (*Server, error) {
	opts := &server.Options{Host: "127.0.0.1", Port: -1, NoLog: true, NoSigs: true, MaxControlLine: 4096}
	s, err := server.NewServer(opts)
	if err != nil {
		return nil, err
	}
	go s.Start()
	if !s.ReadyForConnections(10 * time.Second) {
		return nil, fmt.Errorf("VERIF-INCONCLUSIVE: embedded nats-server did not start")
	}
	return &Server{S: s, URL: s.ClientURL()}, nil
}

// Connect returns a new client connection.
func (s *Server) Connect() (*nats.Conn, error) {
	return nats.Connect(s.URL, nats.MaxReconnects(0), nats.Timeout(5*time.Second))
}

// Stop shuts the server down.
func (s *Server) Stop() { s.S.Shutdown() }
