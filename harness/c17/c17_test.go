package c17

import (
	"encoding/json"
	"fmt"
	"os"
	"reflect"
	"strconv"
	"strings"
	"testing"

	res "github.com/jirenius/go-res"
	"github.com/jirenius/go-res/store"
	"pgregory.net/rapid"

	"verifharness/internal/evid"
	"verifharness/internal/refmux"
)

const prop = "C17"

func TestMain(m *testing.M) { os.Exit(evid.Main(m)) }

var ev = evid.For(prop)

func init() {
	ev.SetRule("pairs (pattern, name-or-pattern): bounded-exhaustive over all strings of length <=4 (quick) / <=5 (thorough) on the alphabet {a,b,.,$,*,>} plus a {a,.,?,$,*} sweep for resource ids, and rapid-generated longer strings over the full byte range with tag maps; a pair is non-trivial when it has a special character ($ * >) in a non-initial position of a token, or >=2 wildcard tokens in the pattern, or the second string is itself a pattern with a wildcard; distinct = distinct (pattern, string) pairs")
	ev.Assume("laws are evaluated only where the documentation defines behaviour: pattern valid, name a valid resource name or a valid pattern")
	ev.Assume("tokens consisting only of two or more '$' are documented nowhere; for them only mutual consistency (IsValid vs Handle) is asserted")
}

// panics reports whether f panics.
func panics(f func()) (p bool) {
	defer func() {
		if r := recover(); r != nil {
			p = true
		}
	}()
	f()
	return false
}

func nontrivialPair(p, s string) bool {
	wild := 0
	for _, t := range refmux.Tokens(p) {
		if k := refmux.Kind(t); k == refmux.Param || k == refmux.Any || k == refmux.Full {
			wild++
		}
		if len(t) > 1 && strings.ContainsAny(t[1:], "$*>") {
			return true
		}
	}
	if wild >= 2 {
		return true
	}
	for _, t := range refmux.Tokens(s) {
		if len(t) > 1 && strings.ContainsAny(t[1:], "$*>") {
			return true
		}
		if k := refmux.Kind(t); k == refmux.Param || k == refmux.Any || k == refmux.Full {
			return true
		}
	}
	return false
}

// checkPair evaluates the pair laws; returns a violation description or "".
func checkPair(p, s string) string {
	pat := res.Pattern(p)
	// L1/L2/L3: s as a plain resource name.
	if refmux.ValidName(s) {
		want := refmux.Match(p, s)
		if got := pat.Matches(s); got != want {
			return fmt.Sprintf("L1 Pattern(%q).Matches(%q)=%v, token-wise grammar says %v", p, s, got, want)
		}
		vals, ok := pat.Values(s)
		if ok != want {
			return fmt.Sprintf("L2 Pattern(%q).Values(%q) ok=%v but Matches/grammar says %v", p, s, ok, want)
		}
		if want {
			wp := refmux.Params(p, s)
			if len(vals) != len(wp) {
				return fmt.Sprintf("L2 Pattern(%q).Values(%q)=%v want %v", p, s, vals, wp)
			}
			for k, v := range wp {
				if vals[k] != v {
					return fmt.Sprintf("L2 Pattern(%q).Values(%q)=%v want %v", p, s, vals, wp)
				}
			}
			back := pat.ReplaceTags(vals)
			if dupParam(p) {
				// A placeholder used twice cannot be represented by a tag map
				// (registration rejects such patterns); no round trip is claimed.
			} else if !back.Matches(s) {
				return fmt.Sprintf("L3 Pattern(%q).ReplaceTags(%v)=%q does not match %q any more", p, vals, back, s)
			}
			if !dupParam(p) && !refmux.HasAnon(p) && string(back) != s {
				return fmt.Sprintf("L3 Pattern(%q).ReplaceTags(%v)=%q want the name %q", p, vals, back, s)
			}
		} else if vals != nil {
			return fmt.Sprintf("L2 Pattern(%q).Values(%q) returned a non-nil map %v without a match", p, s, vals)
		}
	}
	// L4: s as a pattern.
	if s != "" && refmux.PatternValidity(s) == refmux.Valid {
		want := refmux.Covers(p, s)
		if got := pat.Matches(s); got != want {
			return fmt.Sprintf("L4 Pattern(%q).Matches(pattern %q)=%v but covering (every name of the second matches the first) is %v", p, s, got, want)
		}
	}
	return ""
}

// checkSingle evaluates the single-string laws L0, L5, L6.
func checkSingle(p string) string {
	valid := res.Pattern(p).IsValid()
	switch refmux.PatternValidity(p) {
	case refmux.Valid:
		if !valid {
			return fmt.Sprintf("L0 Pattern(%q).IsValid()=false, grammar says valid", p)
		}
	case refmux.Invalid:
		if valid {
			return fmt.Sprintf("L0 Pattern(%q).IsValid()=true, grammar says invalid", p)
		}
	}
	// L6 registration agrees with IsValid.
	handlePanics := panics(func() {
		m := res.NewMux("")
		m.Handle(p, res.GetResource(func(res.GetRequest) {}))
	})
	// (a valid pattern that names the same placeholder twice is a documented
	// registration conflict, not an invalid pattern)
	if wantPanic := !valid || dupParam(p); handlePanics != wantPanic && p != "" {
		return fmt.Sprintf("L6 Pattern(%q).IsValid()=%v (duplicate placeholder=%v) but Handle on an empty mux panics=%v", p, valid, dupParam(p), handlePanics)
	}
	if valid {
		if got, want := res.Pattern(p).IndexWildcard(), refmux.IndexWildcard(p); got != want {
			return fmt.Sprintf("L5 Pattern(%q).IndexWildcard()=%d want %d", p, got, want)
		}
		// L6 path validity = valid and wildcard free.
		pathOK := !panics(func() { res.NewMux(p) })
		wantPath := refmux.IndexWildcard(p) == -1
		if pathOK != wantPath {
			return fmt.Sprintf("L6 NewMux(%q) accepted=%v, want %v (valid pattern, wildcard-free=%v)", p, pathOK, wantPath, wantPath)
		}
		if p != "" {
			mountOK := !panics(func() { res.NewMux("").Mount(p, res.NewMux("")) })
			if wantPath && !mountOK {
				return fmt.Sprintf("L6 Mount(%q) rejected a valid wildcard-free path", p)
			}
			if !wantPath && mountOK {
				return fmt.Sprintf("L6 Mount(%q) accepted a path with a wildcard or placeholder, which NewMux rejects as path", p)
			}
			routeOK := !panics(func() { res.NewMux("").Route(p, nil) })
			if routeOK != mountOK {
				return fmt.Sprintf("L6 Route(%q) accepted=%v but Mount accepted=%v", p, routeOK, mountOK)
			}
		}
	} else {
		if !panics(func() { res.NewMux(p) }) {
			return fmt.Sprintf("L6 NewMux(%q) accepted an invalid pattern as path", p)
		}
	}
	// L6 resource ids and name parts.
	if got, want := res.IsValidRID(p), refmux.ValidRID(p); got != want {
		return fmt.Sprintf("L6 IsValidRID(%q)=%v want %v", p, got, want)
	}
	if got, want := res.Ref(p).IsValid(), refmux.ValidRID(p); got != want {
		return fmt.Sprintf("L6 Ref(%q).IsValid()=%v want %v", p, got, want)
	}
	partOK := !panics(func() { res.Call(p, func(res.CallRequest) {}) })
	if want := refmux.ValidPart(p) || p == "*"; partOK != want {
		return fmt.Sprintf("L6 Call(%q) accepted=%v want %v", p, partOK, want)
	}
	authOK := !panics(func() { res.Auth(p, func(res.AuthRequest) {}) })
	if authOK != partOK {
		return fmt.Sprintf("L6 Auth(%q) accepted=%v but Call accepted=%v", p, authOK, partOK)
	}
	// A valid resource name is routable by a full-wildcard handler and by itself as pattern.
	if refmux.ValidName(p) {
		m := res.NewMux("")
		m.Handle(">", res.GetResource(func(res.GetRequest) {}))
		if m.GetHandler(p) == nil {
			return fmt.Sprintf("L6 valid resource name %q is not routed by a '>' handler", p)
		}
	}
	return ""
}

func dupParam(p string) bool {
	seen := map[string]bool{}
	for _, t := range refmux.Tokens(p) {
		if len(t) > 1 && t[0] == '$' {
			if seen[t] {
				return true
			}
			seen[t] = true
		}
	}
	return false
}

func allStrings(alpha string, maxLen int) []string {
	out := []string{""}
	prev := []string{""}
	for l := 1; l <= maxLen; l++ {
		var cur []string
		for _, s := range prev {
			for i := 0; i < len(alpha); i++ {
				cur = append(cur, s+string(alpha[i]))
			}
		}
		out = append(out, cur...)
		prev = cur
	}
	return out
}

func shard() (int, int) {
	i, _ := strconv.Atoi(os.Getenv("VERIF_SHARD"))
	n, _ := strconv.Atoi(os.Getenv("VERIF_SHARDS"))
	if n < 1 {
		n = 1
	}
	return i, n
}

// TestExhaustive enumerates the bounded space completely (sharded by pattern).
func TestExhaustive(t *testing.T) {
	if rp := os.Getenv("VERIF_REPLAY"); rp != "" {
		replayPair(t, rp)
		return
	}
	maxLen := evid.Pick(4, 5)
	all := allStrings("ab.$*>", maxLen)
	si, sn := shard()
	var pairs, nt, singles int64
	fails := 0
	for idx, p := range all {
		if idx%sn != si {
			continue
		}
		singles++
		if msg := checkSingle(p); msg != "" {
			evid.Violation(t, prop, "single", msg, map[string]string{"p": p})
			if fails++; fails > 3 {
				return
			}
		}
		if !res.Pattern(p).IsValid() || refmux.PatternValidity(p) != refmux.Valid {
			continue
		}
		for _, s := range all {
			pairs++
			if nontrivialPair(p, s) {
				nt++
			}
			if msg := checkPair(p, s); msg != "" {
				evid.Violation(t, prop, "pair", msg, map[string]string{"p": p, "s": s})
				if fails++; fails > 3 {
					return
				}
			}
		}
	}
	// resource-id sweep with '?'
	for idx, p := range allStrings("a.?$*", maxLen+1) {
		if idx%sn != si {
			continue
		}
		singles++
		if msg := checkSingle(p); msg != "" {
			evid.Violation(t, prop, "single", msg, map[string]string{"p": p})
			if fails++; fails > 3 {
				return
			}
		}
	}
	ev.CountDistinct(pairs+singles, nt)
	ev.Add("exhaustive_pairs", pairs)
	ev.Add("exhaustive_single_strings", singles)
	ev.SetExtra("exhaustive", true)
	ev.SetExtra("exhaustive_space", fmt.Sprintf("all strings of length <=%d over {a,b,.,$,*,>} as pattern x as name/pattern (%d strings); all strings of length <=%d over {a,.,?,$,*} for single-string laws", maxLen, len(all), maxLen+1))
	ev.Sample("exhaustive-pair", 2, func() interface{} { return map[string]string{"p": "a.$a", "s": "a.b", "laws": "L1-L4"} })
}

func replayPair(t *testing.T, path string) {
	_, raw, err := evid.LoadReplay(path)
	if err != nil {
		t.Fatal(err)
	}
	var c map[string]string
	_ = json.Unmarshal(raw, &c)
	if _, ok := c["s"]; ok {
		if msg := checkPair(c["p"], c["s"]); msg != "" {
			evid.Violation(t, prop, "pair", msg, c)
		}
	} else if msg := checkSingle(c["p"]); msg != "" {
		evid.Violation(t, prop, "single", msg, c)
	}
}

// ---- random generation beyond the bounded space ---------------------------

var tokAlpha = []string{"a", "b", "ab", "user", "x1", "$", "*", ">", "$id", "$a", "*a", "a*", "a$", "a$b", "$$", ">a", "a>", "?", " ", "\x7f", "é", "$é", "A-_~", "{}", "\\", "\"", "", "$a.b"}

func genToken() *rapid.Generator[string] {
	return rapid.OneOf(
		rapid.SampledFrom(tokAlpha),
		rapid.StringOfN(rapid.RuneFrom([]rune("ab$*>?.x")), 0, 4, -1),
		rapid.StringOfN(rapid.RuneFrom(asciiRunes), 1, 5, -1),
		rapid.StringN(0, 3, -1),
	)
}

func genDotted(minTok, maxTok int) *rapid.Generator[string] {
	return rapid.Custom(func(t *rapid.T) string {
		n := rapid.IntRange(minTok, maxTok).Draw(t, "ntok")
		toks := make([]string, n)
		for i := range toks {
			toks[i] = genToken().Draw(t, "tok")
		}
		return strings.Join(toks, ".")
	})
}

// genValidPattern builds a valid pattern by construction.
func genValidPattern() *rapid.Generator[string] {
	lit := rapid.OneOf(rapid.SampledFrom([]string{"a", "b", "ab", "user", "a$", "a$b", "x-1", "~", "a$$", "A{}"}), rapid.StringOfN(rapid.RuneFrom([]rune("abc$xyz-_")), 1, 6, -1).Filter(func(s string) bool { return s[0] != '$' }))
	return rapid.Custom(func(t *rapid.T) string {
		n := rapid.IntRange(1, 7).Draw(t, "ntok")
		toks := make([]string, n)
		used := map[string]bool{}
		for i := range toks {
			k := rapid.IntRange(0, 9).Draw(t, "kind")
			switch {
			case k <= 4:
				toks[i] = lit.Draw(t, "lit")
			case k <= 6:
				name := rapid.SampledFrom([]string{"id", "a", "b", "x$", "long-name_1", "k", "ID", "A", "Id", "$id"}).Draw(t, "pname") // (some differ in letter case only; one begins with the marker)
				// (one pattern in ten may name a placeholder twice: valid as a pattern, a
				// conflict only at registration)
				for used[name] && rapid.IntRange(0, 9).Draw(t, "dupok") != 0 {
					name += "x"
				}
				used[name] = true
				toks[i] = "$" + name
			case k <= 8:
				toks[i] = "*"
			default:
				if i == n-1 {
					toks[i] = ">"
				} else {
					toks[i] = lit.Draw(t, "lit")
				}
			}
		}
		return strings.Join(toks, ".")
	})
}

// instantiate derives a name (or near miss) from a pattern.
func genNameFor(p string) *rapid.Generator[string] {
	return rapid.Custom(func(t *rapid.T) string {
		var out []string
		part := rapid.OneOf(rapid.SampledFrom([]string{"a", "b", "zz", "$v", "a$b", "1", "~x"}), rapid.StringOfN(rapid.RuneFrom([]rune("abcz$-")), 1, 4, -1))
		for _, tk := range refmux.Tokens(p) {
			switch refmux.Kind(tk) {
			case refmux.Lit:
				out = append(out, tk)
			case refmux.Full:
				n := rapid.IntRange(1, 3).Draw(t, "nfull")
				for i := 0; i < n; i++ {
					out = append(out, part.Draw(t, "part"))
				}
			default:
				out = append(out, part.Draw(t, "part"))
			}
		}
		switch rapid.IntRange(0, 9).Draw(t, "edit") {
		case 0:
			if len(out) > 1 {
				i := rapid.IntRange(0, len(out)-1).Draw(t, "drop")
				out = append(out[:i:i], out[i+1:]...)
			}
		case 1:
			out = append(out, part.Draw(t, "extra"))
		case 2:
			if len(out) > 0 {
				out[rapid.IntRange(0, len(out)-1).Draw(t, "repl")] = part.Draw(t, "replv")
			}
		case 3:
			if len(out) > 0 {
				i := rapid.IntRange(0, len(out)-1).Draw(t, "mut")
				out[i] += "x"
			}
		}
		return strings.Join(out, ".")
	})
}

var asciiRunes, validPartRunes = func() (a, v []rune) {
	for c := rune(33); c <= 126; c++ {
		a = append(a, c)
		if c != '.' && c != '*' && c != '>' && c != '?' {
			v = append(v, c)
		}
	}
	return
}()

// TestPropRandomPairs: laws L0-L6 on random strings far outside the bounded space.
func TestPropRandomPairs(t *testing.T) {
	rapid.Check(t, func(t *rapid.T) {
		var p, s string
		mode := rapid.IntRange(0, 3).Draw(t, "mode")
		switch mode {
		case 0: // arbitrary dotted junk for the single-string laws
			p = genDotted(0, 5).Draw(t, "p")
			s = genDotted(0, 5).Draw(t, "s")
		case 1: // valid pattern, derived name
			p = genValidPattern().Draw(t, "p")
			s = genNameFor(p).Draw(t, "s")
		case 2: // valid pattern vs valid pattern (covering)
			p = genValidPattern().Draw(t, "p")
			s = genValidPattern().Draw(t, "s")
		default: // valid pattern vs pattern derived from it
			p = genValidPattern().Draw(t, "p")
			toks := refmux.Tokens(p)
			for i := range toks {
				if rapid.IntRange(0, 3).Draw(t, "gen") == 0 && refmux.Kind(toks[i]) == refmux.Lit {
					toks[i] = "*"
				} else if rapid.IntRange(0, 5).Draw(t, "spec") == 0 && refmux.Kind(toks[i]) != refmux.Full {
					toks[i] = "q"
				}
			}
			s = strings.Join(toks, ".")
		}
		for _, x := range []string{p, s} {
			if msg := checkSingle(x); msg != "" {
				t.Fatalf("%s", msg)
			}
		}
		nt := false
		if res.Pattern(p).IsValid() && refmux.PatternValidity(p) == refmux.Valid {
			if msg := checkPair(p, s); msg != "" {
				t.Fatalf("%s", msg)
			}
			nt = nontrivialPair(p, s)
		}
		ev.Case(nt, evid.Hash(p, s), "random-pair", fmt.Sprintf("mode%d", mode))
		ev.Sample("random-pair", 4, func() interface{} { return map[string]string{"p": p, "s": s} })
	})
}

// TestPropReplaceTags: ReplaceTags / ReplaceTag equal token-wise substitution.
func TestPropReplaceTags(t *testing.T) {
	rapid.Check(t, func(t *rapid.T) {
		p := genValidPattern().Draw(t, "p")
		// tag map: some keys taken from the pattern, some foreign
		var names []string
		for _, tk := range refmux.Tokens(p) {
			if refmux.Kind(tk) == refmux.Param {
				names = append(names, tk[1:])
			}
		}
		names = append(names, "zz", "i", "a$", "iD", "B")
		m := map[string]string{}
		n := rapid.IntRange(0, 3).Draw(t, "nmap")
		for i := 0; i < n; i++ {
			k := rapid.SampledFrom(names).Draw(t, "key")
			m[k] = rapid.OneOf(rapid.SampledFrom([]string{"", "v", "longer-value", "a.b", "$k", "*"}), rapid.StringN(0, 6, -1)).Draw(t, "val")
		}
		want := refmux.ReplaceTags(p, m)
		if got := string(res.Pattern(p).ReplaceTags(m)); got != want {
			t.Fatalf("L3 Pattern(%q).ReplaceTags(%v)=%q want token-wise substitution %q", p, m, got, want)
		}
		for k, v := range m {
			want1 := refmux.ReplaceTags(p, map[string]string{k: v})
			if got := string(res.Pattern(p).ReplaceTag(k, v)); got != want1 {
				t.Fatalf("L3 Pattern(%q).ReplaceTag(%q,%q)=%q want %q", p, k, v, got, want1)
			}
		}
		hit := false
		for _, nm := range names {
			if _, ok := m[nm]; ok && strings.Contains("."+p+".", ".$"+nm+".") {
				hit = true
			}
		}
		ev.Case(hit && strings.ContainsAny(strings.TrimLeft(p, "$"), "$"), evid.Hash("rt", p, fmt.Sprint(m)), "replace-tags")
		ev.Sample("replace-tags", 2, func() interface{} { return map[string]interface{}{"p": p, "map": m, "result": want} })
	})
}

// TestPropIDTransformer: id -> rid -> route -> id is the identity (L7).
func TestPropIDTransformer(t *testing.T) {
	rapid.Check(t, func(t *rapid.T) {
		// pattern of literals and $tags only, with a designated tag
		n := rapid.IntRange(1, 5).Draw(t, "ntok")
		toks := make([]string, n)
		tagAt := rapid.IntRange(0, n-1).Draw(t, "tagAt")
		twin := false
		for i := range toks {
			switch {
			case i == tagAt:
				toks[i] = "$" + rapid.SampledFrom([]string{"id", "bookId", "a", "k$", "$id"}).Draw(t, "tag")
			case rapid.IntRange(0, 4).Draw(t, "other") == 0:
				toks[i] = "$o" + strconv.Itoa(i)
				if !twin && rapid.Bool().Draw(t, "casetwin") {
					toks[i] = "$ID" // differs from the tag "id" in letter case only
					twin = true
				}
			default:
				toks[i] = rapid.SampledFrom([]string{"library", "book", "a", "b$", "x-y"}).Draw(t, "lit")
			}
		}
		pattern := strings.Join(toks, ".")
		tag := toks[tagAt][1:]
		id := rapid.OneOf(
			rapid.SampledFrom([]string{"42", "a", "$x", "$", "a$b", "~", "id", "{}", "\\", "\"q\"", "v1%2E2", "%3F", "%2A%3E", "%25", "%", "a+b", "%2e"}),
			rapid.StringOfN(rapid.RuneFrom(validPartRunes), 1, 8, -1),
		).Draw(t, "id")
		if rapid.IntRange(0, 9).Draw(t, "idLikeTag") == 0 {
			id = "$" + tag // an id spelled like the placeholder itself
		}
		for i, tk := range toks {
			// (an id spelled like ANOTHER placeholder of the pattern would be replaced along with
			// that placeholder when the caller fills in the remaining ones: not a round trip
			// anybody can expect)
			if i != tagAt && tk == id {
				id += "x"
			}
		}
		if !refmux.ValidPart(id) {
			t.Fatalf("generator produced an invalid part %q", id)
		}
		path := rapid.SampledFrom([]string{"", "svc", "a.b"}).Draw(t, "path")
		tr := store.IDTransformer(tag, nil)
		if rapid.Bool().Draw(t, "shared") {
			// the same transformer value serves another handler on another pattern first
			other := "other.$" + tag + ".x"
			if got := tr.IDToRID("w1", nil, res.Pattern(other)); got != "other.w1.x" {
				t.Fatalf("L7 IDToRID(w1) with pattern %q gives %q", other, got)
			}
		}
		mux := res.NewMux(path)
		if rapid.IntRange(0, 4).Draw(t, "renamedListener") == 0 {
			// an event listener registered first on the same pattern, with placeholder names of its
			// own: either the handler is refused then (the names of a node are fixed by the first
			// registration), or the handler's parameters are still keyed by the handler's names
			ltoks := append([]string(nil), toks...)
			for i, tk := range ltoks {
				if tk[0] == '$' {
					ltoks[i] = "$z" + strconv.Itoa(i)
				}
			}
			mux.AddListener(strings.Join(ltoks, "."), func(*res.Event) {})
			if panics(func() { mux.Handle(pattern, res.GetResource(func(res.GetRequest) {})) }) {
				ev.Case(true, evid.Hash("idt-refused", pattern), "id-transformer", "handler-refused-after-renamed-listener")
				return
			}
		} else {
			mux.Handle(pattern, res.GetResource(func(res.GetRequest) {}))
		}
		full := pattern
		if path != "" {
			full = path + "." + pattern
		}
		rid := tr.IDToRID(id, nil, res.Pattern(full))
		// other placeholders get concrete values, like a caller would supply
		vals := map[string]string{}
		for i, tk := range toks {
			if i != tagAt && tk[0] == '$' {
				vals[tk[1:]] = "v" + strconv.Itoa(i)
			}
		}
		rid = string(res.Pattern(rid).ReplaceTags(vals))
		if !res.IsValidRID(rid) {
			t.Fatalf("L7 IDToRID(%q) with pattern %q gives %q which IsValidRID rejects", id, full, rid)
		}
		mh := mux.GetHandler(rid)
		if mh == nil {
			t.Fatalf("L7 rid %q (id %q, pattern %q) is not routed back to its pattern", rid, id, full)
		}
		back := tr.RIDToID(rid, mh.Params)
		if back != id {
			t.Fatalf("L7 id %q -> rid %q -> id %q (pattern %q)", id, rid, back, full)
		}
		ev.Case(strings.ContainsAny(id, "$") || len(vals) > 0 || path != "", evid.Hash("idt", full, id), "id-transformer")
		ev.Sample("id-transformer", 2, func() interface{} { return map[string]string{"pattern": full, "id": id, "rid": rid} })
	})
}

// TestDocTable anchors absolute validity with the documentation's examples.
func TestDocTable(t *testing.T) {
	valid := []string{"", "a.b", "a.$id", "a.*", "a.>", "user.$id", "user.*", "data.>", "example.resource.>", "example.item.*", "example.model.$id", ">", "*", "$a", "library.book.$bookid"}
	invalid := []string{"a..b", "a.>.b", "a.*b", "a b", ".", "a.", ".a", "a.b*", "a.>b", "a?b", "a.$", "$", "a\tb", "é"}
	for _, p := range valid {
		if !res.Pattern(p).IsValid() {
			evid.Violation(t, prop, "doctable", fmt.Sprintf("documented-valid pattern %q rejected by IsValid", p), map[string]string{"p": p})
		}
		if msg := checkSingle(p); msg != "" {
			evid.Violation(t, prop, "doctable", msg, map[string]string{"p": p})
		}
	}
	for _, p := range invalid {
		if res.Pattern(p).IsValid() {
			evid.Violation(t, prop, "doctable", fmt.Sprintf("invalid pattern %q accepted by IsValid", p), map[string]string{"p": p})
		}
		if msg := checkSingle(p); msg != "" {
			evid.Violation(t, prop, "doctable", msg, map[string]string{"p": p})
		}
	}
	// documented matching examples
	type ex struct {
		p, s string
		m    bool
	}
	for _, e := range []ex{{"user.$id", "user.10", true}, {"user.*", "user.foo", true}, {"data.>", "data.foo", true}, {"data.>", "data.foo.bar", true}, {"data.>", "data", false}, {"user.$id", "user", false}, {"user.$id", "user.a.b", false}} {
		if got := res.Pattern(e.p).Matches(e.s); got != e.m {
			evid.Violation(t, prop, "doctable", fmt.Sprintf("Pattern(%q).Matches(%q)=%v want %v", e.p, e.s, got, e.m), map[string]string{"p": e.p, "s": e.s})
		}
		if msg := checkPair(e.p, e.s); msg != "" {
			evid.Violation(t, prop, "doctable", msg, map[string]string{"p": e.p, "s": e.s})
		}
	}
	ev.CountDistinct(int64(len(valid)+len(invalid)+7), 0)
}

var _ = reflect.DeepEqual

// ---- regression tier: literal minimal inputs of confirmed findings ---------

func TestRegressAnonymousPlaceholderRegisters(t *testing.T) {
	msg := checkSingle("user.*")
	evid.ReportKnown(t, prop, "C17-anon-placeholder-register", msg != "", msg, map[string]string{"p": "user.*"})
	ev.CountDistinct(1, 0)
}

func TestRegressMidTokenDollarIsLiteral(t *testing.T) {
	msg := checkPair("a$b", "axyz")
	if msg == "" {
		msg = checkPair("a$", "aa")
	}
	evid.ReportKnown(t, prop, "C17-midtoken-dollar-matches", msg != "", msg, map[string]string{"p": "a$b", "s": "axyz"})
	ev.CountDistinct(2, 2)
}

// ---- native fuzz target (thorough tier) -----------------------------------

func FuzzPatternLaws(f *testing.F) {
	for _, s := range [][2]string{{"a.$id", "a.b"}, {"a$.0", "a.0"}, {"a.*", "a.>"}, {"$a.$b.>", "x.y.z.w"}, {"a.b", "a..b"}, {">", "."}, {"a$b.$c", "a$b.q"}} {
		f.Add(s[0], s[1], "id", "v")
	}
	f.Fuzz(func(t *testing.T, p, s, tag, val string) {
		for _, x := range []string{p, s} {
			if len(x) > 64 {
				return
			}
			if msg := checkSingle(x); msg != "" {
				t.Fatal(msg)
			}
		}
		if res.Pattern(p).IsValid() && refmux.PatternValidity(p) == refmux.Valid {
			if msg := checkPair(p, s); msg != "" {
				t.Fatal(msg)
			}
			m := map[string]string{tag: val}
			if got, want := string(res.Pattern(p).ReplaceTags(m)), refmux.ReplaceTags(p, m); got != want {
				t.Fatalf("L3 Pattern(%q).ReplaceTags(%v)=%q want %q", p, m, got, want)
			}
			if got, want := string(res.Pattern(p).ReplaceTag(tag, val)), refmux.ReplaceTags(p, m); got != want {
				t.Fatalf("L3 Pattern(%q).ReplaceTag(%q,%q)=%q want %q", p, tag, val, got, want)
			}
		}
	})
}
