package c06

import (
	"encoding/json"
	"fmt"
	"os"
	"sort"
	"strconv"
	"strings"
	"sync"
	"testing"

	res "github.com/jirenius/go-res"
	"pgregory.net/rapid"

	"verifharness/internal/evid"
	"verifharness/internal/refmux"
)

const prop = "C06"

func TestMain(m *testing.M) { os.Exit(evid.Main(m)) }

var ev = evid.For(prop)

func init() {
	ev.SetRule("cases = (pattern set, arrangement across mounted sub-muxes, resource name): bounded-exhaustive over every set of <=2 patterns of <=3 tokens on {a,b,$x,$y,*,>} x 7 mount arrangements x every name of <=4 tokens on {a,b,c} (thorough adds triples of <=2-token patterns), and rapid-generated sets of up to 12 patterns of <=6 tokens with group templates, listeners, 0-3 nested mounts and names derived by instantiation and near-miss edits; plus arbitrary strings for the never-panics clause; a case is non-trivial when >=2 registered patterns match the name, or the winner is reached only after a more specific-looking literal branch dead-ends (backtracking), or a placeholder sits behind a mount point, or the group has a ${tag}; distinct = hash of (registration plan, name)")
	ev.Assume("full equality with the reference router is demanded for valid resource names only; for arbitrary strings only no-panic and soundness of a returned match (lenient token-wise reading) are asserted")
}

// ---- plan: how a pattern set is spread over muxes --------------------------

// Reg is one handler registration.
type Reg struct {
	Full     []string `json:"full"`            // full pattern tokens (without root path)
	At       int      `json:"at"`              // index of the mux it is registered on (0 = root)
	Group    string   `json:"group,omitempty"` // group template
	Parallel bool     `json:"parallel,omitempty"`
	NList    int      `json:"nlist,omitempty"` // number of listeners on the exact pattern
	Marker   int      `json:"marker"`
	// ListenerOnly makes this an AddListener call (no handler) on the pattern; it establishes the
	// placeholder names of the node, so a later handler with other names is a registration conflict.
	ListenerOnly bool `json:"listenerOnly,omitempty"`
}

// MountSpec describes a sub-mux. Prefix is its full literal prefix (without
// root path); the part relative to the parent is split into MountPath and the
// sub-mux's own path at Split.
type MountSpec struct {
	Prefix []string `json:"prefix"`
	Parent int      `json:"parent"` // index into muxes (0 = root)
	Split  int      `json:"split"`  // how many of the relative tokens go into Mount(path); the rest into NewMux(path)
	Mode   int      `json:"mode"`   // 0: Mount before sub handlers, 1: sub handlers first then Mount, 2: Route
}

// Plan is a complete registration plan.
type Plan struct {
	RootPath string      `json:"root"`
	Mounts   []MountSpec `json:"mounts"`
	Regs     []Reg       `json:"regs"`
	// Early are resource names looked up on the root mux after every registration step
	// (while everything is mounted), so that lookups interleave with registrations.
	Early []string `json:"early,omitempty"`
}

type built struct {
	root    *res.Mux
	entries []refmux.Entry
	// per registration: did it panic, should it have
	regPanic  []bool
	wantPanic []bool
	hits      *[]int
	// earlyLookups counts the interleaved lookups that were compared with the model.
	earlyLookups int
	// orphans: listeners remain on patterns without a handler; Serve would refuse such a mux
	// (ValidateListeners), so lookups are outside the domain.
	orphans bool
}

func fullPattern(root string, toks []string) string {
	p := strings.Join(toks, ".")
	if root == "" {
		return p
	}
	if p == "" {
		return root
	}
	return root + "." + p
}

func catch(f func()) (msg string) {
	defer func() {
		if r := recover(); r != nil {
			msg = fmt.Sprint(r)
			if msg == "" {
				msg = "panic"
			}
		}
	}()
	f()
	return ""
}

// build executes the plan on real muxes and on the reference.
func build(pl Plan) (*built, error) {
	b := &built{hits: new([]int)}
	muxes := []*res.Mux{res.NewMux(pl.RootPath)}
	prefixLen := []int{0}
	b.root = muxes[0]
	// create sub muxes (not yet mounted for mode 1)
	type pending struct {
		idx int
		fn  func()
	}
	var late []pending
	for i, ms := range pl.Mounts {
		parent := muxes[ms.Parent]
		rel := ms.Prefix[prefixLen[ms.Parent]:]
		mp := strings.Join(rel[:ms.Split], ".")
		sp := strings.Join(rel[ms.Split:], ".")
		var sub *res.Mux
		switch ms.Mode {
		case 2:
			if sp != "" { // Route always creates NewMux(""), so the whole relative path is the mount path
				mp = strings.Join(rel, ".")
			}
			if msg := catch(func() { sub = parent.Route(mp, nil) }); msg != "" {
				return nil, fmt.Errorf("valid Route(%q) panicked: %s", mp, msg)
			}
		case 1:
			sub = res.NewMux(sp)
			s, p, m := sub, parent, mp
			late = append(late, pending{i, func() { p.Mount(m, s) }})
		default:
			sub = res.NewMux(sp)
			if msg := catch(func() { parent.Mount(mp, sub) }); msg != "" {
				return nil, fmt.Errorf("valid Mount(%q, NewMux(%q)) panicked: %s", mp, sp, msg)
			}
		}
		muxes = append(muxes, sub)
		prefixLen = append(prefixLen, len(ms.Prefix))
	}
	lateDone := map[int]bool{}
	doLate := func(muxIdx int) error {
		for _, l := range late {
			if l.idx+1 == muxIdx && !lateDone[l.idx] {
				lateDone[l.idx] = true
				if msg := catch(l.fn); msg != "" {
					return fmt.Errorf("valid late Mount of sub-mux %d panicked: %s", muxIdx, msg)
				}
			}
		}
		return nil
	}
	// a registration through a not-yet-mounted ancestor chain needs the chain mounted
	ensureChain := func(at int, full []string) error {
		for mi := 1; mi < len(muxes); mi++ {
			ms := pl.Mounts[mi-1]
			if mi != at && len(ms.Prefix) > prefixLen[at] && hasPrefix(full, ms.Prefix) {
				if err := doLate(mi); err != nil {
					return err
				}
			}
		}
		return nil
	}
	seenStruct := map[string]bool{}
	established := map[string]string{} // structural key -> placeholder names established by the first registration on the node
	pendingListeners := map[string][]int{}
	names := func(toks []string) string {
		var n []string
		for i, t := range toks {
			if len(t) > 1 && t[0] == '$' {
				n = append(n, t+"@"+strconv.Itoa(i))
			}
		}
		return strings.Join(n, ",")
	}
	early := func() error {
		if len(pl.Early) == 0 || len(lateDone) != len(late) || len(pendingListeners) > 0 {
			return nil
		}
		for _, name := range pl.Early {
			if msg, _ := checkLookup(b, pl, name); msg != "" {
				return fmt.Errorf("after %d registrations: %s", len(b.regPanic), msg)
			}
			b.earlyLookups++
		}
		return nil
	}
	for _, r := range pl.Regs {
		rel := strings.Join(r.Full[prefixLen[r.At]:], ".")
		full := fullPattern(pl.RootPath, r.Full)
		if err := ensureChain(r.At, r.Full); err != nil {
			return nil, err
		}
		marker := r.Marker
		if r.ListenerOnly {
			sk := refmux.StructKey(full)
			id := marker*10 + 9
			want := false
			// (a node whose first registration had no named placeholder has no names fixed yet)
			if est := established[sk]; est != "" && est != names(r.Full) {
				want = true
			}
			if refmux.PatternValidity(strings.Join(r.Full[prefixLen[r.At]:], ".")) != refmux.Valid || dup(r.Full) {
				want = true // an invalid pattern is refused for listeners as for handlers
			}
			msg := catch(func() { muxes[r.At].AddListener(rel, func(*res.Event) { *b.hits = append(*b.hits, id) }) })
			b.regPanic = append(b.regPanic, msg != "")
			b.wantPanic = append(b.wantPanic, want)
			if (msg != "") != want {
				return b, fmt.Errorf("AddListener(%q) on mux %d: panicked=%v (%s), expected rejection=%v", rel, r.At, msg != "", msg, want)
			}
			if msg == "" {
				if established[sk] == "" {
					established[sk] = names(r.Full)
				}
				attached := false
				for i := range b.entries {
					if refmux.StructKey(b.entries[i].Pattern) == sk {
						b.entries[i].Listeners = append(b.entries[i].Listeners, id)
						attached = true
					}
				}
				if !attached {
					pendingListeners[sk] = append(pendingListeners[sk], id)
				}
			}
			if err := early(); err != nil {
				return b, err
			}
			continue
		}
		h := res.Handler{
			Call:     map[string]res.CallHandler{"m" + strconv.Itoa(marker): nil},
			Group:    r.Group,
			Parallel: r.Parallel,
		}
		var lids []int
		if r.NList > 0 {
			h.Listeners = map[string]func(*res.Event){}
		}
		for k := 0; k < r.NList; k++ {
			id := marker*10 + k
			lids = append(lids, id)
			if k == 0 {
				h.Listeners[rel] = func(*res.Event) { *b.hits = append(*b.hits, id) }
			}
		}
		want := false
		relPat := strings.Join(r.Full[prefixLen[r.At]:], ".")
		if refmux.PatternValidity(relPat) != refmux.Valid {
			want = true
		}
		if dup(r.Full) {
			want = true
		}
		if !r.Parallel {
			tags, ok := refmux.GroupTags(r.Group)
			if !ok {
				want = true
			}
			for _, tg := range tags {
				if !hasTok(r.Full[prefixLen[r.At]:], "$"+tg) {
					want = true
				}
			}
		}
		sk := refmux.StructKey(full)
		if seenStruct[sk] {
			want = true
		}
		if est := established[sk]; est != "" && est != names(r.Full) {
			want = true // the node's placeholder names were fixed by an earlier listener
		}
		msg := catch(func() { muxes[r.At].AddHandler(rel, h) })
		if msg == "" {
			// further listeners via AddListener on the same mux
			for k := 1; k < r.NList; k++ {
				id := marker*10 + k
				if m2 := catch(func() { muxes[r.At].AddListener(rel, func(*res.Event) { *b.hits = append(*b.hits, id) }) }); m2 != "" {
					return nil, fmt.Errorf("AddListener(%q) on a registered pattern panicked: %s", rel, m2)
				}
			}
		}
		b.regPanic = append(b.regPanic, msg != "")
		b.wantPanic = append(b.wantPanic, want)
		if (msg != "") != want {
			return b, fmt.Errorf("registration of %q (relative %q on mux %d, group %q, parallel %v): panicked=%v (%s), expected rejection=%v", full, rel, r.At, r.Group, r.Parallel, msg != "", msg, want)
		}
		if msg == "" {
			seenStruct[sk] = true
			if established[sk] == "" {
				established[sk] = names(r.Full)
			}
			lids = append(lids, pendingListeners[sk]...)
			delete(pendingListeners, sk)
			b.entries = append(b.entries, refmux.Entry{Pattern: full, Marker: marker, Group: r.Group, Parallel: r.Parallel, Listeners: lids})
		}
		if err := early(); err != nil {
			return b, err
		}
	}
	for mi := range pl.Mounts {
		if err := doLate(mi + 1); err != nil {
			return nil, err
		}
	}
	b.orphans = len(pendingListeners) > 0
	if verr := b.root.ValidateListeners(); (verr != nil) != b.orphans {
		return b, fmt.Errorf("ValidateListeners() = %v, but listeners without handler exist = %v", verr, b.orphans)
	}
	return b, nil
}

func hasPrefix(a, p []string) bool {
	if len(p) > len(a) {
		return false
	}
	for i := range p {
		if a[i] != p[i] {
			return false
		}
	}
	return true
}

func hasTok(a []string, t string) bool {
	for _, x := range a {
		if x == t {
			return true
		}
	}
	return false
}

func dup(toks []string) bool {
	seen := map[string]bool{}
	for _, t := range toks {
		if len(t) > 1 && t[0] == '$' {
			if seen[t] {
				return true
			}
			seen[t] = true
		}
	}
	return false
}

func markerOf(m *res.Match) int {
	for k := range m.Handler.Call {
		n, _ := strconv.Atoi(k[1:])
		return n
	}
	return -1
}

// checkLookup compares GetHandler with the reference for one name. It
// returns (violation, nontrivial).
func checkLookup(b *built, pl Plan, name string) (string, bool) {
	var mh *res.Match
	if msg := catch(func() { mh = b.root.GetHandler(name) }); msg != "" {
		return fmt.Sprintf("GetHandler(%q) panicked: %s", name, msg), false
	}
	if !refmux.ValidName(name) {
		// unspecified domain: soundness of a returned match only
		if mh != nil {
			mk := markerOf(mh)
			for _, e := range b.entries {
				if e.Marker == mk && !lenientMatch(e.Pattern, name) {
					return fmt.Sprintf("GetHandler(%q) returned pattern %q which cannot match that string", name, e.Pattern), false
				}
			}
		}
		return "", false
	}
	best, matches := refmux.Route(b.entries, name)
	if best == nil {
		if mh != nil {
			return fmt.Sprintf("GetHandler(%q) returned marker %d, but no registered pattern matches", name, markerOf(mh)), false
		}
		return "", false
	}
	if mh == nil {
		return fmt.Sprintf("GetHandler(%q) returned nil, expected pattern %q", name, best.Pattern), len(matches) > 1
	}
	nt := len(matches) > 1
	if got := markerOf(mh); got != best.Marker {
		var gp string
		for _, e := range b.entries {
			if e.Marker == got {
				gp = e.Pattern
			}
		}
		return fmt.Sprintf("GetHandler(%q) chose pattern %q, the most specific matching pattern is %q (all matches: %s)", name, gp, best.Pattern, pats(matches)), nt
	}
	wantParams := refmux.Params(best.Pattern, name)
	if len(wantParams) != len(mh.Params) {
		return fmt.Sprintf("GetHandler(%q) on %q: params %v want %v", name, best.Pattern, mh.Params, wantParams), nt
	}
	for k, v := range wantParams {
		if mh.Params[k] != v {
			return fmt.Sprintf("GetHandler(%q) on %q: params %v want %v", name, best.Pattern, mh.Params, wantParams), nt
		}
	}
	if want := refmux.GroupOf(best, name); mh.Group != want {
		return fmt.Sprintf("GetHandler(%q) on %q (group template %q, parallel %v): group %q want %q", name, best.Pattern, best.Group, best.Parallel, mh.Group, want), nt
	}
	// listeners as a set
	*b.hits = (*b.hits)[:0]
	for _, l := range mh.Listeners {
		l(nil)
	}
	got := append([]int(nil), *b.hits...)
	sort.Ints(got)
	want := append([]int(nil), best.Listeners...)
	sort.Ints(want)
	if fmt.Sprint(got) != fmt.Sprint(want) {
		return fmt.Sprintf("GetHandler(%q) on %q: listeners %v want %v", name, best.Pattern, got, want), nt
	}
	// non-triviality: backtracking, placeholder behind a mount, group tag
	if strings.Contains(best.Group, "${") {
		nt = true
	}
	for _, ms := range pl.Mounts {
		full := refmux.Tokens(best.Pattern)
		off := len(refmux.Tokens(pl.RootPath))
		if len(full) >= off+len(ms.Prefix) && hasPrefix(full[off:], ms.Prefix) && len(wantParams) > 0 {
			nt = true
		}
	}
	if backtracks(b.entries, best, name) {
		nt = true
	}
	return "", nt
}

// backtracks: some registered pattern shares a strictly more specific prefix
// with the name than the winner does but fails later.
func backtracks(entries []refmux.Entry, best *refmux.Entry, name string) bool {
	nt := refmux.Tokens(name)
	bt := refmux.Tokens(best.Pattern)
	for _, e := range entries {
		if e.Marker == best.Marker {
			continue
		}
		et := refmux.Tokens(e.Pattern)
		for i := 0; i < len(et) && i < len(nt) && i < len(bt); i++ {
			ek, bk := refmux.Kind(et[i]), refmux.Kind(bt[i])
			if ek == refmux.Lit && et[i] != nt[i] {
				break
			}
			if ek == refmux.Lit && bk != refmux.Lit || (ek == refmux.Param || ek == refmux.Any) && bk == refmux.Full {
				return !refmux.Match(e.Pattern, name)
			}
			if ek != bk && !(ek != refmux.Lit && ek != refmux.Full && bk != refmux.Lit && bk != refmux.Full) {
				break
			}
		}
	}
	return false
}

func lenientMatch(p, s string) bool {
	pt := refmux.Tokens(p)
	st := strings.Split(s, ".")
	for i, t := range pt {
		k := refmux.Kind(t)
		if k == refmux.Full {
			return len(st) > i
		}
		if i >= len(st) {
			return false
		}
		if k == refmux.Lit && t != st[i] {
			return false
		}
	}
	return len(pt) == len(st)
}

func pats(m []*refmux.Entry) string {
	var s []string
	for _, e := range m {
		s = append(s, e.Pattern)
	}
	return strings.Join(s, ", ")
}

// ---- bounded-exhaustive ------------------------------------------------------

func enumPatterns(maxTok int) [][]string {
	alpha := []string{"a", "b", "$x", "$y", "*", ">"}
	var out [][]string
	var rec func(cur []string)
	rec = func(cur []string) {
		if len(cur) > 0 {
			cp := append([]string(nil), cur...)
			if !dup(cp) {
				out = append(out, cp)
			}
		}
		if len(cur) == maxTok || (len(cur) > 0 && cur[len(cur)-1] == ">") {
			return
		}
		for _, a := range alpha {
			rec(append(cur, a))
		}
	}
	rec(nil)
	return out
}

func enumNames(maxTok int) []string {
	var out []string
	var rec func(cur []string)
	rec = func(cur []string) {
		if len(cur) > 0 {
			out = append(out, strings.Join(cur, "."))
		}
		if len(cur) == maxTok {
			return
		}
		for _, a := range []string{"a", "b", "c"} {
			rec(append(cur, a))
		}
	}
	rec(nil)
	return out
}

func litPrefix(toks []string) int {
	n := 0
	for _, t := range toks {
		if refmux.Kind(t) != refmux.Lit {
			break
		}
		n++
	}
	return n
}

// arrangement builds plan number v for a pattern set; ok=false when v does not apply.
func arrangement(set [][]string, v int) (Plan, bool) {
	pl := Plan{}
	grp := func(toks []string) string {
		for _, t := range toks {
			if t[0] == '$' {
				return "g.${" + t[1:] + "}"
			}
		}
		return ""
	}
	for i, p := range set {
		pl.Regs = append(pl.Regs, Reg{Full: p, Marker: i + 1, Group: grp(p), NList: i % 2})
	}
	switch v {
	case 0: // everything on the root mux
		return pl, true
	case 6: // service-like root path
		pl.RootPath = "svc"
		return pl, true
	}
	// mounts at the first literal token of each pattern that has one
	mounts := map[string]int{}
	for i := range pl.Regs {
		p := pl.Regs[i].Full
		lp := litPrefix(p)
		if lp == 0 {
			continue
		}
		depth := 1
		if v == 5 && lp >= 2 {
			depth = 2
		}
		key := strings.Join(p[:depth], ".")
		mi, ok := mounts[key]
		if !ok {
			ms := MountSpec{Prefix: append([]string(nil), p[:depth]...), Parent: 0}
			switch v {
			case 1:
				ms.Mode, ms.Split = 0, depth
			case 2:
				ms.Mode, ms.Split = 0, depth
			case 3:
				ms.Mode, ms.Split = 2, depth
			case 4:
				ms.Mode, ms.Split = 1, depth
			case 5:
				ms.Mode, ms.Split = 0, 1 // Mount("a", NewMux("b"))
			}
			pl.Mounts = append(pl.Mounts, ms)
			mi = len(pl.Mounts)
			mounts[key] = mi
		}
		if v == 2 {
			pl.Regs[i].At = 0 // registered on the parent through the mounted prefix
		} else {
			pl.Regs[i].At = mi
		}
	}
	if len(pl.Mounts) == 0 {
		return pl, false
	}
	// a mount prefix must not be a proper prefix of / equal to another mount's prefix at the same parent
	for i := range pl.Mounts {
		for j := range pl.Mounts {
			if i != j && hasPrefix(pl.Mounts[j].Prefix, pl.Mounts[i].Prefix) {
				return pl, false
			}
		}
	}
	// patterns registered on the root that run through a mount prefix only in v==2; in the
	// other variants a pattern equal to a mount prefix registered on root would conflict: avoid
	return pl, true
}

func shard() (int, int) {
	i, _ := strconv.Atoi(os.Getenv("VERIF_SHARD"))
	n, _ := strconv.Atoi(os.Getenv("VERIF_SHARDS"))
	if n < 1 {
		n = 1
	}
	return i, n
}

func TestExhaustive(t *testing.T) {
	if rp := os.Getenv("VERIF_REPLAY"); rp != "" {
		replay(t, rp)
		return
	}
	pats3 := enumPatterns(3)
	pats2 := enumPatterns(2)
	names := enumNames(4)
	si, sn := shard()
	var cases, nontriv, plans int64
	fails := 0
	runSet := func(set [][]string) bool {
		for v := 0; v <= 6; v++ {
			pl, ok := arrangement(set, v)
			if !ok {
				continue
			}
			b, err := build(pl)
			plans++
			if err != nil {
				evid.Violation(t, prop, "register", err.Error(), map[string]interface{}{"plan": pl})
				if fails++; fails > 3 {
					return false
				}
				continue
			}
			for _, n := range names {
				if pl.RootPath != "" {
					n = pl.RootPath + "." + n
				}
				cases++
				msg, nt := checkLookup(b, pl, n)
				if nt {
					nontriv++
				}
				if msg != "" {
					evid.Violation(t, prop, "lookup", msg, map[string]interface{}{"plan": pl, "name": n})
					if fails++; fails > 3 {
						return false
					}
					break
				}
			}
			if cases%50000 < int64(len(names)) {
				ev.Sample("exhaustive", 3, func() interface{} { return map[string]interface{}{"plan": pl, "names": len(names)} })
			}
		}
		return true
	}
	idx := 0
	for i := range pats3 {
		for j := i; j < len(pats3); j++ {
			idx++
			if idx%sn != si {
				continue
			}
			set := [][]string{pats3[i]}
			if j != i {
				set = append(set, pats3[j])
			}
			if !runSet(set) {
				return
			}
		}
	}
	if evid.Thorough() {
		for i := range pats2 {
			for j := i + 1; j < len(pats2); j++ {
				for k := j + 1; k < len(pats2); k++ {
					idx++
					if idx%sn != si {
						continue
					}
					if !runSet([][]string{pats2[i], pats2[j], pats2[k]}) {
						return
					}
				}
			}
		}
	}
	ev.CountDistinct(cases, nontriv)
	ev.Add("exhaustive_lookups", cases)
	ev.Add("exhaustive_plans", plans)
	ev.SetExtra("exhaustive", true)
	ev.SetExtra("exhaustive_space", fmt.Sprintf("every set of <=2 patterns of <=3 tokens over {a,b,$x,$y,*,>} (%d patterns)%s x 7 arrangements (root, mount-before, via-parent-through-mount, Route, handlers-then-mount, Mount(a,NewMux(b)), root path) x every name of <=4 tokens over {a,b,c} (%d names)", len(pats3), map[bool]string{true: " + every triple of <=2-token patterns", false: ""}[evid.Thorough()], len(names)))
}

func replay(t *testing.T, path string) {
	_, raw, err := evid.LoadReplay(path)
	if err != nil {
		t.Fatal(err)
	}
	var c struct {
		Plan Plan   `json:"plan"`
		Name string `json:"name"`
	}
	if err := json.Unmarshal(raw, &c); err != nil {
		t.Fatal(err)
	}
	b, err := build(c.Plan)
	if err != nil {
		evid.Violation(t, prop, "register", err.Error(), map[string]interface{}{"plan": c.Plan})
		return
	}
	if msg, _ := checkLookup(b, c.Plan, c.Name); msg != "" {
		evid.Violation(t, prop, "lookup", msg, map[string]interface{}{"plan": c.Plan, "name": c.Name})
	}
}

// ---- random -----------------------------------------------------------------

var litToks = []string{"a", "b", "c", "user", "item", "x1", "a$", "new", "get", "call"}

func genPlan() *rapid.Generator[Plan] {
	return rapid.Custom(func(t *rapid.T) Plan {
		pl := Plan{RootPath: rapid.SampledFrom([]string{"", "", "svc", "a.b"}).Draw(t, "root")}
		// mounts
		nm := rapid.IntRange(0, 3).Draw(t, "nmounts")
		type mnt struct{ prefix []string }
		for i := 0; i < nm; i++ {
			parent := rapid.IntRange(0, len(pl.Mounts)).Draw(t, "parent")
			var base []string
			if parent > 0 {
				base = pl.Mounts[parent-1].Prefix
			}
			n := rapid.IntRange(1, 2).Draw(t, "mlen")
			rel := make([]string, n)
			for k := range rel {
				rel[k] = rapid.SampledFrom(litToks[:5]).Draw(t, "mtok")
			}
			prefix := append(append([]string(nil), base...), rel...)
			// no two mounts may sit on each other's path at creation time unless properly nested via parent
			ok := true
			for _, o := range pl.Mounts {
				if hasPrefix(o.Prefix, prefix) || (hasPrefix(prefix, o.Prefix) && !hasPrefix(base, o.Prefix)) {
					ok = false
				}
			}
			if !ok {
				continue
			}
			pl.Mounts = append(pl.Mounts, MountSpec{Prefix: prefix, Parent: parent, Split: rapid.IntRange(1, n).Draw(t, "split"), Mode: rapid.IntRange(0, 2).Draw(t, "mode")})
		}
		// patterns
		seenSK := map[string]bool{}
		np := rapid.IntRange(1, 12).Draw(t, "npat")
		for i := 0; i < np; i++ {
			var toks []string
			// start below a mount fairly often
			if len(pl.Mounts) > 0 && rapid.IntRange(0, 2).Draw(t, "below") > 0 {
				toks = append(toks, pl.Mounts[rapid.IntRange(0, len(pl.Mounts)-1).Draw(t, "which")].Prefix...)
			}
			n := rapid.IntRange(0, 4).Draw(t, "ntok")
			if len(toks) == 0 && n == 0 && (pl.RootPath == "" || rapid.IntRange(0, 2).Draw(t, "rootpattern") > 0) {
				n = 1
			}
			var params []string
			for k := 0; k < n; k++ {
				switch c := rapid.IntRange(0, 11).Draw(t, "kind"); {
				case c <= 5 && rapid.IntRange(0, 19).Draw(t, "badtok") == 0:
					// a token no valid pattern can have: the registration must be refused
					toks = append(toks, rapid.SampledFrom([]string{"*foo", "foo*", "a?", "räv", "a>", "$", "a b", ">x"}).Draw(t, "bad"))
				case c <= 5:
					toks = append(toks, rapid.SampledFrom(litToks).Draw(t, "lit"))
				case c <= 8:
					name := rapid.SampledFrom([]string{"x", "y", "id", "k-1", "idx", "i", "xy"}).Draw(t, "pn") // some are prefixes of others
					if rapid.IntRange(0, 19).Draw(t, "dupok") != 0 {
						for hasTok(toks, "$"+name) {
							name += "z"
						}
					}
					params = append(params, name)
					toks = append(toks, "$"+name)
				case c <= 10:
					toks = append(toks, "*")
				default:
					if k == n-1 {
						toks = append(toks, ">")
					} else {
						toks = append(toks, rapid.SampledFrom(litToks).Draw(t, "lit"))
					}
				}
			}
			r := Reg{Full: toks, Marker: i + 1}
			// where to register: any mux whose prefix is a literal prefix of the pattern
			cands := []int{0}
			for mi, ms := range pl.Mounts {
				if hasPrefix(toks, ms.Prefix) {
					cands = append(cands, mi+1)
				}
			}
			r.At = rapid.SampledFrom(cands).Draw(t, "at")
			switch g := rapid.IntRange(0, 9).Draw(t, "grp"); {
			case g <= 2:
			case g == 3:
				r.Group = rapid.SampledFrom([]string{"shared", "g1", "a.b"}).Draw(t, "glit")
			case g == 4:
				r.Parallel = true
				r.Group = rapid.SampledFrom([]string{"", "ignored", "${nope}"}).Draw(t, "pg")
			case g == 9:
				r.Group = rapid.SampledFrom([]string{"${missing}", "${", "$x", "${}", "x.${a b}"}).Draw(t, "gbad")
				if len(params) > 0 && rapid.Bool().Draw(t, "gprefix") {
					// a tag that is only a prefix (or an extension) of a placeholder's name
					a := rapid.SampledFrom(params).Draw(t, "gpp")
					if len(a) > 1 && rapid.Bool().Draw(t, "shorter") {
						r.Group = "${" + a[:len(a)-1] + "}"
					} else {
						r.Group = "${" + a + "x}"
					}
				}
			default:
				if len(params) > 0 {
					a := rapid.SampledFrom(params).Draw(t, "gp")
					r.Group = rapid.SampledFrom([]string{"${%s}", "g.${%s}", "${%s}.x.${%s}", "pre${%s}post"}).Draw(t, "gtpl")
					r.Group = strings.ReplaceAll(r.Group, "%s", a)
				}
			}
			r.NList = rapid.SampledFrom([]int{0, 0, 1, 2}).Draw(t, "nlist")
			skey := refmux.StructKey(strings.Join(toks, "."))
			fresh := !seenSK[skey]
			seenSK[skey] = true
			// (a listener naming placeholders on a node whose handler uses anonymous ones is not generated: unspecified)
			if fresh && len(params) > 0 && !dup(toks) && rapid.IntRange(0, 5).Draw(t, "prelistener") == 0 {
				// a listener registered first on the same node, with the same or with other placeholder names
				lt := append([]string(nil), toks...)
				if rapid.Bool().Draw(t, "conflict") {
					star, named := -1, -1
					for k, tk := range lt {
						if tk == "*" && star < 0 {
							star = k
						}
						if len(tk) > 1 && tk[0] == '$' && named < 0 {
							named = k
						}
					}
					if star >= 0 && named >= 0 && rapid.Bool().Draw(t, "swap") {
						// the same names, at other token positions: an anonymous and a named
						// placeholder change places
						lt[star], lt[named] = lt[named], lt[star]
					} else if named >= 0 {
						lt[named] += "q"
					}
				}
				pl.Regs = append(pl.Regs, Reg{Full: lt, At: r.At, Marker: 100 + i, ListenerOnly: true})
				if fmt.Sprint(lt) != fmt.Sprint(toks) && rapid.Bool().Draw(t, "retry") {
					// after the conflicting handler was rejected, the pattern the listener named must still be registrable
					pl.Regs = append(pl.Regs, r)
					r2 := r
					r2.Full = lt
					r2.Marker = 200 + i
					r2.Group = ""
					pl.Regs = append(pl.Regs, r2)
					continue
				}
			}
			pl.Regs = append(pl.Regs, r)
			if fresh && !dup(toks) && rapid.IntRange(0, 5).Draw(t, "latelistener") == 0 {
				// a listener added to the pattern after its handler (and after lookups, when
				// lookups are interleaved)
				pl.Regs = append(pl.Regs, Reg{Full: append([]string(nil), toks...), At: r.At, Marker: 300 + i, ListenerOnly: true})
			}
		}
		return pl
	})
}

func genNameFrom(pl Plan) *rapid.Generator[string] {
	return rapid.Custom(func(t *rapid.T) string {
		part := rapid.SampledFrom([]string{"a", "b", "c", "user", "item", "zz", "$v", "new", "x1", "a$"})
		r := pl.Regs[rapid.IntRange(0, len(pl.Regs)-1).Draw(t, "from")]
		var out []string
		for _, tk := range r.Full {
			switch refmux.Kind(tk) {
			case refmux.Lit:
				out = append(out, tk)
			case refmux.Full:
				n := rapid.IntRange(1, 3).Draw(t, "nfull")
				for i := 0; i < n; i++ {
					out = append(out, part.Draw(t, "part"))
				}
			default:
				out = append(out, part.Draw(t, "part"))
			}
		}
		switch rapid.IntRange(0, 11).Draw(t, "edit") {
		case 0:
			if len(out) > 1 {
				i := rapid.IntRange(0, len(out)-1).Draw(t, "drop")
				out = append(out[:i:i], out[i+1:]...)
			}
		case 1:
			out = append(out, part.Draw(t, "extra"))
		case 2, 3:
			if len(out) > 0 {
				out[rapid.IntRange(0, len(out)-1).Draw(t, "repl")] = part.Draw(t, "replv")
			}
		case 4:
			if len(out) > 0 {
				out[rapid.IntRange(0, len(out)-1).Draw(t, "empty")] = ""
			}
		case 5:
			out = append([]string{""}, out...)
		case 6:
			out = append(out, "")
		}
		n := strings.Join(out, ".")
		if pl.RootPath != "" {
			switch k := rapid.IntRange(0, 14).Draw(t, "rootkind"); {
			case k == 0: // no root path at all
			case k == 1: // root path glued to the name without the separator
				n = pl.RootPath + n
			case k == 2: // root path with an extra character
				n = pl.RootPath + "x." + n
			case k == 3 && len(pl.RootPath) > 1: // truncated root path
				n = pl.RootPath[:len(pl.RootPath)-1] + "." + n
			default:
				if n == "" {
					return pl.RootPath
				}
				n = pl.RootPath + "." + n
			}
		}
		return n
	})
}

func TestPropRouting(t *testing.T) {
	rapid.Check(t, func(t *rapid.T) {
		pl := genPlan().Draw(t, "plan")
		if rapid.Bool().Draw(t, "interleave") {
			pl.Early = rapid.SliceOfN(genNameFrom(pl), 1, 3).Draw(t, "early")
		}
		b, err := build(pl)
		if err != nil {
			pj, _ := json.Marshal(pl)
			t.Fatalf("%v\nplan: %s", err, pj)
		}
		ev.Add("interleaved-lookups", int64(b.earlyLookups))
		nn := rapid.IntRange(1, 8).Draw(t, "nnames")
		if b.orphans {
			nn = 0
			ev.Label("orphan-listener-plan")
		}
		for i := 0; i < nn; i++ {
			var name string
			if rapid.IntRange(0, 9).Draw(t, "junk") == 0 {
				name = rapid.OneOf(rapid.SampledFrom([]string{"", ".", "..", ">", "$", "*", "a..b", ".a", "a.", "svc", "svc.", strings.Repeat("a.", 300) + "a"}), rapid.String()).Draw(t, "junkname")
			} else {
				name = genNameFrom(pl).Draw(t, "name")
			}
			msg, nt := checkLookup(b, pl, name)
			labels := []string{"random-lookup"}
			if len(pl.Mounts) > 0 {
				labels = append(labels, "with-mount")
			}
			if !refmux.ValidName(name) {
				labels = append(labels, "invalid-name")
			}
			rej := 0
			for _, w := range b.wantPanic {
				if w {
					rej++
				}
			}
			if rej > 0 {
				labels = append(labels, "with-rejected-registration")
			}
			pj, _ := json.Marshal(pl)
			ev.Case(nt, evid.Hash(string(pj), name), labels...)
			if msg != "" {
				t.Fatalf("%s\nplan: %s", msg, pj)
			}
			if nt {
				ev.Sample("random-nontrivial", 3, func() interface{} { return map[string]interface{}{"plan": pl, "name": name} })
			}
		}
	})
}

// TestMountRejects: conflicting / invalid mounts are rejected at registration.
func TestMountRejects(t *testing.T) {
	type tc struct {
		name string
		f    func()
		want bool
	}
	nop := res.Handler{Call: map[string]res.CallHandler{"x": nil}}
	cases := []tc{
		{"mount on root", func() { res.NewMux("").Mount("", res.NewMux("")) }, true},
		{"mount on wildcard path", func() { res.NewMux("").Mount("a.*", res.NewMux("")) }, true},
		{"mount on existing handler node", func() { m := res.NewMux(""); m.AddHandler("a", nop); m.Mount("a", res.NewMux("")) }, true},
		{"mount twice", func() { s := res.NewMux(""); res.NewMux("").Mount("a", s); res.NewMux("").Mount("b", s) }, true},
		{"mount below full wildcard", func() { m := res.NewMux(""); m.AddHandler(">", nop); m.Mount("a", res.NewMux("")) }, false},
		{"mount beside handler", func() { m := res.NewMux(""); m.AddHandler("a.b", nop); m.Mount("a.c", res.NewMux("")) }, false},
		{"invalid path", func() { res.NewMux("a..b") }, true},
		{"duplicate pattern across mount", func() {
			m := res.NewMux("")
			s := res.NewMux("")
			s.AddHandler("x", nop)
			m.Mount("a", s)
			m.AddHandler("a.x", nop)
		}, true},
		{"duplicate structural pattern", func() { m := res.NewMux(""); m.AddHandler("a.$x", nop); m.AddHandler("a.*", nop) }, true},
		{"greater-than mid pattern", func() { res.NewMux("").AddHandler("a.>.b", nop) }, true},
	}
	for _, c := range cases {
		got := catch(c.f) != ""
		if got != c.want {
			evid.Violation(t, prop, "mount-rejects", fmt.Sprintf("%s: panicked=%v want %v", c.name, got, c.want), c.name)
		}
	}
	ev.CountDistinct(int64(len(cases)), 0)
}

// ---- regression ------------------------------------------------------------

func TestRegressGroupTagThroughMount(t *testing.T) {
	pl := Plan{Mounts: []MountSpec{{Prefix: []string{"sub"}, Parent: 0, Split: 1}}, Regs: []Reg{{Full: []string{"sub", "$x"}, At: 0, Group: "${x}", Marker: 1}}}
	msg := ""
	b, err := build(pl)
	if err != nil {
		msg = err.Error()
	} else {
		msg, _ = checkLookup(b, pl, "sub.v")
	}
	evid.ReportKnown(t, prop, "C06-group-tag-through-mount", msg != "", msg, map[string]interface{}{"plan": pl, "name": "sub.v"})
	ev.CountDistinct(1, 1)
}

func TestRegressRootPatternTrailingSeparator(t *testing.T) {
	// the mux path followed by a lone separator is not the name of the root resource
	pl := Plan{RootPath: "svc", Regs: []Reg{{Full: nil, At: 0, Marker: 1}}}
	msg := ""
	b, err := build(pl)
	if err != nil {
		msg = err.Error()
	} else {
		msg, _ = checkLookup(b, pl, "svc.")
	}
	evid.ReportKnown(t, prop, "C06-root-handler-matches-trailing-separator", msg != "", msg, map[string]interface{}{"plan": pl, "name": "svc."})
	ev.CountDistinct(1, 1)
}

func TestRegressListenerOnInvalidPattern(t *testing.T) {
	// a wildcard character that is not alone in its token: no valid pattern, for a listener
	// as little as for a handler
	msg := ""
	for _, p := range []string{"*foo", "model.*foo", "model.>x"} {
		if catch(func() { res.NewMux("svc").AddListener(p, func(*res.Event) {}) }) == "" {
			msg = fmt.Sprintf("AddListener(%q) was accepted although the pattern is invalid (Handle refuses it)", p)
			break
		}
	}
	evid.ReportKnown(t, prop, "C06-listener-on-invalid-pattern", msg != "", msg, map[string]interface{}{"patterns": []string{"*foo", "model.*foo", "model.>x"}})
	ev.CountDistinct(1, 1)
}

func FuzzLookupNeverPanics(f *testing.F) {
	for _, s := range []string{".", "..", ">", "$", "a.b", "svc.a", strings.Repeat("a.", 300) + "a", "a..b", "*"} {
		f.Add(s, uint8(0))
	}
	plans := []Plan{}
	for v := 0; v <= 6; v++ {
		if pl, ok := arrangement([][]string{{"a", "$x", "b"}, {"a", ">"}, {"$y", "b"}, {"b", "*", "$x"}}, v); ok {
			plans = append(plans, pl)
		}
	}
	var bs []*built
	for _, pl := range plans {
		b, err := build(pl)
		if err != nil {
			f.Fatal(err)
		}
		bs = append(bs, b)
	}
	f.Fuzz(func(t *testing.T, name string, which uint8) {
		i := int(which) % len(bs)
		if msg, _ := checkLookup(bs[i], plans[i], name); msg != "" {
			t.Fatal(msg)
		}
	})
}

// TestPropConcurrentLookups: lookups are made from many goroutines at once (the listener
// goroutine routes requests while application goroutines call With/Resource); every result
// must equal the sequential reference.
func TestPropConcurrentLookups(t *testing.T) {
	rapid.Check(t, func(rt *rapid.T) {
		pl := genPlan().Draw(rt, "plan")
		b, err := build(pl)
		if err != nil {
			rt.Fatalf("%v", err)
		}
		var names []string
		for i := 0; i < 12; i++ {
			names = append(names, genNameFrom(pl).Draw(rt, "name"))
		}
		if b.orphans {
			return
		}
		type want struct {
			marker int
			params string
			group  string
			nilm   bool
		}
		wants := make([]want, len(names))
		for i, n := range names {
			best, _ := refmux.Route(b.entries, n)
			if !refmux.ValidName(n) || best == nil {
				wants[i] = want{nilm: true}
				continue
			}
			wants[i] = want{marker: best.Marker, params: fmt.Sprint(refmux.Params(best.Pattern, n)), group: refmux.GroupOf(best, n)}
		}
		var wg sync.WaitGroup
		errs := make(chan string, 64)
		for g := 0; g < 8; g++ {
			wg.Add(1)
			go func(g int) {
				defer wg.Done()
				defer func() {
					if v := recover(); v != nil {
						select {
						case errs <- fmt.Sprintf("GetHandler panicked under concurrent lookups: %v", v):
						default:
						}
					}
				}()
				for rep := 0; rep < 60; rep++ {
					i := (g + rep) % len(names)
					n := names[i]
					if !refmux.ValidName(n) {
						b.root.GetHandler(n)
						continue
					}
					mh := b.root.GetHandler(n)
					w := wants[i]
					var msg string
					switch {
					case mh == nil && !w.nilm:
						msg = fmt.Sprintf("concurrent GetHandler(%q) returned nil, expected marker %d", n, w.marker)
					case mh != nil && w.nilm:
						msg = fmt.Sprintf("concurrent GetHandler(%q) returned marker %d, expected no match", n, markerOf(mh))
					case mh != nil && (markerOf(mh) != w.marker || mh.Group != w.group || (len(mh.Params) > 0 || w.params != "map[]") && fmt.Sprint(mh.Params) != w.params):
						msg = fmt.Sprintf("concurrent GetHandler(%q) returned marker %d params %v group %q, expected marker %d params %s group %q", n, markerOf(mh), mh.Params, mh.Group, w.marker, w.params, w.group)
					}
					if msg != "" {
						select {
						case errs <- msg:
						default:
						}
						return
					}
				}
			}(g)
		}
		wg.Wait()
		close(errs)
		pj, _ := json.Marshal(pl)
		ev.Case(len(pl.Regs) > 1, evid.Hash("conc", string(pj), fmt.Sprint(names)), "concurrent-lookups")
		for m := range errs {
			rt.Fatalf("%s\nplan: %s", m, pj)
		}
	})
}
