# Per-property run configuration for bin/check.
# A run: name, run (test regex), optional checks=(quick,thorough) rapid case
# counts per shard, shards=(quick,thorough), race flag, env.
CHECKS = {
    "C17": dict(
        pkg="./c17", level="exploration",
        runs=[
            dict(name="exhaustive", run="^TestExhaustive$", shards=(4, 16)),
            dict(name="doc", run="^(TestDocTable|TestRegress.*)$", shards=(1, 1)),
            dict(name="random", run="^TestProp", checks=(20000, 150000), shards=(2, 8)),
        ],
        fuzz=[dict(target="FuzzPatternLaws", secs=(0, 60))],
    ),
    "C06": dict(
        pkg="./c06", level="exploration",
        runs=[
            dict(name="exhaustive", run="^TestExhaustive$", shards=(8, 16)),
            dict(name="fixed", run="^(TestMountRejects|TestRegress.*)$", shards=(1, 1)),
            dict(name="random", run="^TestProp", checks=(10000, 60000), shards=(4, 16)),
        ],
        fuzz=[dict(target="FuzzLookupNeverPanics", secs=(0, 60))],
    ),
    "C04": dict(
        pkg="./c04", level="exploration",
        runs=[
            dict(name="seq", run="^TestPropSequential$", checks=(10000, 60000), shards=(4, 16)),
            dict(name="conc", run="^TestPropConcurrent$", checks=(500, 3000), shards=(4, 16)),
            dict(name="trickle", run="^TestPropTrickle$", checks=(12, 60), shards=(4, 8), shrinktime="1s"),
            dict(name="backlog", run="^TestPropBacklogRestart$", checks=(1500, 12000), shards=(4, 16), shrinktime="5s"),
            dict(name="disconnect", run="^TestPropDisconnect$", checks=(15, 200), shards=(2, 8), shrinktime="5s"),
            dict(name="startup", run="^TestPropStartupRequests$", checks=(1000, 10000), shards=(1, 4)),
            dict(name="regress", run="^TestRegress", shards=(1, 1)),
        ],
    ),
    "C05": dict(
        pkg="./c05", level="exploration",
        runs=[
            dict(name="dispatch", run="^TestPropDispatch$", checks=(12000, 80000), shards=(4, 16)),
            dict(name="concurrent", run="^TestPropConcurrentDispatch$", checks=(1500, 10000), shards=(4, 16)),
            dict(name="backlog", run="^TestPropBacklogRestart$", checks=(600, 6000), shards=(1, 4)),
            dict(name="doc", run="^TestDocCodes$", shards=(1, 1)),
        ],
    ),
    "C07": dict(
        pkg="./c07", level="exploration",
        runs=[
            dict(name="requests", run="^TestPropRequests$", checks=(12000, 80000), shards=(4, 16)),
            dict(name="service", run="^TestPropServiceLevel$", checks=(6000, 40000), shards=(2, 8)),
            dict(name="concurrent", run="^TestPropConcurrentRequests$", checks=(1200, 8000), shards=(4, 16)),
            dict(name="query", run="^TestPropQueryRequests$", checks=(2000, 16000), shards=(4, 16)),
        ],
    ),
    "C08": dict(
        pkg="./c08", level="exploration",
        runs=[
            dict(name="order", run="^TestPropEventOrder$", checks=(10000, 60000), shards=(4, 16)),
            dict(name="groups", run="^TestPropGroupBlocks$", checks=(1000, 6000), shards=(2, 8)),
            
        ],
    ),
    "C18": dict(
        pkg="./c18", level="exploration",
        runs=[
            dict(name="resultreuse", run="^TestPropParseResultReuse$", checks=(3000, 30000), shards=(1, 4), shrinktime="5s"),
            dict(name="queryresp", run="^TestPropQueryResponses$", checks=(1500, 15000), shards=(2, 8), shrinktime="10s"),
            dict(name="codec", run="^(TestPropRefs|TestPropDataValue|TestPropStoreValue|TestPropValueEqual)$", checks=(20000, 200000), shards=(4, 16)),
            dict(name="responses", run="^TestPropResponses$", checks=(8000, 50000), shards=(2, 8)),
            dict(name="concurrent", run="^TestPropConcurrentResponses$", checks=(1200, 8000), shards=(4, 16)),
            dict(name="sendrequest", run="^TestPropSendRequest$", checks=(4000, 30000), shards=(2, 8), shrinktime="10s"),
            dict(name="predef", run="^TestPropPredefinedErrors$", checks=(1500, 12000), shards=(2, 8), shrinktime="10s"),
        ],
        fuzz=[dict(target="FuzzStoreValue", secs=(0, 45)), dict(target="FuzzUnmarshalDataValue", secs=(0, 45)), dict(target="FuzzParseResponse", secs=(0, 30))],
    ),
    "C01": dict(
        pkg="./csched", level="exploration",
        runs=[
            dict(name="sched", run="^TestC01Exclusion$", checks=(20000, 120000), shards=(4, 16)),
            dict(name="stress", run="^TestC01Stress$", checks=(1000, 8000), shards=(2, 4)),
            dict(name="failedserve", run="^TestC01AcrossFailedServe$", checks=(300, 3000), shards=(1, 1)),
        ],
    ),
    "C02": dict(
        pkg="./csched", level="exploration",
        runs=[
            dict(name="sched", run="^TestC02OrderExactlyOnce$", checks=(20000, 120000), shards=(4, 16)),
            dict(name="stress", run="^TestC02Stress$", checks=(1000, 8000), shards=(2, 4)),
        ],
    ),
    "C03": dict(
        pkg="./csched", level="exploration",
        runs=[
            dict(name="concshut", run="^TestC03ConcurrentShutdown$", shards=(2, 4)),
            dict(name="startfail", run="^TestC03StartFailure$", checks=(40, 400), shards=(1, 4), shrinktime="5s"),
            dict(name="realnats", run="^TestC03RealNATS$", checks=(10, 150), shards=(2, 8), shrinktime="5s"),
            dict(name="sched", run="^TestC03Shutdown$", checks=(20000, 120000), shards=(4, 16)),
            dict(name="stress", run="^TestC03Stress$", checks=(1200, 8000), shards=(4, 8)),
            dict(name="servefail", run="^TestC03ServeFailure$", checks=(300, 3000), shards=(1, 4)),
            dict(name="regress", run="^TestRegress", shards=(1, 1)),
        ],
    ),
    "C15": dict(
        pkg="./c15", level="exploration",
        runs=[
            dict(name="bubble", run="^TestPropQueryEvents$", checks=(12000, 80000), shards=(4, 16)),
            dict(name="restart", run="^TestPropRestart$", checks=(3000, 20000), shards=(4, 16)),
            dict(name="faults", run="^TestPropPublishFaults$", checks=(3000, 20000), shards=(2, 8)),
            dict(name="long", run="^TestPropLongHistory$", checks=(400, 4000), shards=(4, 16), shrinktime="5s"),
            dict(name="expshut", run="^TestPropExpiryDuringShutdown$", checks=(200, 2000), shards=(1, 4), shrinktime="5s"),
            dict(name="burst", run="^TestPropQueryBurst$", checks=(300, 3000), shards=(1, 4), shrinktime="5s"),
            dict(name="twosvc", run="^TestRealNATSTwoServices$", checks=(6, 60), shards=(1, 4), shrinktime="5s"),
            dict(name="regress", run="^(TestRegress.*|TestRealNATSRelease)$", shards=(1, 1)),
        ],
    ),
    "C19": dict(
        pkg="./c19", level="exploration",
        runs=[
            dict(name="scripted", run="^TestPropSendRequest$", checks=(15000, 100000), shards=(4, 16)),
            dict(name="service", run="^TestPropServiceTimeouts$", checks=(5000, 40000), shards=(2, 8)),
            dict(name="svcconc", run="^TestPropConcurrentServiceTimeouts$", checks=(40, 600), shards=(1, 4), shrinktime="5s"),
            dict(name="concreq", run="^TestPropConcurrentRequests$", checks=(30, 400), shards=(2, 4), shrinktime="5s"),
            dict(name="realnats", run="^TestRealNATS$", shards=(1, 1)),
            dict(name="oldtimers", run="^TestOldTimerSemantics$", shards=(2, 4), env={"GODEBUG": "asynctimerchan=1"}),
        ],
    ),
    "C09": dict(
        pkg="./c09", level="exploration",
        runs=[
            dict(name="longown", run="^TestPropLongOwnership$", checks=(20, 200), shards=(1, 4), shrinktime="5s"),
            dict(name="configs", run="^TestPropSubscriptions$", checks=(2000, 12000), shards=(4, 16)),
            dict(name="concresets", run="^TestPropConcurrentResets$", checks=(40, 400), shards=(2, 4), shrinktime="5s"),
            dict(name="regress", run="^(TestRegress.*|TestRealNATS|TestRealNATSListenAndServe)$", shards=(1, 1)),
        ],
    ),
    "C11": dict(
        pkg="./c11", level="exploration",
        runs=[
            dict(name="seq", run="^TestPropSequential$", checks=(1200, 12000), shards=(4, 16), shrinktime="20s"),
            dict(name="conc", run="^TestPropConcurrent$", checks=(300, 3000), shards=(4, 16), shrinktime="20s"),
            dict(name="regress", run="^TestRegress", shards=(1, 1)),
        ],
    ),
    "C13": dict(
        pkg="./cidx", level="exploration",
        runs=[
            dict(name="seq", run="^TestC13IndexQueries$", checks=(800, 6000), shards=(4, 16), shrinktime="20s"),
            dict(name="conc", run="^TestC13Concurrent$", checks=(200, 2000), shards=(2, 8), shrinktime="20s"),
            dict(name="backlog", run="^TestC13Backlog$", checks=(3, 20), shards=(4, 8), shrinktime="5s"),
            dict(name="inplace", run="^TestC13InPlaceUpdates$", checks=(150, 2000), shards=(2, 8), shrinktime="5s"),
            dict(name="binkeys", run="^TestC13BinaryKeys$", checks=(150, 2000), shards=(2, 8), shrinktime="5s"),
            dict(name="nilvalues", run="^TestC13NilValues$", checks=(150, 2000), shards=(2, 8), shrinktime="5s"),
            dict(name="many", run="^TestC13ManyValues$", checks=(12, 120), shards=(2, 8), shrinktime="5s"),
            dict(name="concflush", run="^TestC13ConcurrentFlush$", checks=(60, 600), shards=(4, 16), shrinktime="5s"),
            dict(name="bulkwriters", run="^TestC13BulkWriters$", checks=(20, 200), shards=(2, 8), shrinktime="5s"),
            dict(name="regress", run="^TestRegress(ReverseQuery|FlushEarly|InitConflict|IndexQueueWakeup)$", shards=(1, 1)),
        ],
    ),
    "C14": dict(
        pkg="./cidx", level="exploration",
        runs=[
            dict(name="seq", run="^TestC14QueryChange$", checks=(600, 5000), shards=(4, 16), shrinktime="20s"),
            dict(name="handler", run="^TestC14Handler$", checks=(300, 3000), shards=(4, 16), shrinktime="20s"),
            dict(name="backlog", run="^TestC14Backlog$", checks=(3, 20), shards=(4, 8), shrinktime="5s"),
            dict(name="inplace", run="^TestC14InPlaceUpdates$", checks=(150, 2000), shards=(2, 8), shrinktime="5s"),
            dict(name="binkeys", run="^TestC14BinaryKeys$", checks=(150, 2000), shards=(2, 8), shrinktime="5s"),
            dict(name="concorder", run="^TestC14ConcurrentOrder$", checks=(200, 2000), shards=(2, 8), shrinktime="10s"),
            dict(name="handlermock", run="^TestC14HandlerMockEvents$", checks=(1000, 10000), shards=(2, 8), shrinktime="20s"),
            dict(name="bulkwriters", run="^TestC14BulkWriters$", checks=(20, 200), shards=(2, 8), shrinktime="5s"),
            dict(name="regress", run="^TestRegressNilKeyAffected$", shards=(1, 1)),
        ],
    ),
    "C10": dict(
        pkg="./c10", level="exploration",
        runs=[
            dict(name="failedcommit", run="^TestPropFailedCommit$", checks=(150, 1500), shards=(2, 8), shrinktime="10s"),
            dict(name="writers", run="^TestPropConcurrentWriters$", checks=(150, 1500), shards=(2, 8), shrinktime="10s"),
            dict(name="mock", run="^TestPropMock$", checks=(8000, 50000), shards=(4, 16), shrinktime="15s"),
            dict(name="pairs", run="^TestExhaustivePairs$", shards=(2, 4)),
            dict(name="badger", run="^TestPropBadger$", checks=(100, 1000), shards=(2, 8), shrinktime="15s"),
            dict(name="gets", run="^TestPropConcurrentGets$", checks=(400, 4000), shards=(4, 16), shrinktime="5s"),
            dict(name="regress", run="^TestRegress", shards=(1, 1)),
        ],
    ),
    "C12": dict(
        pkg="./c12", level="fault_enumeration",
        runs=[
            dict(name="enum", run="^TestCrashEnumeration$", shards=(4, 8)),
            dict(name="random", run="^TestRandomTimeKills$", shards=(2, 8)),
            dict(name="initrace", run="^TestInitRace$", checks=(150, 2000), shards=(2, 8), shrinktime="5s"),
            dict(name="rebuildrace", run="^TestRebuildRace$", checks=(120, 1500), shards=(2, 8), shrinktime="5s"),
            dict(name="bulk", run="^TestBulkRebuild$", checks=(8, 80), shards=(2, 8), shrinktime="5s"),
            dict(name="rebuildwriters", run="^TestRebuildWriters$", checks=(30, 400), shards=(2, 8), shrinktime="5s"),
            dict(name="regress", run="^TestRegress", shards=(1, 1)),
        ],
    ),
    "C20": dict(
        pkg="./c20", level="exploration",
        runs=[
            dict(name="paralleladds", run="^TestPropParallelAdds$", checks=(60, 600), shards=(2, 8), shrinktime="5s"),
            dict(name="fold", run="^TestPropFold$", checks=(500, 5000), shards=(4, 16), shrinktime="20s"),
            dict(name="concurrent", run="^TestPropConcurrentFold$", checks=(60, 600), shards=(4, 16), shrinktime="5s"),
            dict(name="qcoll", run="^TestPropQueryCollection$", checks=(150, 1500), shards=(4, 16), shrinktime="10s"),
            dict(name="regress", run="^TestRegress", shards=(1, 1)),
        ],
    ),
    "C16": dict(
        pkg="./c16", level="exploration",
        runs=[
            dict(name="race", run="^TestPropRaces$", race=True, checks=(100, 1000), shards=(8, 16), shrinktime="1s"),
        ],
    ),
}
