package c18

import (
	"bytes"
	"encoding/json"
	"fmt"
	"os"
	"reflect"
	"strings"
	"testing"
	"unicode/utf8"

	res "github.com/jirenius/go-res"
	"github.com/jirenius/go-res/resprot"
	"github.com/jirenius/go-res/store"
	"pgregory.net/rapid"

	"verifharness/internal/evid"
	"verifharness/internal/gen"
	"verifharness/internal/refmux"
	"verifharness/internal/reqcase"
	"verifharness/internal/script"
)

const prop = "C18"

func TestMain(m *testing.M) { os.Exit(evid.Main(m)) }

var ev = evid.For(prop)

func init() {
	ev.SetRule("cases = (1) valid UTF-8 strings through Ref/SoftRef marshal+unmarshal, (2) JSON values through MarshalDataValue/UnmarshalDataValue, (3) JSON texts (random insignificant whitespace, member order, extra and duplicate members) through store.Value parsing against a reference classifier, and Equal on generated triples, (4) responses of generated handler outcomes parsed by resprot; a case is non-trivial when the string needs >=1 escape or has >=1 multi-byte rune, the JSON text has whitespace/extra/duplicate members, or the response carries meta or nested data; distinct = hash of the input (5) the same response oracle on concurrent batches; (6) resprot.SendRequest end to end against a live handler that calls Timeout 0-4 times before replying (non-trivial with >=2 pre-responses).")
	ev.Assume("member names are generated in the protocol's exact case (encoding/json's case-insensitive matching is shared stdlib behaviour outside the property)")
	ev.Assume("objects carrying more than one of rid/action/data, an ill-typed soft member, duplicate members or {\"data\":<primitive>} vs primitive are protocol-ambiguous: only no-panic (and for data-primitives: either class) is asserted")
}

func needsEscape(s string) bool {
	b, _ := json.Marshal(s)
	return len(b) != len(s)+2 || len(s) != utf8.RuneCountInString(s)
}

// ---- (1) references ------------------------------------------------------------

func checkRef(s string) string {
	for _, soft := range []bool{false, true} {
		var b []byte
		var err error
		if soft {
			b, err = json.Marshal(res.SoftRef(s))
		} else {
			b, err = json.Marshal(res.Ref(s))
		}
		if err != nil {
			return fmt.Sprintf("marshal of reference %q (soft=%v) failed: %v", s, soft, err)
		}
		var m map[string]interface{}
		if err := json.Unmarshal(b, &m); err != nil {
			return fmt.Sprintf("reference %q marshals to invalid JSON %q: %v", s, b, err)
		}
		want := map[string]interface{}{"rid": s}
		if soft {
			want["soft"] = true
		}
		if !reflect.DeepEqual(m, want) {
			return fmt.Sprintf("reference %q (soft=%v) marshals to %s, expected %v", s, soft, b, want)
		}
		if soft {
			var r res.SoftRef
			if err := json.Unmarshal(b, &r); err != nil || string(r) != s {
				return fmt.Sprintf("SoftRef %q does not unmarshal back: %q %v", s, r, err)
			}
		} else {
			var r res.Ref
			if err := json.Unmarshal(b, &r); err != nil || string(r) != s {
				return fmt.Sprintf("Ref %q does not unmarshal back: %q %v", s, r, err)
			}
		}
		// inside containers
		wrap, err := json.Marshal(map[string]interface{}{"a": []interface{}{res.Ref(s), res.SoftRef(s)}})
		if err != nil {
			return fmt.Sprintf("marshal of container with reference %q failed: %v", s, err)
		}
		var back struct {
			A []map[string]interface{} `json:"a"`
		}
		if err := json.Unmarshal(wrap, &back); err != nil || len(back.A) != 2 || back.A[0]["rid"] != s || back.A[1]["rid"] != s || back.A[1]["soft"] != true {
			return fmt.Sprintf("container with reference %q decodes to %s", s, wrap)
		}
	}
	if got, want := res.Ref(s).IsValid(), refmux.ValidRID(s); got != want {
		return fmt.Sprintf("Ref(%q).IsValid()=%v want %v", s, got, want)
	}
	if got, want := res.SoftRef(s).IsValid(), refmux.ValidRID(s); got != want {
		return fmt.Sprintf("SoftRef(%q).IsValid()=%v want %v", s, got, want)
	}
	// a reference inside a data value stays a plain object (not a reference)
	dv, err := json.Marshal(res.NewDataValue(map[string]string{"rid": s}))
	if err != nil {
		return fmt.Sprintf("NewDataValue with rid %q: %v", s, err)
	}
	var dm struct {
		Data map[string]string `json:"data"`
	}
	if err := json.Unmarshal(dv, &dm); err != nil || dm.Data["rid"] != s {
		return fmt.Sprintf("NewDataValue({rid:%q}) marshals to %s", s, dv)
	}
	return ""
}

func TestPropRefs(t *testing.T) {
	rapid.Check(t, func(t *rapid.T) {
		s := rapid.OneOf(gen.StringTricky(), gen.RID()).Draw(t, "s")
		if msg := checkRef(s); msg != "" {
			t.Fatalf("%s", msg)
		}
		ev.Case(needsEscape(s), evid.Hash("ref", s), "ref")
		ev.Sample("ref", 2, func() interface{} { return s })
	})
}

// ---- (2) data values -----------------------------------------------------------

func checkDataValue(text string) string {
	v := gen.Decode([]byte(text))
	b, err := resprot.MarshalDataValue(v)
	if err != nil {
		return fmt.Sprintf("MarshalDataValue(%s) failed: %v", text, err)
	}
	t := strings.TrimSpace(text)
	wrapped := t[0] == '{' || t[0] == '['
	if wrapped {
		var m map[string]json.RawMessage
		if err := json.Unmarshal(b, &m); err != nil || len(m) != 1 || !gen.JSONEqual(m["data"], []byte(text)) {
			return fmt.Sprintf("MarshalDataValue(%s) = %s, expected {\"data\":...}", text, b)
		}
	} else if !gen.JSONEqual(b, []byte(text)) {
		return fmt.Sprintf("MarshalDataValue(%s) = %s, expected the bare primitive", text, b)
	}
	var back json.RawMessage
	if err := resprot.UnmarshalDataValue(b, &back); err != nil {
		return fmt.Sprintf("UnmarshalDataValue(%s) failed: %v", b, err)
	}
	if !gen.JSONEqual(back, []byte(text)) {
		return fmt.Sprintf("UnmarshalDataValue(MarshalDataValue(%s)) = %s", text, back)
	}
	// and into a typed Go value
	var typed, ref interface{}
	if json.Unmarshal([]byte(text), &ref) == nil {
		if err := resprot.UnmarshalDataValue(b, &typed); err != nil || !reflect.DeepEqual(typed, ref) {
			return fmt.Sprintf("UnmarshalDataValue(MarshalDataValue(%s)) into interface{} = %#v (%v), want %#v", text, typed, err, ref)
		}
	}
	return ""
}

func checkUnmarshalDataValueAccepts(text string) string {
	var out json.RawMessage
	var msg string
	func() {
		defer func() {
			if r := recover(); r != nil {
				msg = fmt.Sprintf("UnmarshalDataValue(%q) panicked: %v", text, r)
			}
		}()
		err := resprot.UnmarshalDataValue([]byte(text), &out)
		if !json.Valid([]byte(text)) {
			if err == nil {
				msg = fmt.Sprintf("UnmarshalDataValue(%q) accepted invalid JSON", text)
			}
			return
		}
		t := strings.TrimLeft(text, " \t\r\n")
		switch t[0] {
		case '[':
			if err == nil {
				msg = fmt.Sprintf("UnmarshalDataValue(%q) accepted an array", text)
			}
		case '{':
			var m map[string]json.RawMessage
			_ = json.Unmarshal([]byte(text), &m)
			_, has := m["data"]
			if dupKeys(text) {
				return
			}
			for k := range m {
				if k != "data" && strings.EqualFold(k, "data") {
					return // case variants: stdlib matching, outside the property
				}
			}
			if has && string(m["data"]) == "null" {
				return // {"data":null}: protocol-valid data value null; library's treatment unspecified
			}
			if has != (err == nil) {
				msg = fmt.Sprintf("UnmarshalDataValue(%q): error=%v, has data member=%v", text, err, has)
			} else if has {
				if !gen.JSONEqual(out, m["data"]) {
					msg = fmt.Sprintf("UnmarshalDataValue(%q) = %s want %s", text, out, m["data"])
				}
			}
		default:
			if err != nil {
				msg = fmt.Sprintf("UnmarshalDataValue(%q) rejected a primitive: %v", text, err)
			}
		}
	}()
	return msg
}

func dupKeys(text string) bool {
	d := json.NewDecoder(strings.NewReader(text))
	tok, err := d.Token()
	if err != nil || tok != json.Delim('{') {
		return false
	}
	seen := map[string]bool{}
	for d.More() {
		k, err := d.Token()
		if err != nil {
			return false
		}
		ks, _ := k.(string)
		if seen[strings.ToLower(ks)] {
			return true
		}
		seen[strings.ToLower(ks)] = true
		var skip json.RawMessage
		if d.Decode(&skip) != nil {
			return false
		}
	}
	return false
}

func TestPropDataValue(t *testing.T) {
	rapid.Check(t, func(t *rapid.T) {
		text := gen.JSONText(3).Draw(t, "json")
		if msg := checkDataValue(text); msg != "" {
			t.Fatalf("%s", msg)
		}
		ws := genValueText().Draw(t, "valuetext")
		if msg := checkUnmarshalDataValueAccepts(ws); msg != "" {
			t.Fatalf("%s", msg)
		}
		ev.Case(strings.ContainsAny(text, "{[\\"), evid.Hash("dv", text, ws), "datavalue")
		ev.Sample("datavalue", 2, func() interface{} { return []string{text, ws} })
	})
}

// ---- (3) store.Value -------------------------------------------------------------

const (
	cInvalid    = "invalid"
	cPrim       = "primitive"
	cRef        = "reference"
	cSoft       = "softreference"
	cData       = "data"
	cDelete     = "delete"
	cUnspec     = "unspecified"
	cDataOrPrim = "data-or-primitive"
)

// classify is the reference classifier over the generically decoded tree.
func classify(text string) (class string, rid string, extras bool) {
	if !json.Valid([]byte(text)) {
		return cInvalid, "", false
	}
	t := strings.TrimLeft(text, " \t\r\n")
	switch t[0] {
	case '[':
		return cInvalid, "", false
	case '{':
	default:
		return cPrim, "", false
	}
	if dupKeys(text) {
		return cUnspec, "", false
	}
	var m map[string]json.RawMessage
	_ = json.Unmarshal([]byte(text), &m)
	n := 0
	for _, k := range []string{"rid", "action", "data"} {
		if _, ok := m[k]; ok {
			n++
		}
	}
	for k := range m {
		lk := strings.ToLower(k)
		if k != "rid" && k != "action" && k != "data" && k != "soft" {
			extras = true
			if lk == "rid" || lk == "action" || lk == "data" || lk == "soft" {
				return cUnspec, "", true
			}
		}
	}
	switch {
	case n == 0:
		return cInvalid, "", extras
	case n > 1:
		return cUnspec, "", extras
	}
	if v, ok := m["rid"]; ok {
		var s *string
		if json.Unmarshal(v, &s) != nil || s == nil {
			if string(v) == "null" {
				return cUnspec, "", extras
			}
			return cInvalid, "", extras
		}
		if *s == "" || !refmux.ValidRID(*s) {
			return cInvalid, "", extras
		}
		if sv, ok := m["soft"]; ok {
			switch string(sv) {
			case "true":
				return cSoft, *s, extras
			case "false":
				return cRef, *s, extras
			}
			return cUnspec, "", extras
		}
		return cRef, *s, extras
	}
	if _, ok := m["soft"]; ok {
		extras = true
	}
	if v, ok := m["action"]; ok {
		var s *string
		if json.Unmarshal(v, &s) != nil || s == nil {
			if string(v) == "null" {
				return cUnspec, "", extras
			}
			return cInvalid, "", extras
		}
		if *s == "delete" {
			return cDelete, "", extras
		}
		return cInvalid, "", extras
	}
	v := m["data"]
	// (null is a JSON value like any other: {"data":null} wraps the primitive null)
	if v[0] == '{' || v[0] == '[' {
		return cData, "", extras
	}
	return cDataOrPrim, "", extras
}

func typeName(t store.ValueType) string {
	switch t {
	case store.ValueTypePrimitive:
		return cPrim
	case store.ValueTypeReference:
		return cRef
	case store.ValueTypeSoftReference:
		return cSoft
	case store.ValueTypeData:
		return cData
	case store.ValueTypeDelete:
		return cDelete
	}
	return "none"
}

func parseValue(text string) (v store.Value, err error, pan interface{}) {
	defer func() { pan = recover() }()
	err = json.Unmarshal([]byte(text), &v)
	return
}

func checkValue(text string) string {
	v, err, pan := parseValue(text)
	if pan != nil {
		return fmt.Sprintf("store.Value parsing of %q panicked: %v", text, pan)
	}
	class, rid, extras := classify(text)
	switch class {
	case cUnspec:
		return ""
	case cInvalid:
		if err == nil {
			return fmt.Sprintf("store.Value accepted %q as %s; the protocol defines it as invalid", text, typeName(v.Type))
		}
		return ""
	}
	if err != nil {
		if extras {
			return "" // extra members: rejecting is tolerated
		}
		return fmt.Sprintf("store.Value rejected %q (%v); the protocol defines it as %s", text, err, class)
	}
	got := typeName(v.Type)
	if class == cDataOrPrim {
		if got != cData && got != cPrim {
			return fmt.Sprintf("store.Value classified %q as %s", text, got)
		}
	} else if got != class {
		return fmt.Sprintf("store.Value classified %q as %s; the protocol defines it as %s", text, got, class)
	}
	if (class == cRef || class == cSoft) && v.RID != rid {
		return fmt.Sprintf("store.Value of %q has RID %q want %q", text, v.RID, rid)
	}
	// marshalling back gives a JSON-equal text (for a {"data":primitive} either form)
	b, merr := json.Marshal(v)
	if merr != nil {
		return fmt.Sprintf("store.Value of %q does not marshal: %v", text, merr)
	}
	if !gen.JSONEqual(b, []byte(text)) {
		if class == cDataOrPrim {
			var m map[string]json.RawMessage
			_ = json.Unmarshal([]byte(text), &m)
			if gen.JSONEqual(b, m["data"]) {
				return ""
			}
		}
		return fmt.Sprintf("store.Value of %q marshals back to %s", text, b)
	}
	return ""
}

// canonical protocol value of a text for the Equal => JSON equality check
func canonical(text string) string {
	class, rid, _ := classify(text)
	switch class {
	case cRef:
		return "ref:" + rid
	case cSoft:
		return "soft:" + rid
	case cDelete:
		return "delete"
	case cData, cDataOrPrim:
		var m map[string]json.RawMessage
		_ = json.Unmarshal([]byte(text), &m)
		b, _ := json.Marshal(gen.Decode(m["data"]))
		return "val:" + string(b)
	case cPrim:
		b, _ := json.Marshal(gen.Decode([]byte(text)))
		return "val:" + string(b)
	}
	return "?" + text
}

// genValueText generates JSON texts around the RES value grammar.
func genValueText() *rapid.Generator[string] {
	ws := rapid.SampledFrom([]string{"", "", " ", "\n", "\t ", "\r\n  "})
	return rapid.Custom(func(t *rapid.T) string {
		k := rapid.IntRange(0, 12).Draw(t, "vtkind")
		switch {
		case k <= 2:
			return ws.Draw(t, "ws") + gen.JSONText(2).Draw(t, "json") + ws.Draw(t, "ws")
		case k == 3:
			return rapid.SampledFrom([]string{"", " ", "{", "[1,", "nul", "{\"rid\":", "\"abc", "{\"rid\":\"a\"}}", "tru", "01", "{'rid':'a'}"}).Draw(t, "broken")
		}
		type member struct{ k, v string }
		var ms []member
		ridv := func() string {
			b, _ := json.Marshal(rapid.OneOf(gen.RID(), rapid.SampledFrom([]string{"", "a..b", "a.*", "é", "a b", ".a", "a?", "?", "a.>"})).Draw(t, "ridv"))
			return string(b)
		}
		switch k {
		case 4, 5:
			ms = append(ms, member{"rid", ridv()})
			if rapid.Bool().Draw(t, "withsoft") {
				ms = append(ms, member{"soft", rapid.SampledFrom([]string{"true", "false", "true", "1", "\"true\"", "null"}).Draw(t, "soft")})
			}
		case 6:
			ms = append(ms, member{"action", rapid.SampledFrom([]string{`"delete"`, `"delete"`, `"remove"`, `""`, `5`, `null`, `"Delete"`}).Draw(t, "action")})
		case 7, 8:
			ms = append(ms, member{"data", gen.JSONText(2).Draw(t, "data")})
		case 9:
			ms = append(ms, member{"rid", ridv()}, member{rapid.SampledFrom([]string{"action", "data"}).Draw(t, "second"), `"delete"`})
		case 10:
			ms = append(ms, member{"rid", rapid.SampledFrom([]string{"5", "null", "[\"a\"]", "{}", "true"}).Draw(t, "badrid")})
		case 11:
			ms = append(ms, member{rapid.SampledFrom([]string{"foo", "soft", "RID", "Data", "ridx"}).Draw(t, "otherkey"), gen.JSONText(1).Draw(t, "other")})
		default:
			ms = append(ms, member{"rid", ridv()}, member{"rid", ridv()})
		}
		if rapid.IntRange(0, 3).Draw(t, "extra") == 0 {
			ms = append(ms, member{rapid.SampledFrom([]string{"foo", "x", "é", "meta"}).Draw(t, "extrakey"), gen.JSONText(1).Draw(t, "extraval")})
		}
		idx := make([]int, len(ms))
		for i := range idx {
			idx[i] = i
		}
		idx = rapid.Permutation(idx).Draw(t, "order")
		var sb strings.Builder
		sb.WriteString(ws.Draw(t, "ws"))
		sb.WriteByte('{')
		for j, i := range idx {
			if j > 0 {
				sb.WriteByte(',')
			}
			sb.WriteString(ws.Draw(t, "ws"))
			kb, _ := json.Marshal(ms[i].k)
			sb.Write(kb)
			sb.WriteString(ws.Draw(t, "ws") + ":" + ws.Draw(t, "ws"))
			sb.WriteString(ms[i].v)
		}
		sb.WriteString(ws.Draw(t, "ws") + "}" + ws.Draw(t, "ws"))
		return sb.String()
	})
}

func TestPropStoreValue(t *testing.T) {
	rapid.Check(t, func(t *rapid.T) {
		text := genValueText().Draw(t, "text")
		if msg := checkValue(text); msg != "" {
			t.Fatalf("%s", msg)
		}
		// direct UnmarshalJSON call on valid JSON texts with surrounding whitespace
		if json.Valid([]byte(text)) {
			var v store.Value
			var pan interface{}
			func() {
				defer func() { pan = recover() }()
				_ = v.UnmarshalJSON([]byte(text))
			}()
			if pan != nil {
				t.Fatalf("Value.UnmarshalJSON(%q) panicked: %v", text, pan)
			}
		}
		// a parsed value is its own: the caller may reuse the buffer the text was parsed from
		// (a scanner's or a database item's byte slice) without the value changing
		for _, direct := range []bool{false, true} {
			buf := []byte(text)
			var v store.Value
			var err error
			if direct {
				if !json.Valid(buf) {
					continue
				}
				err = v.UnmarshalJSON(buf)
			} else {
				err = json.Unmarshal(buf, &v)
			}
			if err != nil {
				continue
			}
			before, _ := json.Marshal(v)
			typ, rid, inner := v.Type, v.RID, string(v.Inner)
			for i := range buf {
				buf[i] = '#'
			}
			after, _ := json.Marshal(v)
			if string(before) != string(after) || v.Type != typ || v.RID != rid || string(v.Inner) != inner {
				t.Fatalf("store.Value parsed from %q (direct UnmarshalJSON call: %v) changed when the caller reused its buffer: %s / inner %q became %s / inner %q", text, direct, before, inner, after, v.Inner)
			}
		}
		class, _, extras := classify(text)
		nt := json.Valid([]byte(text)) && (strings.TrimSpace(text) != text || strings.ContainsAny(text, " \n\t") || extras || class == cUnspec)
		ev.Case(nt, evid.Hash("sv", text), "storevalue", "class-"+class)
		ev.Sample("storevalue-"+class, 1, func() interface{} { return text })
	})
}

func TestPropValueEqual(t *testing.T) {
	rapid.Check(t, func(t *rapid.T) {
		base := genValueText().Draw(t, "a")
		texts := []string{base, genValueText().Draw(t, "b"), genValueText().Draw(t, "c")}
		// make equal-looking variants likely
		if rapid.Bool().Draw(t, "variant") {
			texts[1] = " " + base + "\n"
		}
		if rapid.Bool().Draw(t, "variant2") {
			texts[2] = texts[1]
		}
		// strings written by other encoders: the same or different content behind escapes
		if rapid.IntRange(0, 3).Draw(t, "strings") == 0 {
			piece := rapid.SampledFrom([]string{"a", "b", "\\/", "/", "\\u0041", "A", "\\ud83d\\ude00", "\\ud83d\\ude01", "😀", "\\n", "\\u000a", "\\u003c", "<", "http:\\/\\/", "http://", "\\\\", "\\\"", "é", "\\u00e9"})
			for i := range texts {
				texts[i] = "\"" + strings.Join(rapid.SliceOfN(piece, 0, 3).Draw(t, "pieces"), "") + "\""
				if rapid.IntRange(0, 3).Draw(t, "asdata") == 0 {
					texts[i] = "{\"data\":" + texts[i] + "}"
				}
			}
		}
		var vs []store.Value
		var ts []string
		for _, x := range texts {
			v, err, pan := parseValue(x)
			if pan != nil {
				t.Fatalf("panic parsing %q: %v", x, pan)
			}
			if c, _, _ := classify(x); err == nil && c != cUnspec && c != cInvalid {
				vs = append(vs, v)
				ts = append(ts, x)
			}
		}
		eqs := 0
		for i := range vs {
			if !vs[i].Equal(vs[i]) {
				t.Fatalf("Equal is not reflexive on %q", ts[i])
			}
			for j := range vs {
				e := vs[i].Equal(vs[j])
				if e != vs[j].Equal(vs[i]) {
					t.Fatalf("Equal is not symmetric on %q / %q", ts[i], ts[j])
				}
				if e && i != j {
					eqs++
					if canonical(ts[i]) != canonical(ts[j]) {
						t.Fatalf("Equal(%q, %q) is true but the values differ (%s vs %s)", ts[i], ts[j], canonical(ts[i]), canonical(ts[j]))
					}
				}
				for k := range vs {
					if e && vs[j].Equal(vs[k]) && !vs[i].Equal(vs[k]) {
						t.Fatalf("Equal is not transitive on %q %q %q", ts[i], ts[j], ts[k])
					}
				}
			}
		}
		ev.Case(eqs > 0, evid.Hash("eq", strings.Join(texts, "\x00")), "value-equal")
	})
}

// ---- (4) composition: service responses parsed by resprot ------------------------

func checkResponse(c *reqcase.Case, rq *reqcase.ReqSpec, ob reqcase.Obs) (string, bool) {
	d := reqcase.Route(c, rq)
	if d.Probe || ob.Delivered != 1 || !d.WellFormed || len(ob.Resp) != 1 {
		return "", false
	}
	data := ob.Resp[0]
	p := resprot.ParseResponse(data)
	n := 0
	for _, b := range []bool{p.HasResult(), p.HasResource(), p.HasError()} {
		if b {
			n++
		}
	}
	if n != 1 {
		return fmt.Sprintf("response %s is classified as %d of result/resource/error by the client package", data, n), false
	}
	// the typed accessors agree with the classification
	{
		var x interface{}
		_, e1 := p.ParseModel(&x)
		_, e2 := p.ParseCollection(&x)
		_, _, e3 := p.AccessResult()
		e4 := p.ParseResult(&x)
		switch {
		case p.HasError():
			for i, e := range []error{e1, e2, e3, e4} {
				if e == nil || e.Error() != p.Error.Error() {
					return fmt.Sprintf("error response %s: typed accessor %d returns %v, expected the response's error", data, i, e), false
				}
			}
		case p.HasResource():
			for i, e := range []error{e1, e2, e3, e4} {
				if e == nil {
					return fmt.Sprintf("resource response %s: typed accessor %d (model/collection/access/result) succeeds", data, i), false
				}
			}
		default:
			if e4 != nil {
				return fmt.Sprintf("result response %s: ParseResult fails: %v", data, e4), false
			}
			if e1 == nil && e2 == nil {
				return fmt.Sprintf("result response %s is accepted both as a model and as a collection", data), false
			}
		}
	}
	nt := strings.Contains(string(data), `"meta"`) || strings.Contains(string(data), `\`) || bytes.Count(data, []byte("{")) > 2
	if d.Marker == "" {
		if !d.Silent && !p.HasError() {
			return fmt.Sprintf("response %s to an uninvocable request is not parsed as an error", data), nt
		}
		return "", nt
	}
	o := script.Predict(rq.Script, reqcase.Ctx(c, rq, d))
	switch o.Class {
	case "error":
		if !p.HasError() {
			return fmt.Sprintf("request %s script %s: response %s parsed as non-error, expected error %s", rq.Subject, rq.Script, data, o.Code), nt
		}
		if p.Error.Code != o.Code || (o.MessageExact && p.Error.Message != o.Message) {
			return fmt.Sprintf("request %s script %s: client sees error %+v, handler outcome is %s %q", rq.Subject, rq.Script, *p.Error, o.Code, o.Message), nt
		}
	case "resource":
		if !p.HasResource() || string(p.Resource) != o.Resource {
			return fmt.Sprintf("request %s script %s: client sees resource %q (HasResource=%v), handler supplied %q; response %s", rq.Subject, rq.Script, p.Resource, p.HasResource(), o.Resource, data), nt
		}
	case "result":
		if !p.HasResult() {
			return fmt.Sprintf("request %s script %s: response %s is not parsed as a result (error: %v)", rq.Subject, rq.Script, data, p.Error), nt
		}
		var raw json.RawMessage
		if err := p.ParseResult(&raw); err != nil {
			return fmt.Sprintf("request %s: ParseResult failed on %s: %v", rq.Subject, data, err), nt
		}
		if raw == nil {
			raw = json.RawMessage("null")
		}
		if !gen.JSONEqual(raw, o.Result) {
			return fmt.Sprintf("request %s script %s: client decodes result %s, handler supplied %s", rq.Subject, rq.Script, raw, o.Result), nt
		}
		// typed accessors
		var exp map[string]json.RawMessage
		_ = json.Unmarshal(o.Result, &exp)
		switch d.Kind {
		case "get":
			if m, ok := exp["model"]; ok && string(m) != "null" {
				var got json.RawMessage
				q, err := p.ParseModel(&got)
				var wq string
				_ = json.Unmarshal(exp["query"], &wq)
				if err != nil || !gen.JSONEqual(got, m) || q != wq {
					return fmt.Sprintf("ParseModel on %s: model %s query %q err %v; supplied %s %q", data, got, q, err, m, wq), nt
				}
			}
			if m, ok := exp["collection"]; ok && string(m) != "null" {
				var got json.RawMessage
				q, err := p.ParseCollection(&got)
				var wq string
				_ = json.Unmarshal(exp["query"], &wq)
				if err != nil || !gen.JSONEqual(got, m) || q != wq {
					return fmt.Sprintf("ParseCollection on %s: collection %s query %q err %v; supplied %s %q", data, got, q, err, m, wq), nt
				}
			}
		case "access":
			g, cl, err := p.AccessResult()
			var w struct {
				Get  bool
				Call string
			}
			_ = json.Unmarshal(o.Result, &w)
			if err != nil || g != w.Get || cl != w.Call {
				return fmt.Sprintf("AccessResult on %s: %v %q %v; supplied %v %q", data, g, cl, err, w.Get, w.Call), nt
			}
		}
	}
	return "", nt
}

func TestPropResponses(t *testing.T) {
	rapid.Check(t, func(t *rapid.T) {
		c := reqcase.GenCase().Draw(t, "case")
		r := reqcase.Run(&c)
		if r.StartErr != nil || r.WaitErr != nil {
			t.Fatalf("run: %v %v", r.StartErr, r.WaitErr)
		}
		for i := range r.Obs {
			msg, nt := checkResponse(&c, &c.Reqs[i], r.Obs[i])
			ev.Case(nt, evid.Hash("resp", fmt.Sprint(c.Handlers), c.Reqs[i].Subject, c.Reqs[i].Payload, c.Reqs[i].Script.String()), "response")
			if msg != "" {
				t.Fatalf("%s\ncase: %s", msg, c)
			}
		}
	})
}

// ---- native fuzz targets (thorough) -----------------------------------------------

func FuzzStoreValue(f *testing.F) {
	for _, s := range []string{`5`, `"a"`, `{"rid":"a.b"}`, `{"rid":"a","soft":true}`, `{"action":"delete"}`, `{"data":{"a":[1]}}`, `[1]`, ` { "rid" : "x" } `, `{"rid":"a","action":"delete"}`, `null`} {
		f.Add(s)
	}
	f.Fuzz(func(t *testing.T, text string) {
		if msg := checkValue(text); msg != "" {
			t.Fatal(msg)
		}
	})
}

func FuzzUnmarshalDataValue(f *testing.F) {
	for _, s := range []string{`5`, `{"data":true}`, `{"foo":"bar"}`, `[1,2,3]`, ` {"data":["a"]}`, ``, `{"data":null}`} {
		f.Add(s)
	}
	f.Fuzz(func(t *testing.T, text string) {
		if msg := checkUnmarshalDataValueAccepts(text); msg != "" {
			t.Fatal(msg)
		}
		if json.Valid([]byte(text)) && utf8.ValidString(text) {
			if msg := checkDataValue(text); msg != "" && !strings.Contains(text, "\\u") {
				t.Fatal(msg)
			}
		}
	})
}

func FuzzParseResponse(f *testing.F) {
	for _, s := range []string{`{"result":null}`, `{"resource":{"rid":"a.b"}}`, `{"error":{"code":"a","message":"b"}}`, `{}`, ``, `{"result":{"model":{}},"meta":{"status":200}}`, `[]`} {
		f.Add(s)
	}
	f.Fuzz(func(t *testing.T, text string) {
		p := resprot.ParseResponse([]byte(text))
		n := 0
		for _, b := range []bool{p.HasResult(), p.HasResource(), p.HasError()} {
			if b {
				n++
			}
		}
		if n != 1 {
			t.Fatalf("ParseResponse(%q) classified as %d classes", text, n)
		}
		var raw map[string]json.RawMessage
		if json.Unmarshal([]byte(text), &raw) != nil && !p.HasError() {
			t.Fatalf("ParseResponse(%q): not a JSON object but not an error", text)
		}
	})
}
