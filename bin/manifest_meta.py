HOOK_COMMITS = "aaae3172ef50f67df568a7a6c7f61adff9962da7 ".split()
NOT_APPLICABLE = {}
META = {
    "C17": dict(
        technique="bounded-exhaustive enumeration + rapid property-based testing + native fuzzing against a token-wise reference grammar",
        text="Exploration: every (pattern, string) pair over all strings of length <=4 (quick) / <=5 (thorough) on {a,b,.,$,*,>} is checked against a brute-force token-wise reference (match, values, substitution round-trip, covering, wildcard index, validity agreement with Handle/NewMux/Mount/IsValidRID/Call/Auth); rapid generates longer patterns, near-miss names, tag maps and IDTransformer round-trips; thorough adds a coverage-guided fuzz campaign. Exhaustive inside the bound, sampled beyond it.",
        note="Trusted: the reference grammar in harness/internal/refmux (written from the Handle/Pattern doc comments and the property text), Go 1.26.8 toolchain. Laws are asserted only on documented input domains (valid pattern; valid name or valid pattern).",
    ),
    "C06": dict(
        technique="bounded-exhaustive enumeration + rapid property-based testing (differential against a brute-force reference router) + native fuzzing for never-panics",
        text="Exploration: registration plans (pattern sets spread over root mux, Mount, Route, NewMux(path), handlers added before/after mounting or through a mounted prefix, group templates, listeners) are executed on real muxes and on a brute-force reference router; every lookup is compared for winner, params, group and listener set; registration outcomes (accepted / rejected) are compared with the documented rules. Exhaustive for all sets of <=2 patterns of <=3 tokens over a 6-token alphabet x 7 arrangements x all names of <=4 tokens; random beyond (<=12 patterns, <=6 tokens, nested mounts); arbitrary strings only for no-panic/soundness.",
        note="Trusted: harness/internal/refmux (brute-force matcher and specificity order written from the Handle doc comment and the property text). Results for syntactically invalid resource names are treated as unspecified apart from no-panic and soundness.",
    ),
}
