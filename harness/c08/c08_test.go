package c08

import (
	"encoding/json"
	"errors"
	"fmt"
	"os"
	"reflect"
	"runtime"
	"sort"
	"strconv"
	"strings"
	"sync"
	"sync/atomic"
	"testing"
	"time"

	res "github.com/jirenius/go-res"
	"pgregory.net/rapid"

	"verifharness/internal/evid"
	"verifharness/internal/fakeconn"
	"verifharness/internal/gen"
	"verifharness/internal/svc"
)

const prop = "C08"

func TestMain(m *testing.M) { os.Exit(evid.Main(m)) }

var ev = evid.For(prop)

func init() {
	ev.SetRule("cases = (service configuration: model / collection / untyped / mounted resources with every combination of present, absent and failing apply handlers and 0-3 listeners registered directly, through Handler.Listeners and on a mounted mux; a list of 1-4 callbacks, each a request handler or a With callback running a script of 1-8 event calls mixed with Timeout and a reply, including invalid calls); one ordered log records apply calls, connection publishes and listener calls, and is compared with the log predicted by a reference interpreter; a case is non-trivial when a callback has >=2 events with >=1 listener and >=1 apply handler, or >=1 failing/no-op apply, or >=1 invalid call; distinct = hash of the case. A concurrent variant submits numbered events from several callbacks per group and checks per-group block order.")
	ev.Assume("values in generated events are marshalable (an unmarshalable event value is logged and skipped by the library; its listener behaviour is not specified by the property)")
	ev.Assume("order among the listeners of one event is not asserted")
}

// EvCall is one event call of a callback script.
type EvCall struct {
	Op    string             `json:"op"` // change add remove create delete custom timeout reply
	Vals  map[string]gen.Val `json:"vals,omitempty"`
	V     *gen.Val           `json:"v,omitempty"`
	Idx   int                `json:"idx,omitempty"`
	Name  string             `json:"name,omitempty"`
	Apply string             `json:"apply,omitempty"` // ok fail noop nilrev
	Rev   *gen.Val           `json:"rev,omitempty"`   // old value(s) returned by the apply handler
	// FailKind: the error of a failing apply handler ("" plain error, notfound, reserr), or the
	// value it panics with instead (panicstring, panicint).
	FailKind string `json:"failKind,omitempty"`
	// ExtraRev: the ApplyChange handler also reports the old value of a property that is not
	// among the changed ones ("version"); the listeners get the revert map as it was returned.
	ExtraRev bool `json:"extraRev,omitempty"`
}

// Callback is one callback.
type Callback struct {
	Via    string   `json:"via"` // with, call, get or access (the request type whose handler runs the script)
	RName  string   `json:"rname"`
	Script []EvCall `json:"script"`
}

// Config is the service configuration.
type Config struct {
	Apply     map[string]bool `json:"apply"`     // kind -> apply handler present (change add remove create delete)
	Listeners map[string]int  `json:"listeners"` // resource class (m c u mm) -> number of listeners
	// Warm: every resource name is looked up (Service.Resource) after the handlers are
	// registered and mounted, and again between the listener registrations.
	Warm bool `json:"warm,omitempty"`
}

// Case is a full case.
type Case struct {
	// PubFail: the connection refuses every event publish (query events aside). The attempts
	// are logged; apply handlers and listeners must run exactly as with a healthy connection.
	PubFail bool `json:"pubFail,omitempty"`
	// ShutdownDuring: the last callback (a With callback) runs its script after Shutdown has been
	// called and has marked the service as stopping, but before it has closed the connection
	// (Shutdown is held at its first hook point meanwhile): the events are events like any other.
	ShutdownDuring bool       `json:"shutdownDuring,omitempty"`
	Cfg            Config     `json:"cfg"`
	Cbs            []Callback `json:"cbs"`
}

func (c Case) String() string { b, _ := json.Marshal(c); return string(b) }

type logEntry struct {
	Kind string // apply pub listener
	Subj string
	Data string
}

func (l logEntry) String() string { return l.Kind + " " + l.Subj + " " + l.Data }

type harness struct {
	conn     *fakeconn.Conn
	mu       sync.Mutex
	cur      *EvCall
	curCb    *Callback
	retained []retainedEvent
	kept     map[string]res.Resource
}

func js(v interface{}) string {
	b, err := json.Marshal(v)
	if err != nil {
		return "!" + err.Error()
	}
	return string(b)
}

func classOf(rname string) string {
	if rname == "svc" {
		return "root" // the resource named like the service (empty pattern)
	}
	t := strings.Split(rname, ".")
	if len(t) >= 2 {
		return t[1]
	}
	return ""
}

func eventSnapshot(id string, e *res.Event) map[string]interface{} {
	return map[string]interface{}{
		"id": id, "name": e.Name, "rname": e.Resource.ResourceName(), "new": js(e.NewValues), "old": js(e.OldValues), "value": js(e.Value), "idx": e.Idx, "data": js(e.Data), "payload": js(e.Payload),
	}
}

type retainedEvent struct {
	id   string
	e    *res.Event
	snap string
}

// listener returns the listener with that id. All listeners of a case are closures over one
// function literal, as listeners made by a factory or in a loop are (not inlined: an inlined
// copy per call site would give each its own code).
//
//go:noinline
func (h *harness) listener(id string) func(*res.Event) {
	return func(e *res.Event) {
		snap := eventSnapshot(id, e)
		// a listener may keep the event it was handed (e.g. to batch work until the callback ends)
		h.mu.Lock()
		h.retained = append(h.retained, retainedEvent{id: id, e: e, snap: js(snap)})
		h.mu.Unlock()
		delete(snap, "rname")
		h.conn.Note("listener", e.Resource.ResourceName(), snap)
	}
}

// checkRetained verifies that events handed to listeners earlier still hold what they held then.
func (h *harness) checkRetained() string {
	h.mu.Lock()
	defer h.mu.Unlock()
	for _, r := range h.retained {
		if now := js(eventSnapshot(r.id, r.e)); now != r.snap {
			return fmt.Sprintf("the event handed to listener %s was %s; after later events of the same callback the same *Event reads %s", r.id, r.snap, now)
		}
	}
	h.retained = nil
	return ""
}

// keep stores the request object of a finished handler: an application may hold on to it
// and emit events on it later (from a With callback of the same resource).
func (h *harness) keep(r res.Resource) {
	h.mu.Lock()
	if h.kept == nil {
		h.kept = map[string]res.Resource{}
	}
	h.kept[r.ResourceName()] = r
	h.mu.Unlock()
}

func (h *harness) current() *EvCall {
	h.mu.Lock()
	defer h.mu.Unlock()
	return h.cur
}

func (h *harness) handlerOpts(cfg Config, typ string) []res.Option {
	var o []res.Option
	switch typ {
	case "model":
		o = append(o, res.Model)
	case "collection":
		o = append(o, res.Collection)
	}
	o = append(o, res.Call("do", func(r res.CallRequest) {
		h.mu.Lock()
		cb := h.curCb
		h.mu.Unlock()
		h.exec(r, r, cb.Via, cb.Script)
		h.keep(r)
	}), res.GetResource(func(r res.GetRequest) {
		h.mu.Lock()
		cb := h.curCb
		h.mu.Unlock()
		if cb != nil && cb.Via == "value" && r.ForValue() {
			// the get handler runs because a callback asked for the resource's value: events
			// it emits are events of the resource like any other
			h.exec(r, nil, "with", cb.Script)
			r.NotFound()
			return
		}
		if cb == nil || cb.Via != "get" {
			r.NotFound()
			return
		}
		h.exec(r, r, cb.Via, cb.Script)
		h.keep(r)
	}), res.Access(func(r res.AccessRequest) {
		h.mu.Lock()
		cb := h.curCb
		h.mu.Unlock()
		if cb == nil || cb.Via != "access" {
			r.AccessGranted()
			return
		}
		h.exec(r, r, cb.Via, cb.Script)
		h.keep(r)
	}))
	if cfg.Apply["change"] {
		o = append(o, res.ApplyChange(func(r res.Resource, ch map[string]interface{}) (map[string]interface{}, error) {
			c := h.current()
			h.conn.Note("apply", r.ResourceName(), "change "+js(ch))
			switch c.Apply {
			case "fail":
				return nil, c.failErr()
			case "noop":
				return map[string]interface{}{}, nil
			case "nilrev":
				return nil, nil
			}
			rev := map[string]interface{}{}
			for k := range ch {
				if c.Rev != nil {
					rev[k] = c.Rev.Go()
				} else {
					rev[k] = res.DeleteAction
				}
			}
			if c.ExtraRev {
				rev["version"] = 7
			}
			return rev, nil
		}))
	}
	if cfg.Apply["add"] {
		o = append(o, res.ApplyAdd(func(r res.Resource, v interface{}, idx int) error {
			c := h.current()
			h.conn.Note("apply", r.ResourceName(), fmt.Sprintf("add %s %d", js(v), idx))
			if c.Apply == "fail" {
				return c.failErr()
			}
			return nil
		}))
	}
	if cfg.Apply["remove"] {
		o = append(o, res.ApplyRemove(func(r res.Resource, idx int) (interface{}, error) {
			c := h.current()
			h.conn.Note("apply", r.ResourceName(), fmt.Sprintf("remove %d", idx))
			if c.Apply == "fail" {
				return nil, c.failErr()
			}
			if c.Rev != nil {
				return c.Rev.Go(), nil
			}
			return nil, nil
		}))
	}
	if cfg.Apply["create"] {
		o = append(o, res.ApplyCreate(func(r res.Resource, data interface{}) error {
			c := h.current()
			h.conn.Note("apply", r.ResourceName(), "create "+js(data))
			if c.Apply == "fail" {
				return c.failErr()
			}
			return nil
		}))
	}
	if cfg.Apply["delete"] {
		o = append(o, res.ApplyDelete(func(r res.Resource) (interface{}, error) {
			c := h.current()
			h.conn.Note("apply", r.ResourceName(), "delete")
			if c.Apply == "fail" {
				return nil, c.failErr()
			}
			if c.Rev != nil {
				return c.Rev.Go(), nil
			}
			return nil, nil
		}))
	}
	return o
}

// listenerIDs returns the ids of the listeners of a resource class.
func listenerIDs(cfg Config, class string) []string {
	var ids []string
	for i := 0; i < cfg.Listeners[class]; i++ {
		ids = append(ids, fmt.Sprintf("%s-l%d", class, i))
	}
	return ids
}

func (h *harness) build(cfg Config) *res.Service {
	s := res.NewService("svc")
	s.SetWorkerCount(3)
	types := map[string]string{"m": "model", "c": "collection", "u": "", "mm": "model", "root": "model"}
	// listener i=0: AddListener on the owning mux; i=1: Handler.Listeners of another handler; i=2: AddListener again
	others := map[string]func(*res.Event){}
	for _, class := range []string{"m", "c", "u"} {
		ids := listenerIDs(cfg, class)
		if len(ids) > 1 {
			others[class+".$id"] = h.listener(ids[1])
		}
	}
	for _, class := range []string{"m", "c", "u"} {
		s.Handle(class+".$id", h.handlerOpts(cfg, types[class])...)
	}
	s.Handle("", h.handlerOpts(cfg, "model")...)
	if ids := listenerIDs(cfg, "root"); len(ids) > 1 {
		others[""] = h.listener(ids[1])
	}
	// mounted mux
	sub := res.NewMux("")
	sub.Handle("$id", h.handlerOpts(cfg, "model")...)
	s.Mount("mm", sub)
	warm := func() {
		if !cfg.Warm {
			return
		}
		// resolve every resource between the registration steps
		if _, err := s.Resource("svc"); err != nil {
			panic("warm lookup: " + err.Error())
		}
		for _, class := range []string{"m", "c", "u", "mm"} {
			for _, id := range []string{"1", "2", "abc"} {
				if _, err := s.Resource("svc." + class + "." + id); err != nil {
					panic("warm lookup: " + err.Error())
				}
			}
		}
	}
	warm()
	for _, class := range []string{"m", "c", "u"} {
		ids := listenerIDs(cfg, class)
		if len(ids) > 0 {
			s.AddListener(class+".$id", h.listener(ids[0]))
		}
		if len(ids) > 2 {
			s.AddListener(class+".$id", h.listener(ids[2]))
		}
	}
	if ids := listenerIDs(cfg, "root"); len(ids) > 0 {
		s.AddListener("", h.listener(ids[0]))
		if len(ids) > 2 {
			s.AddListener("", h.listener(ids[2]))
		}
	}
	s.AddHandler("other", res.Handler{Call: map[string]res.CallHandler{"x": func(r res.CallRequest) { r.OK(nil) }}, Listeners: others})
	ids := listenerIDs(cfg, "mm")
	warm()
	if len(ids) > 0 {
		sub.AddListener("$id", h.listener(ids[0]))
	}
	if len(ids) > 1 {
		s.AddListener("mm.$id", h.listener(ids[1]))
	}
	warm()
	if len(ids) > 2 {
		sub.AddListener("$id", h.listener(ids[2]))
	}
	return s
}

// failErr is the error a failing apply handler returns: a plain error or one of the
// library's own error values (whatever its code, the event must not happen).
func (c *EvCall) failErr() error {
	switch c.FailKind {
	case "panicstring":
		// an apply handler may also fail by panicking, with whatever value
		panic("apply failed: " + c.Op)
	case "panicint":
		panic(42)
	case "notfound":
		return res.ErrNotFound
	case "reserr":
		return &res.Error{Code: "custom.apply", Message: "apply failed"}
	}
	return errors.New("apply failed")
}

// requester is what the scripts need of a request: every request type has these.
type requester interface {
	Timeout(time.Duration)
	Error(error)
}

func (h *harness) exec(r res.Resource, req requester, via string, sc []EvCall) {
	for i := range sc {
		c := &sc[i]
		h.mu.Lock()
		h.cur = c
		h.mu.Unlock()
		func() {
			defer func() {
				if v := recover(); v != nil {
					h.conn.Note("panic", r.ResourceName(), c.Op)
				}
			}()
			switch c.Op {
			case "change":
				m := map[string]interface{}{}
				for k, v := range c.Vals {
					m[k] = v.Go()
				}
				r.ChangeEvent(m)
			case "add":
				r.AddEvent(c.V.Go(), c.Idx)
			case "remove":
				r.RemoveEvent(c.Idx)
			case "create":
				r.CreateEvent(c.V.Go())
			case "delete":
				r.DeleteEvent()
			case "custom":
				var p interface{}
				if c.V != nil {
					p = c.V.Go()
				}
				r.Event(c.Name, p)
			case "reaccess":
				r.ReaccessEvent()
			case "timeout":
				if req != nil {
					req.Timeout(time.Duration(c.Idx) * time.Millisecond)
				}
			case "reply":
				if cr, ok := req.(res.CallRequest); ok && via == "call" {
					cr.OK(c.Idx)
				} else if req != nil {
					// get and access requests reply with an error that carries the number
					req.Error(&res.Error{Code: "custom.reply", Message: strconv.Itoa(c.Idx)})
				}
			}
		}()
	}
}

var reserved = map[string]bool{"change": true, "delete": true, "add": true, "remove": true, "patch": true, "reaccess": true, "unsubscribe": true, "query": true}

func validPart(p string) bool {
	if p == "" {
		return false
	}
	for i := 0; i < len(p); i++ {
		c := p[i]
		if c < 33 || c > 126 || c == '?' || c == '*' || c == '>' || c == '.' {
			return false
		}
	}
	return true
}

// predict returns the expected log of one callback and flags for non-triviality.
func predict(cfg Config, cb Callback, reply string) (out []logEntry, failing, invalid int, events int) {
	class := classOf(cb.RName)
	typ := map[string]string{"m": "model", "c": "collection", "u": "", "mm": "model", "root": "model"}[class]
	lids := listenerIDs(cfg, class)
	replied := false
	listeners := func(name string, f map[string]interface{}) {
		for _, id := range lids {
			m := map[string]interface{}{"id": id, "name": name, "new": "null", "old": "null", "value": "null", "idx": 0, "data": "null", "payload": "null"}
			for k, v := range f {
				m[k] = v
			}
			out = append(out, logEntry{"listener", cb.RName, js(m)})
		}
	}
	for _, c := range cb.Script {
		switch c.Op {
		case "change":
			if typ == "collection" {
				invalid++
				out = append(out, logEntry{"panic", cb.RName, c.Op})
				continue
			}
			if len(c.Vals) == 0 {
				invalid++
				continue
			}
			m := map[string]json.RawMessage{}
			for k, v := range c.Vals {
				m[k] = v.Wire()
			}
			old := "null"
			if cfg.Apply["change"] {
				out = append(out, logEntry{"apply", cb.RName, "change " + js(m)})
				switch c.Apply {
				case "fail":
					failing++
					out = append(out, logEntry{"panic", cb.RName, c.Op})
					continue
				case "noop":
					failing++
					continue
				case "nilrev":
				default:
					rev := map[string]json.RawMessage{}
					for k := range c.Vals {
						if c.Rev != nil {
							rev[k] = c.Rev.Wire()
						} else {
							rev[k] = json.RawMessage(`{"action":"delete"}`)
						}
					}
					if c.ExtraRev {
						rev["version"] = json.RawMessage(`7`)
					}
					old = js(rev)
				}
			}
			events++
			out = append(out, logEntry{"pub", "event." + cb.RName + ".change", js(map[string]interface{}{"values": m})})
			listeners("change", map[string]interface{}{"new": js(m), "old": old})
		case "add", "remove":
			if typ == "model" || c.Idx < 0 {
				invalid++
				out = append(out, logEntry{"panic", cb.RName, c.Op})
				continue
			}
			val := "null"
			if c.Op == "add" {
				val = string(c.V.Wire())
			}
			if cfg.Apply[c.Op] {
				if c.Op == "add" {
					out = append(out, logEntry{"apply", cb.RName, fmt.Sprintf("add %s %d", val, c.Idx)})
				} else {
					out = append(out, logEntry{"apply", cb.RName, fmt.Sprintf("remove %d", c.Idx)})
				}
				if c.Apply == "fail" {
					failing++
					out = append(out, logEntry{"panic", cb.RName, c.Op})
					continue
				}
				if c.Op == "remove" && c.Rev != nil {
					val = string(c.Rev.Wire())
				}
			}
			events++
			if c.Op == "add" {
				out = append(out, logEntry{"pub", "event." + cb.RName + ".add", js(map[string]interface{}{"value": json.RawMessage(c.V.Wire()), "idx": c.Idx})})
			} else {
				out = append(out, logEntry{"pub", "event." + cb.RName + ".remove", js(map[string]interface{}{"idx": c.Idx})})
			}
			listeners(c.Op, map[string]interface{}{"value": val, "idx": c.Idx})
		case "create", "delete":
			data := "null"
			if c.Op == "create" {
				data = string(c.V.Wire())
			}
			if cfg.Apply[c.Op] {
				if c.Op == "create" {
					out = append(out, logEntry{"apply", cb.RName, "create " + data})
				} else {
					out = append(out, logEntry{"apply", cb.RName, "delete"})
				}
				if c.Apply == "fail" {
					failing++
					out = append(out, logEntry{"panic", cb.RName, c.Op})
					continue
				}
				if c.Op == "delete" && c.Rev != nil {
					data = string(c.Rev.Wire())
				}
			}
			events++
			out = append(out, logEntry{"pub", "event." + cb.RName + "." + c.Op, ""})
			listeners(c.Op, map[string]interface{}{"data": data})
		case "custom":
			if reserved[c.Name] || !validPart(c.Name) {
				invalid++
				out = append(out, logEntry{"panic", cb.RName, c.Op})
				continue
			}
			events++
			payload := ""
			pl := "null"
			if c.V != nil && string(c.V.Wire()) != "null" {
				payload = string(c.V.Wire())
				pl = payload
			}
			out = append(out, logEntry{"pub", "event." + cb.RName + "." + c.Name, payload})
			listeners(c.Name, map[string]interface{}{"payload": pl})
		case "reaccess":
			out = append(out, logEntry{"pub", "event." + cb.RName + ".reaccess", ""})
		case "timeout":
			if cb.Via != "with" && cb.Via != "query" {
				out = append(out, logEntry{"pub", reply, fmt.Sprintf(`timeout:"%d"`, c.Idx)})
			}
		case "reply":
			if cb.Via != "with" && cb.Via != "query" {
				if replied {
					out = append(out, logEntry{"panic", cb.RName, c.Op})
				} else {
					replied = true
					if cb.Via == "call" {
						out = append(out, logEntry{"pub", reply, fmt.Sprintf(`{"result":%d}`, c.Idx)})
					} else {
						out = append(out, logEntry{"pub", reply, fmt.Sprintf(`{"error":{"code":"custom.reply","message":"%d"}}`, c.Idx)})
					}
				}
			}
		}
	}
	if cb.Via == "query" {
		out = append(out, logEntry{"pub", reply, `{"result":{"events":[]}}`})
		return
	}
	if cb.Via != "with" && !replied {
		out = append(out, logEntry{"pub", reply, `{"error":{"code":"system.internalError","message":"Internal error: missing response"}}`})
	}
	return
}

func canon(kind, data string) string {
	if kind == "pub" && strings.HasPrefix(data, "{") {
		return string(canonJSON([]byte(data)))
	}
	return data
}

func canonJSON(b []byte) []byte {
	v := gen.Decode(b)
	if v == nil {
		return b
	}
	o, err := json.Marshal(v)
	if err != nil {
		return b
	}
	return o
}

// normalise a listener/apply note into comparable text
func noteText(n interface{}) string {
	switch v := n.(type) {
	case string:
		return v
	default:
		return js(v)
	}
}

func sameEntry(got, want logEntry) bool {
	if got.Kind != want.Kind || got.Subj != want.Subj {
		return false
	}
	switch got.Kind {
	case "pub":
		if got.Data == want.Data {
			return true
		}
		return gen.JSONEqual([]byte(got.Data), []byte(want.Data))
	case "apply":
		gi, wi := strings.IndexByte(got.Data, ' '), strings.IndexByte(want.Data, ' ')
		if gi < 0 || wi < 0 {
			return got.Data == want.Data
		}
		if got.Data[:gi] != want.Data[:wi] {
			return false
		}
		gr, wr := got.Data[gi+1:], want.Data[wi+1:]
		if gr == wr {
			return true
		}
		// "add <json> <idx>"
		gj, wj := strings.LastIndexByte(gr, ' '), strings.LastIndexByte(wr, ' ')
		if got.Data[:gi] == "add" && gj > 0 && wj > 0 {
			return gr[gj:] == wr[wj:] && gen.JSONEqual([]byte(gr[:gj]), []byte(wr[:wj]))
		}
		return gen.JSONEqual([]byte(gr), []byte(wr))
	case "listener":
		var g, w map[string]interface{}
		_ = json.Unmarshal([]byte(got.Data), &g)
		_ = json.Unmarshal([]byte(want.Data), &w)
		for _, k := range []string{"id", "name"} {
			if g[k] != w[k] {
				return false
			}
		}
		if fmt.Sprint(g["idx"]) != fmt.Sprint(w["idx"]) {
			return false
		}
		for _, k := range []string{"new", "old", "value", "data", "payload"} {
			gs, _ := g[k].(string)
			ws, _ := w[k].(string)
			if gs != ws && !gen.JSONEqual([]byte(gs), []byte(ws)) {
				return false
			}
		}
		return true
	}
	return got.Data == want.Data
}

// compareLogs compares allowing any order among consecutive listener entries.
func compareLogs(got, want []logEntry) string {
	sortRuns := func(l []logEntry) []logEntry {
		out := append([]logEntry(nil), l...)
		for i := 0; i < len(out); {
			j := i
			for j < len(out) && out[j].Kind == "listener" {
				j++
			}
			if j > i {
				sort.SliceStable(out[i:j], func(a, b int) bool { return listenerID(out[i+a]) < listenerID(out[i+b]) })
				i = j
			} else {
				i++
			}
		}
		return out
	}
	g, w := sortRuns(got), sortRuns(want)
	for i := 0; i < len(g) || i < len(w); i++ {
		if i >= len(g) {
			return fmt.Sprintf("log ends after %d entries, expected further entry %d: %v", len(g), i, w[i])
		}
		if i >= len(w) {
			return fmt.Sprintf("unexpected log entry %d: %v (expected the log to end)", i, g[i])
		}
		if !sameEntry(g[i], w[i]) {
			return fmt.Sprintf("log entry %d is %v, expected %v", i, g[i], w[i])
		}
	}
	return ""
}

func listenerID(e logEntry) string {
	var m map[string]interface{}
	_ = json.Unmarshal([]byte(e.Data), &m)
	s, _ := m["id"].(string)
	return s
}

func runCase(c Case) (string, bool) {
	h := &harness{conn: fakeconn.New()}
	if c.PubFail {
		h.conn.LogFailedPublish = true
		h.conn.FailPublish = func(subject string, n int) error {
			if strings.HasPrefix(subject, "event.") && !strings.HasSuffix(subject, ".query") {
				return errors.New("injected publish failure")
			}
			return nil
		}
	}
	s := h.build(c.Cfg)
	stopping, release := make(chan struct{}), make(chan struct{})
	var hookOnce sync.Once
	var armed atomic.Bool
	r, err := svc.Start(s, h.conn, func(point string, arg interface{}) {
		if point == "shutdown.cas" && armed.Load() {
			hookOnce.Do(func() {
				close(stopping)
				<-release
			})
		}
	})
	if err != nil {
		return "start: " + err.Error(), false
	}
	defer r.Stop()
	nt := false
	for ci, cb := range c.Cbs {
		cb := cb
		duringShutdown := c.ShutdownDuring && ci == len(c.Cbs)-1 && cb.Via == "with"
		start := h.conn.LogLen()
		reply := ""
		switch cb.Via {
		case "with", "kept", "value":
			done := make(chan struct{})
			if err := s.With(cb.RName, func(rr res.Resource) {
				defer close(done)
				if duringShutdown {
					armed.Store(true)
					go func() { _ = s.Shutdown() }()
					select {
					case <-stopping:
					case <-time.After(20 * time.Second):
					}
					defer close(release)
				}
				if cb.Via == "value" {
					h.mu.Lock()
					h.curCb = &cb
					h.mu.Unlock()
					_, _ = rr.Value() // runs the get handler, which runs the script
					return
				}
				if cb.Via == "kept" {
					// the script runs on the request object kept by an earlier handler of this
					// resource, if there was one
					h.mu.Lock()
					if k := h.kept[cb.RName]; k != nil {
						rr = k
					}
					h.mu.Unlock()
				}
				h.exec(rr, nil, "with", cb.Script)
			}); err != nil {
				return "With: " + err.Error(), false
			}
			<-done
		case "query":
			// a query event whose callback runs the script on the QueryRequest (a Resource) when a
			// gateway's query request arrives
			reply = r.NewReply()
			done := make(chan struct{})
			qsubj := ""
			mark := h.conn.LogLen()
			if err := s.With(cb.RName, func(rr res.Resource) {
				defer close(done)
				rr.QueryEvent(func(qr res.QueryRequest) {
					if qr == nil {
						return
					}
					h.exec(qr, nil, "with", cb.Script)
				})
			}); err != nil {
				return "With: " + err.Error(), false
			}
			<-done
			for _, e := range h.conn.LogFrom(mark) {
				if e.Kind == "pub" && e.Subject == "event."+cb.RName+".query" {
					var p struct{ Subject string }
					_ = json.Unmarshal(e.Data, &p)
					qsubj = p.Subject
				}
			}
			if qsubj == "" {
				return "no query event published", false
			}
			start = h.conn.LogLen()
			if n := h.conn.Deliver(qsubj, reply, []byte(`{"query":"a=b"}`)); n != 1 {
				return fmt.Sprintf("query request delivered %d times", n), false
			}
			deadline := time.Now().Add(20 * time.Second)
			for len(h.conn.Published(reply)) == 0 && time.Now().Before(deadline) {
				time.Sleep(20 * time.Microsecond)
			}
		default:
			// route the call through a request; the handler is the "do" method: swap in the script via harness state
			reply = r.NewReply()
			h.mu.Lock()
			h.curCb = &cb
			h.mu.Unlock()
			subj := "call." + cb.RName + ".do"
			if cb.Via == "get" || cb.Via == "access" {
				subj = cb.Via + "." + cb.RName
			}
			if n := h.conn.Deliver(subj, reply, nil); n != 1 {
				return fmt.Sprintf("request delivered %d times", n), false
			}
			if err := r.WaitDone(reply, 1); err != nil {
				return err.Error(), false
			}
		}
		var got []logEntry
		for _, e := range h.conn.LogFrom(start) {
			switch e.Kind {
			case "pub":
				got = append(got, logEntry{"pub", e.Subject, string(e.Data)})
			case "apply", "listener", "panic":
				got = append(got, logEntry{e.Kind, e.Subject, noteText(e.Note)})
			}
		}
		if msg := h.checkRetained(); msg != "" {
			return fmt.Sprintf("callback %s on %s: %s", cb.Via, cb.RName, msg), nt
		}
		pcb := cb
		if pcb.Via == "kept" || pcb.Via == "value" {
			pcb.Via = "with"
		}
		want, failing, invalid, events := predict(c.Cfg, pcb, reply)
		class := classOf(cb.RName)
		anyApply := false
		for _, v := range c.Cfg.Apply {
			anyApply = anyApply || v
		}
		if failing > 0 || invalid > 0 || (events >= 2 && c.Cfg.Listeners[class] > 0 && anyApply) {
			nt = true
		}
		if msg := compareLogs(got, want); msg != "" {
			return fmt.Sprintf("callback %s on %s: %s\n got: %v\nwant: %v", cb.Via, cb.RName, msg, got, want), nt
		}
	}
	return "", nt
}

func genVal() *rapid.Generator[gen.Val] { return gen.ResValue(false) }

func genCase() *rapid.Generator[Case] {
	return rapid.Custom(func(t *rapid.T) Case {
		c := Case{Cfg: Config{Apply: map[string]bool{}, Listeners: map[string]int{}}}
		for _, k := range []string{"change", "add", "remove", "create", "delete"} {
			c.Cfg.Apply[k] = rapid.IntRange(0, 2).Draw(t, "apply-"+k) > 0
		}
		for _, k := range []string{"m", "c", "u", "mm", "root"} {
			c.Cfg.Listeners[k] = rapid.IntRange(0, 3).Draw(t, "listeners-"+k)
		}
		c.Cfg.Warm = rapid.IntRange(0, 3).Draw(t, "warm") == 0
		c.PubFail = rapid.IntRange(0, 5).Draw(t, "pubfail") == 0
		c.ShutdownDuring = rapid.IntRange(0, 5).Draw(t, "shutdownDuring") == 0
		n := rapid.IntRange(1, 4).Draw(t, "ncb")
		for i := 0; i < n; i++ {
			cb := Callback{Via: rapid.SampledFrom([]string{"with", "call", "call", "get", "access", "query", "kept", "value"}).Draw(t, "via")}
			class := rapid.SampledFrom([]string{"m", "c", "u", "mm", "m", "c", "root"}).Draw(t, "class")
			cb.RName = "svc." + class + "." + rapid.SampledFrom([]string{"1", "2", "abc"}).Draw(t, "id")
			if class == "root" {
				cb.RName = "svc"
			}
			k := rapid.IntRange(1, 8).Draw(t, "nev")
			for j := 0; j < k; j++ {
				ec := genCall(t, class)
				if cb.Via == "query" {
					// change/add/remove on a query request feed its response; the others are ordinary events
					for ec.Op != "custom" && ec.Op != "create" && ec.Op != "delete" && ec.Op != "reaccess" {
						ec = genCall(t, class)
					}
				}
				cb.Script = append(cb.Script, ec)
			}
			c.Cbs = append(c.Cbs, cb)
		}
		return c
	})
}

func genCall(t *rapid.T, class string) EvCall {
	var ops []string
	switch class {
	case "m", "mm", "root":
		ops = []string{"change", "change", "change", "create", "delete", "custom", "add", "remove", "reaccess", "timeout", "reply"}
	case "c":
		ops = []string{"add", "add", "remove", "remove", "create", "delete", "custom", "change", "reaccess", "timeout", "reply"}
	default:
		ops = []string{"change", "add", "remove", "create", "delete", "custom", "timeout", "reply"}
	}
	c := EvCall{Op: rapid.SampledFrom(ops).Draw(t, "op")}
	c.Apply = rapid.SampledFrom([]string{"ok", "ok", "ok", "fail", "noop", "nilrev"}).Draw(t, "apply")
	if c.Apply == "fail" {
		c.FailKind = rapid.SampledFrom([]string{"", "notfound", "reserr", "panicstring", "panicint"}).Draw(t, "failkind")
	}
	if c.Apply == "noop" && c.Op != "change" {
		c.Apply = "ok"
	}
	if c.Apply == "nilrev" && c.Op != "change" {
		c.Apply = "ok"
	}
	switch c.Op {
	case "change":
		n := rapid.IntRange(0, 3).Draw(t, "nvals")
		if n > 0 {
			c.Vals = map[string]gen.Val{}
		}
		for i := 0; i < n; i++ {
			c.Vals[rapid.SampledFrom([]string{"a", "b", "name", "é"}).Draw(t, "key")] = gen.ResValue(true).Draw(t, "val")
		}
		if rapid.Bool().Draw(t, "hasrev") {
			v := genVal().Draw(t, "rev")
			c.Rev = &v
		}
		c.ExtraRev = rapid.IntRange(0, 3).Draw(t, "extrarev") == 0
	case "add":
		v := genVal().Draw(t, "v")
		c.V = &v
		c.Idx = rapid.SampledFrom([]int{0, 1, 5, -1}).Draw(t, "idx")
	case "remove":
		c.Idx = rapid.SampledFrom([]int{0, 1, 5, -1}).Draw(t, "idx")
		if rapid.Bool().Draw(t, "hasrev") {
			v := genVal().Draw(t, "rev")
			c.Rev = &v
		}
	case "create":
		v := gen.Val{Kind: "json", JSON: gen.JSONText(2).Draw(t, "data")}
		c.V = &v
	case "delete":
		if rapid.Bool().Draw(t, "hasrev") {
			v := gen.Val{Kind: "json", JSON: gen.JSONText(2).Draw(t, "data")}
			c.Rev = &v
		}
	case "custom":
		c.Name = rapid.SampledFrom([]string{"foo", "bar", "custom", "change", "delete", "add", "remove", "patch", "reaccess", "unsubscribe", "query", "a.b", "", "a b", "x*", "~ok", "$set", "$", "a$b", "!#%&()+,-/:;<=@[]^_`{|}", "ändrad", "日本", "ok\u2028", "\x80"}).Draw(t, "name")
		if rapid.Bool().Draw(t, "haspayload") {
			v := gen.Val{Kind: "json", JSON: gen.JSONText(2).Draw(t, "payload")}
			c.V = &v
		}
	case "timeout", "reply":
		c.Idx = rapid.IntRange(0, 5000).Draw(t, "n")
	}
	return c
}

func TestPropEventOrder(t *testing.T) {
	rapid.Check(t, func(t *rapid.T) {
		c := genCase().Draw(t, "case")
		msg, nt := runCase(c)
		ev.Case(nt, evid.Hash(c.String()), "event-case")
		if msg != "" {
			t.Fatalf("%s\ncase: %s", msg, c)
		}
		if nt {
			ev.Sample("event-case", 3, func() interface{} { return c })
		}
	})
}

var _ = reflect.DeepEqual

// ---- concurrent variant: per-group block order ---------------------------------

type sub struct {
	Via   string `json:"via"` // with | call
	Group string `json:"group"`
	ID    string `json:"id"`
	N     int    `json:"n"` // number of events
}

func TestPropGroupBlocks(t *testing.T) {
	rapid.Check(t, func(t *rapid.T) {
		workers := rapid.SampledFrom([]int{1, 2, 3, 8, 24, 24}).Draw(t, "workers")
		k := rapid.IntRange(4, 60).Draw(t, "nsub")
		groupPool := rapid.SampledFrom([][]string{{"A", "B", "C"}, {"A", "B", "C", "D", "E", "F", "G", "H", "I", "J", "K", "L", "M", "N", "O", "P", "Q", "R", "S", "T"}}).Draw(t, "groups")
		var subs []sub
		for i := 0; i < k; i++ {
			subs = append(subs, sub{
				Via:   rapid.SampledFrom([]string{"with", "with", "call"}).Draw(t, "via"),
				Group: rapid.SampledFrom(groupPool).Draw(t, "group"),
				ID:    rapid.SampledFrom([]string{"1", "2", "3"}).Draw(t, "id"),
				N:     rapid.IntRange(1, 4).Draw(t, "n"),
			})
		}
		conn := fakeconn.New()
		s := res.NewService("svc")
		s.SetWorkerCount(workers)
		s.SetInChannelSize(k + 8)
		var wg sync.WaitGroup
		emit := func(r res.Resource, i int) {
			for j := 0; j < subs[i].N; j++ {
				r.Event("e", map[string]int{"cb": i, "k": j})
				if j == 0 {
					// give other workers a chance to interleave
					for y := 0; y < 3; y++ {
						runtimeGosched()
					}
				}
			}
		}
		s.Handle("g.$grp.$id", res.Group("${grp}"), res.Call("do", func(r res.CallRequest) {
			var p struct{ I int }
			r.ParseParams(&p)
			emit(r, p.I)
			r.OK(nil)
			wg.Done()
		}))
		// a listener that counts what it hears and lingers a little, so that dispatches of
		// different groups overlap
		heard := make([]int32, k)
		var inside, maxInside int32
		s.AddListener("g.$grp.$id", func(e *res.Event) {
			p, _ := e.Payload.(map[string]int)
			atomic.AddInt32(&heard[p["cb"]], 1)
			n := atomic.AddInt32(&inside, 1)
			for {
				m := atomic.LoadInt32(&maxInside)
				if n <= m || atomic.CompareAndSwapInt32(&maxInside, m, n) {
					break
				}
			}
			for y := 0; y < 40 && atomic.LoadInt32(&inside) < 12; y++ {
				runtimeGosched()
			}
			atomic.AddInt32(&inside, -1)
		})
		r, err := svc.Start(s, conn, nil)
		if err != nil {
			t.Fatalf("%v", err)
		}
		wg.Add(len(subs))
		for i, sb := range subs {
			i := i
			rn := "svc.g." + sb.Group + "." + sb.ID
			if sb.Via == "with" {
				if err := s.With(rn, func(rr res.Resource) { emit(rr, i); wg.Done() }); err != nil {
					t.Fatalf("With: %v", err)
				}
			} else {
				if n := conn.Deliver("call."+rn+".do", r.NewReply(), []byte(fmt.Sprintf(`{"params":{"I":%d}}`, i))); n != 1 {
					t.Fatalf("delivered %d", n)
				}
			}
		}
		wg.Wait()
		_ = r.Stop()
		// per group sequences
		seq := map[string][][2]int{}
		for _, e := range conn.Log() {
			if e.Kind != "pub" || !strings.HasPrefix(e.Subject, "event.svc.g.") {
				continue
			}
			g := strings.Split(e.Subject, ".")[3]
			var p struct{ Cb, K int }
			_ = json.Unmarshal(e.Data, &p)
			seq[g] = append(seq[g], [2]int{p.Cb, p.K})
		}
		multi := false
		for g, sq := range seq {
			lastWith, lastCall := -1, -1
			for x := 0; x < len(sq); {
				cb := sq[x][0]
				n := subs[cb].N
				for j := 0; j < n; j++ {
					if x+j >= len(sq) || sq[x+j] != [2]int{cb, j} {
						t.Fatalf("group %s: events of callback %d are not one contiguous in-order block at position %d: %v", g, cb, x, sq)
					}
				}
				if subs[cb].Via == "with" {
					if cb < lastWith {
						t.Fatalf("group %s: With callback %d ran after the later submitted With callback %d: %v", g, cb, lastWith, sq)
					}
					lastWith = cb
				} else {
					if cb < lastCall {
						t.Fatalf("group %s: request %d ran after the later delivered request %d: %v", g, cb, lastCall, sq)
					}
					lastCall = cb
				}
				x += n
			}
			if len(sq) > 4 {
				multi = true
			}
		}
		total := 0
		for _, sb := range subs {
			total += sb.N
		}
		got := 0
		for _, sq := range seq {
			got += len(sq)
		}
		if got != total {
			t.Fatalf("published %d events, expected %d", got, total)
		}
		for i, sb := range subs {
			if h := atomic.LoadInt32(&heard[i]); int(h) != sb.N {
				t.Fatalf("callback %d on group %s emitted %d events, its listener heard %d (up to %d listener calls overlapped, %d workers)", i, sb.Group, sb.N, h, maxInside, workers)
			}
		}
		if maxInside > 8 {
			ev.Label("more-than-8-overlapping-listener-calls")
		}
		b, _ := json.Marshal(subs)
		ev.Case(multi && workers > 1, evid.Hash(string(b), workers), "group-blocks")
	})
}

func runtimeGosched() { runtime.Gosched() }
