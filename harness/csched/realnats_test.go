package csched

import (
	"fmt"
	"testing"
	"time"

	res "github.com/jirenius/go-res"
	nats "github.com/nats-io/nats.go"
	"pgregory.net/rapid"

	"verifharness/internal/evid"
	"verifharness/internal/natsrv"
)

// TestC03RealNATS: the service runs on a real client connection to an embedded NATS
// server. Each cycle ends in one of three ways - Shutdown while connected, Shutdown during
// an outage (server gone, client in its reconnect loop), or the connection being closed by
// someone else (the application closing the connection it got from Conn()), which makes the
// service shut itself down. Each time ListenAndServe must return, the connection must end
// up closed, an in-flight callback must have finished first, and the service must be
// servable again.
func TestC03RealNATS(t *testing.T) {
	ev := evid.For("C03")
	rapid.Check(t, func(rt *rapid.T) {
		cycles := rapid.SliceOfN(rapid.SampledFrom([]string{"shutdown", "outage", "appclose"}), 1, 3).Draw(rt, "cycles")
		inflight := rapid.Bool().Draw(rt, "inflight")
		failFirst := rapid.Bool().Draw(rt, "failFirst")
		closedOpt := rapid.IntRange(0, 2).Draw(rt, "closedOpt")
		workers := rapid.IntRange(1, 4).Draw(rt, "workers")
		s := res.NewService("svc")
		s.SetLogger(nil)
		s.SetWorkerCount(workers)
		s.Handle("m", res.Access(res.AccessGranted), res.GetModel(func(r res.ModelRequest) { r.Model(map[string]int{"a": 1}) }))
		fail := func(format string, a ...interface{}) {
			rt.Fatalf("cycles %v (in-flight callback: %v, %d workers, failed connection attempt before each: %v, closed-handler option %d): %s", cycles, inflight, workers, failFirst, closedOpt, fmt.Sprintf(format, a...))
		}
		for ci, how := range cycles {
			srv, err := natsrv.Start()
			if err != nil {
				rt.Fatalf("VERIF-INCONCLUSIVE: %v", err)
			}
			stopped := false
			stopSrv := func() {
				if !stopped {
					stopped = true
					srv.Stop()
				}
			}
			if failFirst {
				// no server there: ListenAndServe fails to connect, and the service stays servable
				if err := s.ListenAndServe("nats://127.0.0.1:1", nats.Timeout(2*time.Second)); err == nil {
					stopSrv()
					fail("cycle %d: ListenAndServe to a port nobody listens on returned nil", ci)
				}
			}
			started := make(chan struct{})
			s.SetOnServe(func(*res.Service) { close(started) })
			disconnected := make(chan struct{}, 1)
			s.SetOnDisconnect(func(*res.Service) {
				select {
				case disconnected <- struct{}{}:
				default:
				}
			})
			exited := make(chan error, 1)
			opts := []nats.Option{nats.ReconnectWait(20 * time.Millisecond)}
			if how != "appclose" {
				// the application's own connection options: its closed handler replaces the
				// service's, or no callbacks are made after a client side Close
				switch closedOpt {
				case 1:
					opts = append(opts, nats.ClosedHandler(func(*nats.Conn) {}))
				case 2:
					opts = append(opts, nats.NoCallbacksAfterClientClose())
				}
			}
			go func() { exited <- s.ListenAndServe(srv.URL, opts...) }()
			select {
			case <-started:
			case err := <-exited:
				stopSrv()
				fail("cycle %d: ListenAndServe returned %v instead of serving", ci, err)
			case <-time.After(20 * time.Second):
				stopSrv()
				rt.Fatalf("VERIF-INCONCLUSIVE: ListenAndServe did not start")
			}
			nc, _ := s.Conn().(*nats.Conn)
			if nc == nil {
				stopSrv()
				fail("cycle %d: Conn() of a service started with ListenAndServe is %T", ci, s.Conn())
			}
			// the service answers (its subscriptions have reached the server after a ping round trip)
			_ = nc.FlushTimeout(60 * time.Second)
			client, err := srv.Connect()
			if err != nil {
				stopSrv()
				rt.Fatalf("VERIF-INCONCLUSIVE: %v", err)
			}
			answered := false
			for try := 0; try < 5 && !answered; try++ {
				if m, err := client.Request("get.svc.m", nil, 2*time.Second); err == nil && len(m.Data) > 0 {
					answered = true
				}
			}
			client.Close()
			if !answered {
				stopSrv()
				fail("cycle %d: a get request got no response from the re-served service", ci)
			}
			// a callback that is still running when the cycle ends
			cbStarted, cbRelease, cbDone := make(chan struct{}), make(chan struct{}), make(chan struct{})
			if inflight {
				if err := s.With("svc.m", func(res.Resource) {
					close(cbStarted)
					<-cbRelease
					time.Sleep(2 * time.Millisecond)
					close(cbDone)
				}); err != nil {
					stopSrv()
					fail("cycle %d: With on a served resource: %v", ci, err)
				}
				<-cbStarted
				go func() { time.Sleep(30 * time.Millisecond); close(cbRelease) }()
			}
			shutRet := make(chan error, 1)
			switch how {
			case "shutdown":
				go func() { shutRet <- s.Shutdown() }()
			case "outage":
				stopSrv()
				select {
				case <-disconnected:
				case <-time.After(10 * time.Second):
					rt.Fatalf("VERIF-INCONCLUSIVE: the client did not notice the outage")
				}
				go func() { shutRet <- s.Shutdown() }()
			case "appclose":
				// someone else closes the connection; the service shuts itself down
				nc.Close()
				close(shutRet)
			}
			select {
			case <-shutRet:
			case <-time.After(60 * time.Second):
				stopSrv()
				fail("cycle %d (%s): Shutdown did not return within 60s", ci, how)
			}
			select {
			case err := <-exited:
				if err != nil {
					stopSrv()
					fail("cycle %d (%s): ListenAndServe returned %v", ci, how, err)
				}
			case <-time.After(60 * time.Second):
				stopSrv()
				fail("cycle %d (%s): ListenAndServe did not return within 60s although the connection is closed: %v", ci, how, nc.IsClosed())
			}
			if inflight {
				select {
				case <-cbDone:
				default:
					stopSrv()
					fail("cycle %d (%s): ListenAndServe returned while a callback was still running", ci, how)
				}
			}
			if !nc.IsClosed() {
				stopSrv()
				fail("cycle %d (%s): the service has stopped but its connection was not closed (status %v)", ci, how, nc.Status())
			}
			stopSrv()
			ev.Case(how != "shutdown" || inflight, evid.Hash("realnats", fmt.Sprint(cycles), ci, inflight, workers), "real-nats:"+how)
		}
	})
}
