package c20

import (
	"bytes"
	"encoding/json"
	"fmt"
	"math"
	"os"
	"reflect"
	"sort"
	"strings"
	"testing"

	"github.com/dgraph-io/badger"
	res "github.com/jirenius/go-res"
	"github.com/jirenius/go-res/middleware"
	"github.com/jirenius/go-res/middleware/resbadger"
	"pgregory.net/rapid"

	"verifharness/internal/bdb"
	"verifharness/internal/evid"
	"verifharness/internal/fakeconn"
	"verifharness/internal/gen"
	"verifharness/internal/svc"
)

const prop = "C20"

func TestMain(m *testing.M) { os.Exit(evid.Main(m)) }

var ev = evid.For(prop)

func init() {
	ev.SetRule("cases = (package middleware.BadgerDB or resbadger; typed struct or untyped values; default or none; resbadger models with a 1-2 index IndexSet) x a history on a real BadgerDB of change (new, changed, equal, deleted keys, delete of a missing key), add/remove at valid and out-of-range indexes, create (fresh / existing / with default), delete (existing / missing), Value() inside a callback, get requests, and close-and-reopen of the database with a new service; a reference fold over JSON values predicts the served value, the Value(), the old values / deleted data handed to listeners and which events are rejected (nothing published, storage byte-identical); a history is non-trivial with >=1 rejected event, >=1 accepted event after it, and a reopen; distinct = hash of the case Concurrent histories: 2-8 resources each updated by its own goroutine (3-30 always-applicable events with values of 0-300 extra characters) through 2-8 workers; non-trivial with >=3 resources and >=20 events.")
	ev.Assume("a delete event on a missing resource is not covered by the property (only: storage stays unchanged)")
}

// T is the typed model value.
type T struct {
	A string  `json:"a"`
	N float64 `json:"n"`
	O string  `json:"o,omitempty"` // optional: absent from most stored values
}

// Cfg selects the middleware flavour.
type Cfg struct {
	Pkg     string `json:"pkg"` // middleware resbadger
	Typed   bool   `json:"typed"`
	Default bool   `json:"default"`
	Indexes int    `json:"indexes"` // resbadger models only
	// Map: resbadger models are served through a Map callback that wraps the value
	// ({"wrapped": v}); Value() must still give the stored value.
	Map bool `json:"map,omitempty"`
	// ParallelColl: the collection handler is registered with Parallel(true): its callbacks,
	// and so the events they emit on one collection, run concurrently.
	ParallelColl bool `json:"parallelColl,omitempty"`
}

func (st Step) unencodable() bool {
	if st.V == "~nan" || st.V == "~nanmodel" {
		return st.K == "add" || st.K == "create"
	}
	if st.K == "change" {
		for _, v := range st.Vals {
			if v == "~nan" {
				return true
			}
		}
	}
	return false
}

// Step is one history step.
type Step struct {
	K    string            `json:"k"` // change add remove create delete value get reopen
	RID  string            `json:"rid"`
	Vals map[string]string `json:"vals,omitempty"` // key -> JSON text or "~delete"
	V    string            `json:"v,omitempty"`    // JSON text (add / create)
	Idx  int               `json:"idx,omitempty"`
	// Around: the callback also calls Value() on the same resource instance before and after the event.
	Around bool `json:"around,omitempty"`
	// Raw: the data of a create event on a typed model is the decoded JSON (a map, with a
	// property the configured type does not declare), not a value of the configured type.
	Raw bool `json:"raw,omitempty"`
}

// Case is a history.
type Case struct {
	Cfg   Cfg    `json:"cfg"`
	Steps []Step `json:"steps"`
}

func (c Case) String() string { b, _ := json.Marshal(c); return string(b) }

const (
	defModel = `{"a":"dflt","n":1}`
	defColl  = `["d1","d2"]`
)

type fixture struct {
	cfg     Cfg
	dir     string
	db      *badger.DB
	s       *res.Service
	conn    *fakeconn.Conn
	rn      *svc.Runner
	changes []map[string]interface{} // OldValues seen by change listeners
	deletes []interface{}            // Data seen by delete listeners
	heard   []string                 // every event the listeners were called with
	workers int                      // worker count (default 1)
	quiet   bool                     // listeners record nothing (concurrent runs)
}

// "~nan" is the number NaN, "~nanmodel" a model holding it: values JSON cannot encode, so an
// event carrying one cannot be applied.
func decode(text string) interface{} {
	switch text {
	case "~nan":
		return math.NaN()
	case "~nanmodel":
		return map[string]interface{}{"a": "x", "n": math.NaN()}
	}
	var v interface{}
	_ = json.Unmarshal([]byte(text), &v)
	return v
}

func (f *fixture) open() error {
	db, err := bdb.Open(f.dir)
	if err != nil {
		return err
	}
	f.db = db
	s := res.NewService("svc")
	s.SetWorkerCount(1)
	if f.workers > 1 {
		s.SetWorkerCount(f.workers)
	}
	var mopt, copt res.Option
	switch f.cfg.Pkg {
	case "middleware":
		m := middleware.BadgerDB{}.WithDB(db)
		c := middleware.BadgerDB{DB: db}
		if f.cfg.Typed {
			m = m.WithType(T{})
		}
		if f.cfg.Default {
			if f.cfg.Typed {
				m = m.WithDefault(T{A: "dflt", N: 1})
			} else {
				m = m.WithDefault(decode(defModel))
			}
			c = c.WithDefault(decode(defColl))
		}
		mopt, copt = m, c
	default:
		m := resbadger.BadgerDB{}.WithDB(db).Model()
		c := resbadger.BadgerDB{DB: db}.Collection()
		if f.cfg.Typed {
			m = m.WithType(T{})
			c = c.WithType([]interface{}(nil)) // the explicit form of the default element type
		}
		if f.cfg.Default {
			if f.cfg.Typed {
				m = m.WithDefault(T{A: "dflt", N: 1})
			} else {
				m = m.WithDefault(decode(defModel))
			}
			c = c.WithDefault(decode(defColl))
		}
		if f.cfg.Indexes > 0 {
			key := func(field string) func(interface{}) []byte {
				return func(v interface{}) []byte {
					b, _ := json.Marshal(v)
					var m map[string]interface{}
					_ = json.Unmarshal(b, &m)
					s, _ := m[field].(string)
					if s == "" {
						return nil
					}
					return []byte(s)
				}
			}
			is := &resbadger.IndexSet{Indexes: []resbadger.Index{{Name: "idxa", Key: key("a")}}}
			if f.cfg.Indexes > 1 {
				is.Indexes = append(is.Indexes, resbadger.Index{Name: "idxb", Key: key("b")})
			}
			m = m.WithIndexSet(is)
		}
		if f.cfg.Map {
			m = m.WithMap(func(v interface{}) (interface{}, error) { return map[string]interface{}{"wrapped": v}, nil })
		}
		mopt, copt = m, c
	}
	par := res.Parallel(f.cfg.ParallelColl)
	if f.cfg.Pkg == "middleware" {
		s.Handle("m.$id", res.Model, mopt)
		s.Handle("c.$id", res.Collection, copt, par)
	} else {
		s.Handle("m.$id", mopt)
		s.Handle("c.$id", copt, par)
	}
	s.AddListener("m.$id", func(e *res.Event) {
		if f.quiet {
			return
		}
		f.heard = append(f.heard, e.Name+" "+e.Resource.ResourceName())
		switch e.Name {
		case "change":
			f.changes = append(f.changes, e.OldValues)
		case "delete":
			f.deletes = append(f.deletes, e.Data)
		}
	})
	s.AddListener("c.$id", func(e *res.Event) {
		if !f.quiet {
			f.heard = append(f.heard, e.Name+" "+e.Resource.ResourceName())
		}
		if e.Name == "delete" && !f.quiet {
			f.deletes = append(f.deletes, e.Data)
		}
	})
	f.s = s
	f.conn = fakeconn.New()
	rn, err := svc.Start(s, f.conn, nil)
	if err != nil {
		return err
	}
	f.rn = rn
	return nil
}

func (f *fixture) close() {
	if f.rn != nil {
		_ = f.rn.Stop()
		f.rn = nil
	}
	if f.db != nil {
		_ = f.db.Close()
		f.db = nil
	}
}

// dump returns the raw content of the resource keys.
func (f *fixture) dump() string {
	var sb strings.Builder
	_ = f.db.View(func(txn *badger.Txn) error {
		it := txn.NewIterator(badger.DefaultIteratorOptions)
		defer it.Close()
		for it.Seek([]byte("svc.")); it.ValidForPrefix([]byte("svc.")); it.Next() {
			item := it.Item()
			v, _ := item.ValueCopy(nil)
			fmt.Fprintf(&sb, "%s=%s;", item.Key(), v)
		}
		return nil
	})
	return sb.String()
}

func (f *fixture) get(rid string) (string, bool, error) {
	reply, n := f.rn.Send("get."+rid, nil)
	if n != 1 {
		return "", false, fmt.Errorf("get not delivered")
	}
	if err := f.rn.WaitDone(reply, 1); err != nil {
		return "", false, err
	}
	_, resp := f.rn.Replies(reply)
	if len(resp) != 1 {
		return "", false, svc.Behaviour(fmt.Sprintf("get %s: %d responses", rid, len(resp)))
	}
	var p struct {
		Result *struct{ Model, Collection json.RawMessage }
		Error  *res.Error
	}
	_ = json.Unmarshal(resp[0], &p)
	switch {
	case p.Error != nil && p.Error.Code == res.CodeNotFound:
		return "", false, nil
	case p.Result != nil && p.Result.Model != nil:
		return string(p.Result.Model), true, nil
	case p.Result != nil && p.Result.Collection != nil:
		return string(p.Result.Collection), true, nil
	}
	return "", false, svc.Behaviour(fmt.Sprintf("a get of %s is answered with %s: neither the resource nor system.notFound", rid, resp[0]))
}

func jsonEq(a, b string) bool { return gen.JSONEqual([]byte(a), []byte(b)) }

func canon(v interface{}) string {
	b, _ := json.Marshal(v)
	var x interface{}
	_ = json.Unmarshal(b, &x)
	o, _ := json.Marshal(x)
	return string(o)
}

// run executes the case against the reference fold.
func run(c Case) (msg string, nontrivial bool) {
	f := &fixture{cfg: c.Cfg, dir: bdb.TempDir("c20")}
	defer os.RemoveAll(f.dir)
	if err := f.open(); err != nil {
		return svc.Verdict(err), false
	}
	defer f.close()
	model := map[string]string{} // rid -> stored JSON text
	rejected, acceptedAfter, reopened := 0, 0, false
	def := func(rid string) (string, bool) {
		if !c.Cfg.Default {
			return "", false
		}
		if strings.HasPrefix(rid, "svc.m.") {
			return defModel, true
		}
		return defColl, true
	}
	effective := func(rid string) (string, bool) {
		if v, ok := model[rid]; ok {
			return v, true
		}
		return def(rid)
	}
	// servedWant is what a get must answer: the fold, passed through the Map callback when
	// one is configured and the value is a stored one (the default is served as it is)
	servedWant := func(rid string) (string, bool) {
		v, ok := effective(rid)
		if _, stored := model[rid]; ok && stored && c.Cfg.Map && strings.HasPrefix(rid, "svc.m.") {
			if c.Cfg.Typed {
				// the Map callback is given the stored value decoded into the configured type
				var t T
				_ = json.Unmarshal([]byte(v), &t)
				b, _ := json.Marshal(t)
				v = string(b)
			}
			return `{"wrapped":` + v + `}`, true
		}
		return v, ok
	}
	// valueMatches compares a Value() result with the fold
	valueMatches := func(where string, rid string, value interface{}, valueErr error) string {
		eff, effOK := effective(rid)
		if !effOK {
			if valueErr == nil {
				return fmt.Sprintf("%s: Value() of a missing resource returned %v", where, value)
			}
			return ""
		}
		if valueErr != nil && !(strings.HasPrefix(rid, "svc.m.") && c.Cfg.Typed) {
			return fmt.Sprintf("%s: Value() failed: %v (fold %s)", where, valueErr, eff)
		}
		if strings.HasPrefix(rid, "svc.m.") && c.Cfg.Typed {
			var t T
			if json.Unmarshal([]byte(eff), &t) != nil {
				return "" // what is stored does not fit the configured type: Value() is not specified
			}
			if valueErr != nil {
				return fmt.Sprintf("%s: Value() failed: %v (fold %s)", where, valueErr, eff)
			}
			if !reflect.DeepEqual(value, t) {
				return fmt.Sprintf("%s: Value()=%#v, the fold decoded into the configured type is %#v", where, value, t)
			}
			return ""
		}
		if !jsonEq(canon(value), eff) {
			return fmt.Sprintf("%s: Value()=%s, the fold is %s", where, canon(value), eff)
		}
		return ""
	}
	for i, st := range c.Steps {
		where := fmt.Sprintf("step %d %+v", i, st)
		switch st.K {
		case "reopen":
			f.close()
			if err := f.open(); err != nil {
				return "VERIF-INCONCLUSIVE: reopen: " + err.Error(), nontrivial
			}
			reopened = true
			continue
		case "get":
			got, ok, err := f.get(st.RID)
			if err != nil {
				return svc.Verdict(err), nontrivial
			}
			want, wok := servedWant(st.RID)
			if ok != wok || (ok && !jsonEq(got, want)) {
				return fmt.Sprintf("%s: get returns (%s, found=%v), the fold of the applied events is (%s, found=%v)", where, got, ok, want, wok), nontrivial
			}
			continue
		}
		// event or Value() inside a With callback
		before := f.dump()
		mark := f.conn.LogLen()
		nch, ndel := len(f.changes), len(f.deletes)
		nheard := len(f.heard)
		var panicked interface{}
		var value interface{}
		var valueErr error
		var afterValue interface{}
		var afterErr error
		afterTaken := false
		done := make(chan struct{})
		err := f.s.With(st.RID, func(r res.Resource) {
			defer close(done)
			defer func() { panicked = recover() }()
			if st.Around {
				// the same resource instance is asked for its value before and after the event
				_, _ = r.Value()
				defer func() {
					if v := recover(); v != nil {
						panic(v)
					}
					afterValue, afterErr = r.Value()
					afterTaken = true
				}()
			}
			switch st.K {
			case "change":
				m := map[string]interface{}{}
				for k, v := range st.Vals {
					if v == "~delete" {
						m[k] = res.DeleteAction
					} else {
						m[k] = decode(v)
					}
				}
				r.ChangeEvent(m)
			case "add":
				r.AddEvent(decode(st.V), st.Idx)
			case "remove":
				r.RemoveEvent(st.Idx)
			case "create":
				if c.Cfg.Typed && strings.HasPrefix(st.RID, "svc.m.") && !st.Raw {
					var t T
					_ = json.Unmarshal([]byte(st.V), &t)
					r.CreateEvent(t)
				} else {
					r.CreateEvent(decode(st.V))
				}
			case "delete":
				r.DeleteEvent()
			case "value":
				value, valueErr = r.Value()
			}
		})
		if err != nil {
			return fmt.Sprintf("%s: With: %v", where, err), nontrivial
		}
		<-done
		var pubs []fakeconn.Entry
		for _, e := range f.conn.LogFrom(mark) {
			if e.Kind == "pub" {
				pubs = append(pubs, e)
			}
		}
		cur, exists := model[st.RID]
		eff, effOK := effective(st.RID)
		isModel := strings.HasPrefix(st.RID, "svc.m.")
		reject := func(why string) string {
			rejected++
			if panicked == nil {
				return fmt.Sprintf("%s: the event cannot be applied (%s) but the call did not fail; published %d messages", where, why, len(pubs))
			}
			if len(pubs) != 0 {
				return fmt.Sprintf("%s: the event cannot be applied (%s) but %s was published", where, why, pubs[0].Subject)
			}
			if len(f.heard) != nheard {
				return fmt.Sprintf("%s: the event cannot be applied (%s) but the listeners were called with %q", where, why, f.heard[nheard:])
			}
			if after := f.dump(); after != before {
				return fmt.Sprintf("%s: the event cannot be applied (%s) but storage changed from %q to %q", where, why, before, after)
			}
			return ""
		}
		accept := func(name string) string {
			if rejected > 0 {
				acceptedAfter++
			}
			if panicked != nil {
				return fmt.Sprintf("%s: valid event failed: %v", where, panicked)
			}
			if len(pubs) != 1 || !strings.HasSuffix(pubs[0].Subject, "."+name) {
				return fmt.Sprintf("%s: expected exactly one %s event, published %v", where, name, pubs)
			}
			return ""
		}
		if st.unencodable() {
			if m := reject("a value that JSON cannot encode"); m != "" {
				return m, nontrivial
			}
			continue
		}
		switch st.K {
		case "value":
			if m := valueMatches(where, st.RID, value, valueErr); m != "" {
				return m, nontrivial
			}
			continue
		case "change":
			if !isModel {
				if m := reject("change on a collection"); m != "" {
					return m, nontrivial
				}
				continue
			}
			if len(st.Vals) == 0 {
				if len(pubs) != 0 {
					return fmt.Sprintf("%s: empty change published %v", where, pubs), nontrivial
				}
				continue
			}
			if !effOK {
				if m := reject("change on a missing resource without default"); m != "" {
					return m, nontrivial
				}
				continue
			}
			var m map[string]interface{}
			_ = json.Unmarshal([]byte(eff), &m)
			if c.Cfg.Typed && c.Cfg.Indexes > 0 {
				bad := false
				for k, v := range st.Vals {
					if (k == "n" && strings.HasPrefix(v, `"`)) || (k == "a" && v == `17`) {
						// only a value that actually changes the property reaches the decode step
						if ov, ok := m[k]; !ok || canon(decode(v)) != canon(ov) {
							bad = true
						}
					}
				}
				if bad {
					if m := reject("the new value cannot be decoded into the configured type for indexing"); m != "" {
						return m, nontrivial
					}
					continue
				}
			}
			rev := map[string]string{}
			for k, v := range st.Vals {
				ov, ok := m[k]
				switch {
				case !ok && v != "~delete":
					m[k] = decode(v)
					rev[k] = `{"action":"delete"}`
				case ok && v == "~delete":
					delete(m, k)
					rev[k] = canon(ov)
				case ok && v != "~delete" && canon(decode(v)) != canon(ov):
					m[k] = decode(v)
					rev[k] = canon(ov)
				}
			}
			if len(rev) == 0 {
				if panicked != nil || len(pubs) != 0 {
					return fmt.Sprintf("%s: a change that changes nothing published %v (panic %v)", where, pubs, panicked), nontrivial
				}
				if after := f.dump(); after != before {
					return fmt.Sprintf("%s: a change that changes nothing modified storage: %q -> %q", where, before, after), nontrivial
				}
				continue
			}
			if msg := accept("change"); msg != "" {
				return msg, nontrivial
			}
			b, _ := json.Marshal(m)
			model[st.RID] = string(b)
			if len(f.changes) != nch+1 {
				return fmt.Sprintf("%s: change listeners ran %d times", where, len(f.changes)-nch), nontrivial
			}
			old := f.changes[nch]
			if len(old) != len(rev) {
				return fmt.Sprintf("%s: listeners got old values %s, the previous stored values are %v", where, canon(old), rev), nontrivial
			}
			for k, want := range rev {
				if canon(old[k]) != want {
					return fmt.Sprintf("%s: listeners got old value %s for key %q, the previous stored value is %s", where, canon(old[k]), k, want), nontrivial
				}
			}
		case "add", "remove":
			if isModel {
				if m := reject(st.K + " on a model"); m != "" {
					return m, nontrivial
				}
				continue
			}
			if st.Idx < 0 {
				if m := reject("negative index"); m != "" {
					return m, nontrivial
				}
				continue
			}
			base := eff
			if !effOK {
				if st.K == "remove" {
					if m := reject("remove on a missing collection without default"); m != "" {
						return m, nontrivial
					}
					continue
				}
				base = "[]"
			}
			var l []interface{}
			_ = json.Unmarshal([]byte(base), &l)
			if (st.K == "add" && st.Idx > len(l)) || (st.K == "remove" && st.Idx >= len(l)) {
				if m := reject("index out of range"); m != "" {
					return m, nontrivial
				}
				continue
			}
			if msg := accept(st.K); msg != "" {
				return msg, nontrivial
			}
			if st.K == "add" {
				l = append(l[:st.Idx:st.Idx], append([]interface{}{decode(st.V)}, l[st.Idx:]...)...)
			} else {
				l = append(l[:st.Idx:st.Idx], l[st.Idx+1:]...)
			}
			if l == nil {
				l = []interface{}{}
			}
			b, _ := json.Marshal(l)
			model[st.RID] = string(b)
		case "create":
			if exists || c.Cfg.Default {
				if m := reject("create on an existing resource (or one served from a default)"); m != "" {
					return m, nontrivial
				}
				continue
			}
			if msg := accept("create"); msg != "" {
				return msg, nontrivial
			}
			v := st.V
			if c.Cfg.Typed && isModel && !st.Raw {
				var t T
				_ = json.Unmarshal([]byte(st.V), &t)
				b, _ := json.Marshal(t)
				v = string(b)
			}
			model[st.RID] = v
		case "delete":
			if !exists {
				if after := f.dump(); after != before {
					return fmt.Sprintf("%s: delete of a missing resource changed storage: %q -> %q", where, before, after), nontrivial
				}
				continue
			}
			if msg := accept("delete"); msg != "" {
				return msg, nontrivial
			}
			delete(model, st.RID)
			if len(f.deletes) != ndel+1 {
				return fmt.Sprintf("%s: delete listeners ran %d times", where, len(f.deletes)-ndel), nontrivial
			}
			data := f.deletes[ndel]
			var t T
			if isModel && c.Cfg.Typed && json.Unmarshal([]byte(cur), &t) != nil {
				// the stored value does not fit the configured type: the listeners get it as it
				// was stored
				if !jsonEq(canon(data), cur) {
					return fmt.Sprintf("%s: delete listeners got %s, the previous stored value is %s", where, canon(data), cur), nontrivial
				}
			} else if isModel && c.Cfg.Typed {
				var t T
				_ = json.Unmarshal([]byte(cur), &t)
				if !reflect.DeepEqual(data, t) {
					return fmt.Sprintf("%s: delete listeners got %#v, the previous stored value is %#v", where, data, t), nontrivial
				}
			} else if !jsonEq(canon(data), cur) {
				return fmt.Sprintf("%s: delete listeners got %s, the previous stored value is %s", where, canon(data), cur), nontrivial
			}
		}
		if afterTaken {
			if m := valueMatches(where+" (Value() on the same resource instance right after the event)", st.RID, afterValue, afterErr); m != "" {
				return m, nontrivial
			}
		}
		// after every step: the served value equals the fold
		got, ok, err := f.get(st.RID)
		if err != nil {
			return svc.Verdict(err), nontrivial
		}
		want, wok := servedWant(st.RID)
		if ok != wok || (ok && !jsonEq(got, want)) {
			return fmt.Sprintf("%s: afterwards get returns (%s, found=%v), the fold is (%s, found=%v)", where, got, ok, want, wok), nontrivial
		}
		nontrivial = rejected > 0 && acceptedAfter > 0 && reopened
	}
	// final: reopen and compare everything
	f.close()
	if err := f.open(); err != nil {
		return "VERIF-INCONCLUSIVE: final reopen: " + err.Error(), nontrivial
	}
	var rids []string
	for _, st := range c.Steps {
		if st.RID != "" {
			rids = append(rids, st.RID)
		}
	}
	sort.Strings(rids)
	for _, rid := range rids {
		got, ok, err := f.get(rid)
		if err != nil {
			return svc.Verdict(err), nontrivial
		}
		want, wok := servedWant(rid)
		if ok != wok || (ok && !jsonEq(got, want)) {
			return fmt.Sprintf("after reopening the database %s reads (%s, found=%v), the fold is (%s, found=%v)", rid, got, ok, want, wok), nontrivial
		}
	}
	return "", nontrivial
}

func genCase() *rapid.Generator[Case] {
	return rapid.Custom(func(t *rapid.T) Case {
		c := Case{Cfg: Cfg{Pkg: rapid.SampledFrom([]string{"middleware", "resbadger"}).Draw(t, "pkg"), Typed: rapid.Bool().Draw(t, "typed"), Default: rapid.IntRange(0, 2).Draw(t, "default") == 0}}
		if c.Cfg.Pkg == "resbadger" {
			c.Cfg.Indexes = rapid.IntRange(0, 2).Draw(t, "indexes")
			c.Cfg.Map = rapid.IntRange(0, 3).Draw(t, "map") == 0
		}
		n := rapid.IntRange(1, 25).Draw(t, "nsteps")
		strs := []string{`"a"`, `"b"`, `"dflt"`, `""`, `"x y"`}
		nums := []string{`1`, `2`, `0.5`}
		for i := 0; i < n; i++ {
			st := Step{K: rapid.SampledFrom([]string{"change", "change", "change", "add", "add", "remove", "create", "create", "delete", "value", "get", "reopen"}).Draw(t, "k")}
			st.RID = rapid.SampledFrom([]string{"svc.m.1", "svc.m.2", "svc.c.1", "svc.c.2", "svc.m.10", "svc.c.10"}).Draw(t, "rid") // (svc.m.1 is a prefix of svc.m.10)
			if (st.K == "change") && rapid.IntRange(0, 9).Draw(t, "wrongtype") != 0 {
				st.RID = rapid.SampledFrom([]string{"svc.m.1", "svc.m.2", "svc.m.10"}).Draw(t, "mrid")
			}
			if (st.K == "add" || st.K == "remove") && rapid.IntRange(0, 9).Draw(t, "wrongtype") != 0 {
				st.RID = rapid.SampledFrom([]string{"svc.c.1", "svc.c.2", "svc.c.10"}).Draw(t, "crid")
			}
			switch st.K {
			case "change":
				st.Vals = map[string]string{}
				k := rapid.IntRange(0, 3).Draw(t, "nvals")
				for j := 0; j < k; j++ {
					key := rapid.SampledFrom([]string{"a", "n", "b"}).Draw(t, "key")
					if c.Cfg.Typed && key == "b" {
						key = "a"
					}
					switch {
					case rapid.IntRange(0, 19).Draw(t, "nan") == 0 && !c.Cfg.Typed:
						st.Vals[key] = "~nan"
					case rapid.IntRange(0, 4).Draw(t, "del") == 0 && (!c.Cfg.Typed || (key == "a" && c.Cfg.Indexes == 0 && !c.Cfg.Map)):
						st.Vals[key] = "~delete"
					case !c.Cfg.Typed && rapid.IntRange(0, 5).Draw(t, "null") == 0:
						st.Vals[key] = "null" // a property stored as JSON null is a present property
					case !c.Cfg.Typed && rapid.IntRange(0, 2).Draw(t, "mixed") == 0:
						// the same text as a number, a boolean and a string are different values
						st.Vals[key] = rapid.SampledFrom([]string{`1`, `"1"`, `true`, `"true"`, `0.5`, `"0.5"`, `2`, `"2"`, `false`, `"false"`}).Draw(t, "mixedv")
					case c.Cfg.Typed && !c.Cfg.Map && (c.Cfg.Indexes > 0 || key == "n") && rapid.IntRange(0, 5).Draw(t, "badtype") == 0:
						// a value the configured struct type cannot hold: with an index set the
						// change cannot be applied (the indexed value cannot be decoded); without
						// one it is stored like any other value, and what is stored then no longer
						// decodes into the type
						if key == "n" {
							st.Vals[key] = `"not a number"`
						} else {
							st.Vals[key] = `17`
						}
					case key == "n":
						st.Vals[key] = rapid.SampledFrom(nums).Draw(t, "num")
					default:
						st.Vals[key] = rapid.SampledFrom(strs).Draw(t, "str")
					}
				}
			case "add":
				st.V = rapid.SampledFrom([]string{`"x"`, `1`, `{"rid":"svc.m.1"}`, `null`, `"d1"`, `"x"`, `1`, `"d1"`, "~nan"}).Draw(t, "v")
				st.Idx = rapid.SampledFrom([]int{0, 0, 1, 2, 3, 9, -1}).Draw(t, "idx")
			case "remove":
				st.Idx = rapid.SampledFrom([]int{0, 0, 1, 2, 9, -1}).Draw(t, "idx")
			case "create":
				if strings.HasPrefix(st.RID, "svc.m.") {
					st.V = fmt.Sprintf(`{"a":%s,"n":%s}`, rapid.SampledFrom(strs).Draw(t, "a"), rapid.SampledFrom(nums).Draw(t, "n"))
					if rapid.IntRange(0, 2).Draw(t, "witho") == 0 {
						// an optional property that other values of the same handler lack
						st.V = fmt.Sprintf(`{"a":%s,"n":%s,"o":"opt"}`, rapid.SampledFrom(strs).Draw(t, "a"), rapid.SampledFrom(nums).Draw(t, "n"))
					}
					if c.Cfg.Typed && rapid.IntRange(0, 3).Draw(t, "raw") == 0 {
						st.Raw = true
						st.V = fmt.Sprintf(`{"a":%s,"n":%s,"x":"extra"}`, rapid.SampledFrom(strs).Draw(t, "a"), rapid.SampledFrom(nums).Draw(t, "n"))
					}
					if !c.Cfg.Typed && rapid.IntRange(0, 9).Draw(t, "nanmodel") == 0 {
						st.V = "~nanmodel"
					}
					if !c.Cfg.Typed && rapid.IntRange(0, 3).Draw(t, "withnull") == 0 {
						st.V = fmt.Sprintf(`{"a":%s,"b":null}`, rapid.SampledFrom(strs).Draw(t, "a"))
					}
				} else {
					st.V = rapid.SampledFrom([]string{`[]`, `["x"]`, `[1,2,"a"]`}).Draw(t, "coll")
				}
			}
			if st.K != "value" && st.K != "get" && st.K != "reopen" {
				st.Around = rapid.IntRange(0, 3).Draw(t, "around") == 0
			}
			c.Steps = append(c.Steps, st)
		}
		return c
	})
}

func TestPropFold(t *testing.T) {
	rapid.Check(t, func(rt *rapid.T) {
		c := genCase().Draw(rt, "case")
		msg, nt := run(c)
		ev.Case(nt, evid.Hash(c.String()), "history", "pkg-"+c.Cfg.Pkg)
		if msg != "" {
			rt.Fatalf("%s\ncase: %s", msg, c)
		}
		if nt {
			ev.Sample("history", 2, func() interface{} { return c })
		}
	})
}

var _ = bytes.Equal
