package c04

import (
	"fmt"
	"sync"
	"sync/atomic"
	"testing"
	"time"

	res "github.com/jirenius/go-res"
	nats "github.com/nats-io/nats.go"
	"pgregory.net/rapid"

	"verifharness/internal/evid"
)

// backlogCycle is one Serve..Shutdown cycle of the backlog test: a batch of requests
// on the given resource ids is fed while every handler blocks on a gate, so that the
// work queue grows past the configured in-channel size; then either the gate opens
// and every request must be answered exactly once (Drain), or the service is shut
// down with the backlog still queued (requests may be dropped, never answered twice)
// and the next cycle restarts it.
type backlogCycle struct {
	IDs   []int
	Drain bool
}

type backlogCase struct {
	Workers  int
	ChanSize int
	Cycles   []backlogCycle
}

func runBacklog(c backlogCase) (msg string, maxQueued int, dropped int) {
	var gmu sync.Mutex
	gate := make(chan struct{})
	curGate := func() chan struct{} { gmu.Lock(); defer gmu.Unlock(); return gate }
	s := res.NewService("svc")
	s.SetWorkerCount(c.Workers)
	s.SetInChannelSize(c.ChanSize)
	s.SetLogger(nil)
	s.SetQueueGroup("")
	s.Handle("r.$id", res.Call("do", func(r res.CallRequest) {
		<-curGate()
		r.OK(nil)
	}))
	served := make(chan struct{}, 4)
	s.SetOnServe(func(*res.Service) { served <- struct{}{} })
	total := 0
	for _, cy := range c.Cycles {
		total += len(cy.IDs)
	}
	replies := make([]int32, total+len(c.Cycles)*64)
	next := 0
	answered := func(i int) int32 { return atomic.LoadInt32(&replies[i]) }
	waitAll := func(from, to int, what string) string {
		deadline := time.Now().Add(20 * time.Second)
		for i := from; i < to; i++ {
			for answered(i) == 0 {
				if time.Now().After(deadline) {
					return fmt.Sprintf("%s: request %d of the batch (index %d) got no response within 20s while the service is running and all handlers have returned", what, i-from, i)
				}
				time.Sleep(50 * time.Microsecond)
			}
		}
		return ""
	}
	for ci, cy := range c.Cycles {
		conn := &countConn{replies: replies}
		exited := make(chan error, 1)
		go func() { exited <- s.Serve(conn) }()
		select {
		case <-served:
		case err := <-exited:
			return fmt.Sprintf("cycle %d: Serve returned %v instead of serving", ci, err), maxQueued, dropped
		case <-time.After(20 * time.Second):
			return "VERIF-INCONCLUSIVE: service did not start", maxQueued, dropped
		}
		from := next
		for _, id := range cy.IDs {
			m := &nats.Msg{Subject: fmt.Sprintf("call.svc.r.%d.do", id), Reply: fmt.Sprintf("R.%d", next)}
			next++
			select {
			case conn.ch <- m:
			case <-time.After(20 * time.Second):
				return fmt.Sprintf("cycle %d: the service stopped consuming its in channel", ci), maxQueued, dropped
			}
		}
		// let the listener move what it can into the work queue
		for spin := 0; len(conn.ch) > 0 && spin < 20000; spin++ {
			time.Sleep(20 * time.Microsecond)
		}
		time.Sleep(200 * time.Microsecond)
		if q := len(cy.IDs); q > maxQueued {
			maxQueued = q
		}
		if cy.Drain {
			gmu.Lock()
			close(gate)
			gmu.Unlock()
			if m := waitAll(from, next, fmt.Sprintf("cycle %d (workers %d, in-channel size %d, %d requests queued behind blocked handlers)", ci, c.Workers, c.ChanSize, len(cy.IDs))); m != "" {
				return m, maxQueued, dropped
			}
			// a second, unblocked pass over the same resources: their queues must be live
			from2 := next
			for _, id := range cy.IDs {
				conn.ch <- &nats.Msg{Subject: fmt.Sprintf("call.svc.r.%d.do", id), Reply: fmt.Sprintf("R.%d", next)}
				next++
				if next-from2 >= 64 {
					break
				}
			}
			if m := waitAll(from2, next, fmt.Sprintf("cycle %d follow-up requests", ci)); m != "" {
				return m, maxQueued, dropped
			}
			shut := make(chan error, 1)
			go func() { shut <- s.Shutdown() }()
			select {
			case <-shut:
			case <-time.After(20 * time.Second):
				return fmt.Sprintf("cycle %d: Shutdown of an idle service did not return", ci), maxQueued, dropped
			}
		} else {
			shut := make(chan error, 1)
			go func() { shut <- s.Shutdown() }()
			time.Sleep(100 * time.Microsecond)
			gmu.Lock()
			close(gate)
			gmu.Unlock()
			select {
			case <-shut:
			case <-time.After(20 * time.Second):
				return fmt.Sprintf("cycle %d: Shutdown with a backlog did not return after the handlers were released", ci), maxQueued, dropped
			}
			for i := from; i < next; i++ {
				if answered(i) == 0 {
					dropped++
				}
			}
		}
		select {
		case <-exited:
		case <-time.After(20 * time.Second):
			return fmt.Sprintf("cycle %d: Serve did not return after Shutdown", ci), maxQueued, dropped
		}
		gmu.Lock()
		gate = make(chan struct{})
		gmu.Unlock()
	}
	for i := 0; i < next; i++ {
		if n := answered(i); n > 1 {
			return fmt.Sprintf("request %d got %d responses, expected exactly one", i, n), maxQueued, dropped
		}
	}
	return "", maxQueued, dropped
}

// TestPropBacklogRestart: more distinct resources waiting than the in-channel size
// while every worker is busy, and Serve/Shutdown/Serve cycles with work still queued
// at Shutdown; each request to a running service gets exactly one response.
func TestPropBacklogRestart(t *testing.T) {
	rapid.Check(t, func(rt *rapid.T) {
		c := backlogCase{
			Workers:  rapid.SampledFrom([]int{1, 2, 4}).Draw(rt, "workers"),
			ChanSize: rapid.SampledFrom([]int{1, 2, 4, 8, 16}).Draw(rt, "chansize"),
		}
		nc := rapid.IntRange(1, 3).Draw(rt, "cycles")
		for i := 0; i < nc; i++ {
			n := rapid.IntRange(1, 4*c.ChanSize+c.Workers+6).Draw(rt, "n")
			distinct := rapid.IntRange(1, n+2).Draw(rt, "distinct")
			cy := backlogCycle{Drain: i == nc-1 || rapid.Bool().Draw(rt, "drain")}
			for j := 0; j < n; j++ {
				cy.IDs = append(cy.IDs, rapid.IntRange(0, distinct-1).Draw(rt, "id"))
			}
			c.Cycles = append(c.Cycles, cy)
		}
		msg, maxq, dropped := runBacklog(c)
		over := maxq > c.ChanSize+c.Workers
		ev.Case(over || nc > 1, evid.Hash("backlog", fmt.Sprint(c)), "backlog-restart")
		if over {
			ev.Label("backlog-exceeds-inchannel")
		}
		if dropped > 0 {
			ev.Label("shutdown-with-queued-work")
		}
		if msg != "" {
			rt.Fatalf("%s\ncase: %+v", msg, c)
		}
	})
}
