// Package natsrv starts an embedded nats-server (v2.1.8, from the module cache)
// on a random loopback port.
package natsrv

import (
	"fmt"
	"io"
	"net"
	"strings"
	"sync"
	"time"

	"github.com/nats-io/nats-server/v2/server"
	nats "github.com/nats-io/nats.go"
)

// Server is a running embedded server.
type Server struct {
	S   *server.Server
	URL string
}

// Start starts a server.
func Start() (*Server, error) {
	opts := &server.Options{Host: "127.0.0.1", Port: -1, NoLog: true, NoSigs: true, MaxControlLine: 4096}
	s, err := server.NewServer(opts)
	if err != nil {
		return nil, err
	}
	go s.Start()
	if !s.ReadyForConnections(10 * time.Second) {
		return nil, fmt.Errorf("VERIF-INCONCLUSIVE: embedded nats-server did not start")
	}
	return &Server{S: s, URL: s.ClientURL()}, nil
}

// Connect returns a new client connection.
func (s *Server) Connect() (*nats.Conn, error) {
	return nats.Connect(s.URL, nats.MaxReconnects(0), nats.Timeout(5*time.Second))
}

// Stop shuts the server down.
func (s *Server) Stop() { s.S.Shutdown() }

// Proxy is a TCP proxy in front of the server: a client that connects through it can be
// cut off (its connection dropped, new ones refused) and let back in, while clients
// connected to the server directly are unaffected.
type Proxy struct {
	URL    string
	ln     net.Listener
	target string
	mu     sync.Mutex
	conns  []net.Conn
	cut    bool
}

// Proxy starts a proxy for the server.
func (s *Server) Proxy() (*Proxy, error) {
	ln, err := net.Listen("tcp", "127.0.0.1:0")
	if err != nil {
		return nil, err
	}
	p := &Proxy{ln: ln, target: strings.TrimPrefix(s.URL, "nats://"), URL: "nats://" + ln.Addr().String()}
	go func() {
		for {
			c, err := ln.Accept()
			if err != nil {
				return
			}
			p.mu.Lock()
			cut := p.cut
			p.mu.Unlock()
			if cut {
				_ = c.Close()
				continue
			}
			up, err := net.Dial("tcp", p.target)
			if err != nil {
				_ = c.Close()
				continue
			}
			p.mu.Lock()
			p.conns = append(p.conns, c, up)
			p.mu.Unlock()
			go func() { _, _ = io.Copy(up, c); _ = up.Close(); _ = c.Close() }()
			go func() { _, _ = io.Copy(c, up); _ = up.Close(); _ = c.Close() }()
		}
	}()
	return p, nil
}

// Cut drops every connection through the proxy and refuses new ones.
func (p *Proxy) Cut() {
	p.mu.Lock()
	p.cut = true
	cs := p.conns
	p.conns = nil
	p.mu.Unlock()
	for _, c := range cs {
		_ = c.Close()
	}
}

// Restore lets clients connect again.
func (p *Proxy) Restore() {
	p.mu.Lock()
	p.cut = false
	p.mu.Unlock()
}

// Close stops the proxy.
func (p *Proxy) Close() {
	p.Cut()
	_ = p.ln.Close()
}
