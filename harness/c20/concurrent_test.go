package c20

import (
	"encoding/json"
	"fmt"
	"os"
	"strings"
	"sync"
	"testing"

	res "github.com/jirenius/go-res"
	"pgregory.net/rapid"

	"verifharness/internal/bdb"
	"verifharness/internal/evid"
	"verifharness/internal/svc"
)

// cstep is one always-applicable event of a concurrent program.
type cstep struct {
	K   string `json:"k"` // change add remove
	Key string `json:"key,omitempty"`
	V   string `json:"v"`
}

// runConcurrentFold: every goroutine owns one resource and applies its own event
// sequence through With callbacks while the others do the same on theirs; afterwards
// (and after reopening) every resource equals the fold of its own events.
func runConcurrentFold(cfg Cfg, workers int, progs map[string][]cstep) string {
	f := &fixture{cfg: cfg, dir: bdb.TempDir("c20c"), workers: workers, quiet: true}
	defer os.RemoveAll(f.dir)
	if err := f.open(); err != nil {
		return svc.Verdict(err)
	}
	defer f.close()
	folds := map[string]string{}
	var mu sync.Mutex
	var wg sync.WaitGroup
	var firstErr string
	for rid, prog := range progs {
		wg.Add(1)
		go func(rid string, prog []cstep) {
			defer wg.Done()
			isModel := strings.HasPrefix(rid, "svc.m.")
			var m map[string]interface{}
			var l []interface{}
			fail := func(s string) {
				mu.Lock()
				if firstErr == "" {
					firstErr = s
				}
				mu.Unlock()
			}
			apply := func(cb func(r res.Resource)) bool {
				done := make(chan interface{}, 1)
				if err := f.s.With(rid, func(r res.Resource) {
					defer func() { done <- recover() }()
					cb(r)
				}); err != nil {
					fail("With: " + err.Error())
					return false
				}
				if p := <-done; p != nil {
					fail(fmt.Sprintf("%s: a valid event failed: %v", rid, p))
					return false
				}
				return true
			}
			if isModel {
				m = map[string]interface{}{"a": "init", "n": 1.0}
				if !apply(func(r res.Resource) {
					if cfg.Typed {
						r.CreateEvent(T{A: "init", N: 1})
					} else {
						r.CreateEvent(map[string]interface{}{"a": "init", "n": 1.0})
					}
				}) {
					return
				}
			} else {
				l = []interface{}{}
				if !apply(func(r res.Resource) { r.CreateEvent([]interface{}{}) }) {
					return
				}
			}
			for _, st := range prog {
				st := st
				switch {
				case isModel:
					if m[st.Key] == st.V {
						continue
					}
					m[st.Key] = st.V
					if !apply(func(r res.Resource) { r.ChangeEvent(map[string]interface{}{st.Key: st.V}) }) {
						return
					}
				case st.K == "remove" && len(l) > 0:
					l = l[1:]
					if !apply(func(r res.Resource) { r.RemoveEvent(0) }) {
						return
					}
				default:
					l = append([]interface{}{st.V}, l...)
					if !apply(func(r res.Resource) { r.AddEvent(st.V, 0) }) {
						return
					}
				}
			}
			var b []byte
			if isModel {
				b, _ = json.Marshal(m)
			} else {
				b, _ = json.Marshal(l)
			}
			mu.Lock()
			folds[rid] = string(b)
			mu.Unlock()
		}(rid, prog)
	}
	wg.Wait()
	if firstErr != "" {
		return firstErr
	}
	check := func(when string) string {
		for rid, want := range folds {
			got, ok, err := f.get(rid)
			if err != nil {
				return fmt.Sprintf("%s: get %s failed: %v (the fold of its events is %s)", when, rid, err, want)
			}
			if !ok || !jsonEq(got, want) {
				return fmt.Sprintf("%s: %s reads (%s, found=%v), the fold of the events applied to it is %s (%d resources were updated concurrently)", when, rid, got, ok, want, len(progs))
			}
		}
		return ""
	}
	if m := check("after the concurrent updates"); m != "" {
		return m
	}
	f.close()
	if err := f.open(); err != nil {
		return "VERIF-INCONCLUSIVE: reopen: " + err.Error()
	}
	return check("after reopening the database")
}

func TestPropConcurrentFold(t *testing.T) {
	rapid.Check(t, func(rt *rapid.T) {
		cfg := Cfg{Pkg: rapid.SampledFrom([]string{"middleware", "resbadger"}).Draw(rt, "pkg"), Typed: rapid.Bool().Draw(rt, "typed")}
		workers := rapid.SampledFrom([]int{2, 4, 8}).Draw(rt, "workers")
		nres := rapid.IntRange(2, 8).Draw(rt, "resources")
		progs := map[string][]cstep{}
		total := 0
		for i := 0; i < nres; i++ {
			rid := fmt.Sprintf("svc.%s.%d", rapid.SampledFrom([]string{"m", "c"}).Draw(rt, "class"), i)
			n := rapid.IntRange(3, 30).Draw(rt, "nsteps")
			var prog []cstep
			for j := 0; j < n; j++ {
				pad := strings.Repeat(string(rune('a'+i)), rapid.SampledFrom([]int{0, 3, 40, 300}).Draw(rt, "pad"))
				st := cstep{K: rapid.SampledFrom([]string{"add", "add", "remove"}).Draw(rt, "k"), Key: "a", V: fmt.Sprintf("r%d-%d-%s", i, j, pad)}
				prog = append(prog, st)
			}
			progs[rid] = prog
			total += n
		}
		msg := runConcurrentFold(cfg, workers, progs)
		b, _ := json.Marshal(progs)
		ev.Case(nres >= 3 && total >= 20, evid.Hash("concurrent", fmt.Sprint(cfg), workers, string(b)), "concurrent-history", "pkg-"+cfg.Pkg)
		if msg != "" {
			rt.Fatalf("%s\ncfg %+v workers %d", msg, cfg, workers)
		}
	})
}

// TestPropParallelAdds: a collection handler registered with Parallel(true); several
// goroutines add distinct values at index 0 of the same collection at the same time. Every
// add is its own database transaction, so whatever the interleaving the collection ends up
// with every value exactly once, one add event was published for each, and it is the same
// after a reopen.
func TestPropParallelAdds(t *testing.T) {
	rapid.Check(t, func(rt *rapid.T) {
		cfg := Cfg{Pkg: rapid.SampledFrom([]string{"middleware", "resbadger"}).Draw(rt, "pkg"), Typed: rapid.Bool().Draw(rt, "typed"), Default: rapid.Bool().Draw(rt, "default"), ParallelColl: true}
		workers := rapid.SampledFrom([]int{2, 4, 8}).Draw(rt, "workers")
		gs := rapid.IntRange(2, 6).Draw(rt, "goroutines")
		each := rapid.IntRange(3, 20).Draw(rt, "each")
		f := &fixture{cfg: cfg, dir: bdb.TempDir("c20p"), workers: workers, quiet: true}
		defer os.RemoveAll(f.dir)
		if err := f.open(); err != nil {
			rt.Fatalf("VERIF-INCONCLUSIVE: %v", err)
		}
		defer f.close()
		rid := "svc.c.1"
		var wg sync.WaitGroup
		var mu sync.Mutex
		applied := map[string]bool{}
		conflicts := 0
		for g := 0; g < gs; g++ {
			wg.Add(1)
			go func(g int) {
				defer wg.Done()
				for j := 0; j < each; j++ {
					v := fmt.Sprintf("g%d-%d", g, j)
					done := make(chan interface{}, 1)
					if err := f.s.With(rid, func(r res.Resource) {
						defer func() { done <- recover() }()
						r.AddEvent(v, 0)
					}); err != nil {
						done <- err
					}
					// (an add may lose a transaction conflict against another one: it then fails,
					// and must have stored and published nothing)
					p := <-done
					mu.Lock()
					if p == nil {
						applied[v] = true
					} else {
						conflicts++
					}
					mu.Unlock()
				}
			}(g)
		}
		wg.Wait()
		base := 0
		if cfg.Default {
			base = 2
		}
		check := func(when string) {
			got, ok, err := f.get(rid)
			if err != nil {
				rt.Fatalf("VERIF-INCONCLUSIVE: %v", err)
			}
			var l []interface{}
			_ = json.Unmarshal([]byte(got), &l)
			seen := map[string]int{}
			for _, x := range l {
				if s, ok := x.(string); ok {
					seen[s]++
				}
			}
			wrong := 0
			for g := 0; g < gs; g++ {
				for j := 0; j < each; j++ {
					v := fmt.Sprintf("g%d-%d", g, j)
					if (applied[v] && seen[v] != 1) || (!applied[v] && seen[v] != 0) {
						wrong++
					}
				}
			}
			if (!ok && len(applied) > 0) || len(l) != base+len(applied) || wrong > 0 {
				rt.Fatalf("%s: %d goroutines added %d values each to %s; %d add events were applied (%d failed); the collection has %d elements (expected %d), %d values are not in it as often as their add events say (cfg %+v)", when, gs, each, rid, len(applied), conflicts, len(l), base+len(applied), wrong, cfg)
			}
		}
		adds := 0
		for _, e := range f.conn.Log() {
			if e.Kind == "pub" && e.Subject == "event."+rid+".add" {
				adds++
			}
		}
		if adds != len(applied) {
			rt.Fatalf("%d add events were applied (%d failed), %d were published (cfg %+v)", len(applied), conflicts, adds, cfg)
		}
		check("after the concurrent adds")
		f.close()
		if err := f.open(); err != nil {
			rt.Fatalf("VERIF-INCONCLUSIVE: reopen: %v", err)
		}
		check("after reopening the database")
		ev.Case(len(applied) > gs, evid.Hash("paralleladds", fmt.Sprint(cfg), workers, gs, each), "parallel-adds", "pkg-"+cfg.Pkg)
	})
}
