package cidx

import (
	"bytes"
	"encoding/hex"
	"encoding/json"
	"fmt"
	"net/url"
	"os"
	"runtime"
	"sort"
	"strconv"
	"strings"
	"sync"
	"testing"
	"time"

	"github.com/dgraph-io/badger"
	"github.com/jirenius/go-res/store"
	"github.com/jirenius/go-res/store/badgerstore"

	"verifharness/internal/bdb"
	"verifharness/internal/evid"
)

func TestMain(m *testing.M) { os.Exit(evid.Main(m)) }

// Rec is the stored value type.
type Rec struct {
	A string `json:"a,omitempty"` // an empty field is absent from the stored JSON
	B string `json:"b,omitempty"`
}

// keyBytes maps a field to an index key: "~nil" is "not indexed", '~' stands for byte 0xff.
func keyBytes(s string) []byte {
	if s == "~nil" {
		return nil
	}
	// keys of more than a kilobyte that differ only in their last byte
	if s == "~L1" || s == "~L2" {
		return append(bytes.Repeat([]byte("k"), 1100), s[2])
	}
	b := []byte(s)
	for i := range b {
		if b[i] == '~' {
			b[i] = 0xff
		}
		if b[i] == '^' {
			b[i] = 0x00
		}
	}
	if b == nil {
		b = []byte{}
	}
	return b
}

var fieldAlpha = []string{"", "a", "b", "ab", "a:", ":b", "a~b", "~", "aa", "b:a", "~nil", "~nil", "ba", "a~", "~L1", "~L2"}

// Query is a query description (also used as standing query).
type Query struct {
	Index   string `json:"index"`
	Prefix  string `json:"prefix"` // in the field alphabet notation ('~' = 0xff); "\x00" allowed
	Filter  string `json:"filter"` // "" evenlen lastb nonempty
	Offset  int    `json:"offset"`
	Limit   int    `json:"limit"`
	Reverse bool   `json:"reverse"`
}

func (q Query) values() url.Values {
	return url.Values{"index": {q.Index}, "prefix": {hex.EncodeToString(keyBytes(q.Prefix))}, "filter": {q.Filter}, "offset": {strconv.Itoa(q.Offset)}, "limit": {strconv.Itoa(q.Limit)}, "reverse": {strconv.FormatBool(q.Reverse)}}
}

func filterFunc(name string) func([]byte) bool {
	switch name {
	case "evenlen":
		return func(k []byte) bool { return len(k)%2 == 0 }
	case "lastb":
		return func(k []byte) bool { return len(k) > 0 && k[len(k)-1] == 'b' }
	case "nonempty":
		return func(k []byte) bool { return len(k) > 0 }
	}
	return nil
}

// Op is a machine step.
type Op struct {
	K  string `json:"k"` // create update delete flush query
	ID string `json:"id,omitempty"`
	A  string `json:"a,omitempty"`
	B  string `json:"b,omitempty"`
	Q  *Query `json:"q,omitempty"`
	// Then, if set, is a second mutation ("update" or "delete") made inside the same write transaction.
	Then string `json:"then,omitempty"`
	A2   string `json:"a2,omitempty"`
	B2   string `json:"b2,omitempty"`
	// Raw (delete only): right before the operation the stored data of the record is replaced,
	// behind the store's back, by data that does not decode into the store's type (as left by
	// another version of the program). The delete is refused, or it is a delete like any other.
	Raw bool `json:"raw,omitempty"`
}

// rawKey is the database key of a record.
func (m *machine) rawKey(id string) []byte {
	if m.cfg.Prefix == "" {
		return []byte(id)
	}
	return []byte(m.cfg.Prefix + "." + id)
}

// Cfg is the machine configuration.
type Cfg struct {
	Prefix   string   `json:"prefix"`
	Indexes  []string `json:"indexes"` // subset of ia ib ic
	SlowKey  int      `json:"slowKey"` // 0 none, 1 yield, 2 sleep 1ms in the Key function of the first index
	Standing []Query  `json:"standing"`
	// ReuseIQ: the query callback hands out the same *IndexQuery value every time it is given
	// the same query (an application keeping its prepared queries).
	ReuseIQ bool `json:"reuseIQ,omitempty"`
	// SlowListener: an OnChange listener registered on the store before the query store's
	// own one yields (1) or sleeps 100us (2): change notification takes a while.
	SlowListener int `json:"slowListener,omitempty"`
}

// Case is a sequential case.
type Case struct {
	Cfg Cfg  `json:"cfg"`
	Ops []Op `json:"ops"`
}

func (c Case) String() string { b, _ := json.Marshal(c); return string(b) }

func keyOf(index string, r *Rec) []byte {
	if r == nil {
		return nil
	}
	switch index {
	case "ia":
		return keyBytes(r.A)
	case "ib":
		return keyBytes(r.B)
	default:
		a, b := keyBytes(r.A), keyBytes(r.B)
		if a == nil || b == nil {
			return nil
		}
		return append(append(append([]byte{}, a...), ':'), b...)
	}
}

// refQuery computes the reference result of a query over a model.
func refQuery(model map[string]Rec, q Query) []string {
	type ent struct {
		key []byte
		id  string
	}
	var es []ent
	prefix := keyBytes(q.Prefix)
	f := filterFunc(q.Filter)
	for id, r := range model {
		r := r
		k := keyOf(q.Index, &r)
		if k == nil || !bytes.HasPrefix(k, prefix) {
			continue
		}
		if f != nil && !f(k) {
			continue
		}
		es = append(es, ent{k, id})
	}
	sort.Slice(es, func(i, j int) bool {
		if c := bytes.Compare(es[i].key, es[j].key); c != 0 {
			return c < 0
		}
		return es[i].id < es[j].id
	})
	if q.Reverse {
		for i, j := 0, len(es)-1; i < j; i, j = i+1, j-1 {
			es[i], es[j] = es[j], es[i]
		}
	}
	if q.Limit == 0 {
		return nil
	}
	var out []string
	for i, e := range es {
		if i < q.Offset {
			continue
		}
		if q.Limit > 0 && len(out) >= q.Limit {
			break
		}
		out = append(out, e.id)
	}
	return out
}

// matches tells whether a key passes a query's prefix and filter.
func matches(q Query, k []byte) bool {
	if k == nil || !bytes.HasPrefix(k, keyBytes(q.Prefix)) {
		return false
	}
	if f := filterFunc(q.Filter); f != nil && !f(k) {
		return false
	}
	return true
}

type qcRecord struct {
	ID            string
	Before, After string
	Affected      []bool     // per standing query
	Inside        [][]string // per standing query: result of Query issued inside the callback
	Errs          []string
}

type machine struct {
	cfg     Cfg
	db      *badger.DB
	st      *badgerstore.Store
	qs      *badgerstore.QueryStore
	cleanup func()
	mu      sync.Mutex
	qclog   []qcRecord
	// scanHook, when set, is called (and cleared) the first time a query with filter "hook"
	// looks at an index entry: something that happens while a query is scanning the index
	scanHook func()
	prepared map[string]*badgerstore.IndexQuery
}

func (m *machine) fireScan() {
	m.mu.Lock()
	f := m.scanHook
	m.scanHook = nil
	m.mu.Unlock()
	if f != nil {
		f()
	}
}

func recJSON(v interface{}) string {
	if v == nil {
		return ""
	}
	b, _ := json.Marshal(v)
	return string(b)
}

func newMachine(cfg Cfg) (*machine, error) {
	db, _, cleanup, err := bdb.OpenTemp("cidx")
	if err != nil {
		return nil, err
	}
	m := &machine{cfg: cfg, db: db, cleanup: cleanup}
	m.st = badgerstore.NewStore(db).SetType(Rec{}).SetPrefix(cfg.Prefix)
	if cfg.SlowListener > 0 {
		m.st.OnChange(func(string, interface{}, interface{}) {
			if cfg.SlowListener == 1 {
				runtime.Gosched()
			} else {
				time.Sleep(100 * time.Microsecond)
			}
		})
	}
	m.qs = badgerstore.NewQueryStore(m.st, func(qs *badgerstore.QueryStore, q url.Values) (*badgerstore.IndexQuery, error) {
		prefix, _ := hex.DecodeString(q.Get("prefix"))
		off, _ := strconv.Atoi(q.Get("offset"))
		lim, _ := strconv.Atoi(q.Get("limit"))
		filter := filterFunc(q.Get("filter"))
		if q.Get("filter") == "hook" {
			filter = func([]byte) bool { m.fireScan(); return true }
		}
		iq := &badgerstore.IndexQuery{Index: qs.Index(q.Get("index")), KeyPrefix: prefix, FilterKeys: filter, Offset: off, Limit: lim, Reverse: q.Get("reverse") == "true"}
		if cfg.ReuseIQ {
			m.mu.Lock()
			defer m.mu.Unlock()
			if m.prepared == nil {
				m.prepared = map[string]*badgerstore.IndexQuery{}
			}
			if p := m.prepared[q.Encode()]; p != nil {
				return p, nil
			}
			m.prepared[q.Encode()] = iq
		}
		return iq, nil
	})
	for i, name := range cfg.Indexes {
		name, first := name, i == 0
		m.qs.AddIndex(badgerstore.Index{Name: name, Key: func(v interface{}) []byte {
			if first {
				switch cfg.SlowKey {
				case 1:
					runtime.Gosched()
				case 2:
					time.Sleep(time.Millisecond)
				}
			}
			r := v.(Rec)
			return keyOf(name, &r)
		}})
	}
	m.qs.OnQueryChange(func(qc store.QueryChange) {
		rec := qcRecord{ID: qc.ID(), Before: recJSON(qc.Before()), After: recJSON(qc.After())}
		for _, q := range cfg.Standing {
			evs, reset, err := qc.Events(q.values())
			if err != nil {
				rec.Errs = append(rec.Errs, err.Error())
			}
			rec.Affected = append(rec.Affected, reset || len(evs) > 0)
			res, err := m.qs.Query(q.values())
			if err != nil {
				rec.Errs = append(rec.Errs, err.Error())
			}
			ids, _ := res.([]string)
			rec.Inside = append(rec.Inside, ids)
		}
		m.mu.Lock()
		m.qclog = append(m.qclog, rec)
		m.mu.Unlock()
	})
	return m, nil
}

func (m *machine) mutate(op Op) error {
	tx := m.st.Write(op.ID)
	defer tx.Close()
	var err error
	switch op.K {
	case "create":
		err = tx.Create(Rec{A: op.A, B: op.B})
	case "update":
		err = tx.Update(Rec{A: op.A, B: op.B})
	default:
		err = tx.Delete()
	}
	if err != nil || op.Then == "" {
		return err
	}
	// a second mutation inside the same write transaction
	if op.Then == "update" {
		return tx.Update(Rec{A: op.A2, B: op.B2})
	}
	return tx.Delete()
}

// split turns an op with a follow-up into the sequence of single mutations it performs.
func split(op Op) []Op {
	if op.Then == "" || op.K == "delete" {
		o := op
		o.Then = ""
		return []Op{o}
	}
	first := op
	first.Then = ""
	return []Op{first, {K: op.Then, ID: op.ID, A: op.A2, B: op.B2}}
}

func (m *machine) query(q Query) ([]string, error) {
	res, err := m.qs.Query(q.values())
	if err != nil {
		return nil, err
	}
	ids, _ := res.([]string)
	return ids, nil
}

func sameIDs(a, b []string) bool {
	if len(a) != len(b) {
		return false
	}
	for i := range a {
		if a[i] != b[i] {
			return false
		}
	}
	return true
}

func copyModel(m map[string]Rec) map[string]Rec {
	c := make(map[string]Rec, len(m))
	for k, v := range m {
		c[k] = v
	}
	return c
}

type seqResult struct {
	c13, c14   string
	nt13, nt14 bool
	queries    int
}

// runSequential runs a sequential case and evaluates the C13 and C14 oracles.
func runSequential(c Case) (r seqResult) {
	m, err := newMachine(c.Cfg)
	if err != nil {
		r.c13 = "VERIF-INCONCLUSIVE: " + err.Error()
		r.c14 = r.c13
		return
	}
	defer m.cleanup()
	model := map[string]Rec{}
	type expectQC struct {
		id                 string
		before, after      string
		snapPrev, snapNext map[string]Rec
	}
	var expected []expectQC
	keyChanging, deletes := 0, 0
	inited := false
	for i, op := range c.Ops {
		switch op.K {
		case "rebuild":
			// rebuilding the indexes of a store whose index queue is flushed changes nothing
			m.qs.Flush()
			if err := m.qs.RebuildIndexes(); err != nil {
				r.c13 = fmt.Sprintf("op %d: RebuildIndexes failed: %v", i, err)
				return
			}
		case "create", "update", "delete", "init":
			if op.K == "delete" {
				op.Then = ""
			}
			_, exists0 := model[op.ID]
			rawDone := false
			if op.K == "delete" && op.Raw && exists0 {
				m.qs.Flush()
				key := m.rawKey(op.ID)
				if err := m.db.Update(func(txn *badger.Txn) error { return txn.Set(key, []byte(`{"a":5,"b":[]}`)) }); err != nil {
					r.c13 = "VERIF-INCONCLUSIVE: " + err.Error()
					r.c14 = r.c13
					return
				}
				if err := m.mutate(op); err != nil {
					// refused: the record stays (its data is put back, for the operations that follow)
					prev := model[op.ID]
					if err := m.db.Update(func(txn *badger.Txn) error { return txn.Set(key, []byte(recJSON(prev))) }); err != nil {
						r.c13 = "VERIF-INCONCLUSIVE: " + err.Error()
						r.c14 = r.c13
						return
					}
					continue
				}
				// made: a delete like any other (below), the store call itself is done
				rawDone = true
			}
			if rawDone {
			} else if op.K == "init" {
				// Store.Init offering this id as a seed: creates it the first time Init runs,
				// unless the id exists already; otherwise nothing happens
				// Then "race": a Create of the same id (A2, B2) from another goroutine commits
				// while Init is between its existence checks and its commit. Either Init fails
				// as a whole and the Create stands, or the Create fails and Init stands.
				raced, fired := op.Then == "race", false
				var raceErr error
				op.Then = ""
				if raced {
					badgerstore.VerifHook = func(point string, arg interface{}) {
						if point != "init.seeded" || fired {
							return
						}
						fired = true
						done := make(chan error)
						go func() { done <- m.mutate(Op{K: "create", ID: op.ID, A: op.A2, B: op.B2}) }()
						raceErr = <-done
					}
				}
				err := m.st.Init(func(add func(id string, v interface{})) error {
					add(op.ID, Rec{A: op.A, B: op.B})
					return nil
				})
				badgerstore.VerifHook = nil
				if fired != (raced && !inited) {
					r.c13 = fmt.Sprintf("op %d %v: Init reached its seeding point: %v, store initialised before: %v", i, op, fired, inited)
					return
				}
				if fired && (raceErr == nil) == exists0 {
					r.c13 = fmt.Sprintf("op %d %v: Create during Init returned %v, model exists=%v (store contract, see C11)", i, op, raceErr, exists0)
					return
				}
				if fired && raceErr == nil {
					// the Create committed first: Init may fail (nothing of it applied, to be
					// called again) or succeed having skipped the id
					if err == nil {
						inited = true
					}
					op.K, op.A, op.B = "create", op.A2, op.B2
				} else {
					if err != nil {
						r.c13 = fmt.Sprintf("op %d %v: Init failed: %v", i, op, err)
						return
					}
					if inited || exists0 {
						inited = true
						continue
					}
					inited = true
					op.K = "create"
				}
			} else {
				if (op.K == "create") == exists0 {
					op.Then = "" // the first mutation fails: nothing follows
				}
				err := m.mutate(op)
				if (err == nil) != ((op.K == "create") != exists0) {
					r.c13 = fmt.Sprintf("op %d %v: error %v, model exists=%v (store contract, see C11)", i, op, err, exists0)
					return
				}
				if err != nil {
					continue
				}
			}
			for _, op := range split(op) {
				prev, exists := model[op.ID]
				snapPrev := copyModel(model)
				var before, after *Rec
				if exists {
					p := prev
					before = &p
				}
				if op.K == "delete" {
					delete(model, op.ID)
					deletes++
				} else {
					n := Rec{A: op.A, B: op.B}
					model[op.ID] = n
					after = &n
				}
				changed := false
				for _, idx := range c.Cfg.Indexes {
					bk, ak := keyOf(idx, before), keyOf(idx, after)
					if !(bk == nil && ak == nil) && !(bk != nil && ak != nil && bytes.Equal(bk, ak)) {
						changed = true
					}
				}
				if changed {
					if op.K == "update" {
						keyChanging++
					}
					e := expectQC{id: op.ID, snapPrev: snapPrev, snapNext: copyModel(model)}
					if before != nil {
						e.before = recJSON(*before)
					}
					if after != nil {
						e.after = recJSON(*after)
					}
					expected = append(expected, e)
				}
			}
		case "flush":
			m.qs.Flush()
		case "query":
			m.qs.Flush()
			q := *op.Q
			got, err := m.query(q)
			if err != nil {
				r.c13 = fmt.Sprintf("op %d: query %+v failed: %v", i, q, err)
				return
			}
			want := refQuery(model, q)
			r.queries++
			if len(want) > 0 && keyChanging > 0 && deletes > 0 {
				r.nt13 = true
			}
			if !sameIDs(got, want) {
				r.c13 = fmt.Sprintf("op %d: after Flush, query %+v returned %q, the sorted/filtered/windowed scan of the store gives %q (model %v)", i, q, got, want, model)
				return
			}
		}
	}
	m.qs.Flush()
	// every index, both directions, full scan at the end
	for _, idx := range c.Cfg.Indexes {
		for _, rev := range []bool{false, true} {
			q := Query{Index: idx, Limit: -1, Reverse: rev}
			got, err := m.query(q)
			want := refQuery(model, q)
			if err != nil || !sameIDs(got, want) {
				r.c13 = fmt.Sprintf("final scan of index %s (reverse=%v) returned %q (%v), expected %q", idx, rev, got, err, want)
				return
			}
		}
	}
	// ---- C14: callback log ----
	m.mu.Lock()
	log := append([]qcRecord(nil), m.qclog...)
	m.mu.Unlock()
	if len(log) != len(expected) {
		r.c14 = fmt.Sprintf("%d mutations changed an index key but the query-change callbacks ran %d times (after Flush)", len(expected), len(log))
		return
	}
	for i, e := range expected {
		g := log[i]
		if g.ID != e.id || g.Before != e.before || g.After != e.after {
			r.c14 = fmt.Sprintf("query-change callback %d is (id %s, before %s, after %s), expected mutation order gives (%s, %s, %s)", i, g.ID, g.Before, g.After, e.id, e.before, e.after)
			return
		}
		if len(g.Errs) > 0 {
			r.c14 = fmt.Sprintf("query-change callback %d: %v", i, g.Errs)
			return
		}
		var br, ar Rec
		var before, after *Rec
		if e.before != "" {
			_ = json.Unmarshal([]byte(e.before), &br)
			before = &br
		}
		if e.after != "" {
			_ = json.Unmarshal([]byte(e.after), &ar)
			after = &ar
		}
		for qi, q := range c.Cfg.Standing {
			wantInside := refQuery(e.snapNext, q)
			if !sameIDs(g.Inside[qi], wantInside) {
				r.c14 = fmt.Sprintf("query issued inside query-change callback %d (mutation of %s) returned %q; the index must already reflect the mutation: %q (query %+v)", i, e.id, g.Inside[qi], wantInside, q)
				return
			}
			refBefore, refAfter := refQuery(e.snapPrev, q), wantInside
			differ := !sameIDs(refBefore, refAfter)
			bk, ak := keyOf(q.Index, before), keyOf(q.Index, after)
			neither := !matches(q, bk) && !matches(q, ak)
			if differ {
				r.nt14 = true
			}
			if differ && !g.Affected[qi] {
				r.c14 = fmt.Sprintf("mutation %d of %s (%s -> %s) changes the result of query %+v from %q to %q, but the change reports the query as unaffected", i, e.id, e.before, e.after, q, refBefore, refAfter)
				return
			}
			if neither && g.Affected[qi] {
				r.c14 = fmt.Sprintf("mutation %d of %s (%s -> %s): neither the old key %q nor the new key %q matches query %+v, but the change reports it as affected", i, e.id, e.before, e.after, bk, ak, q)
				return
			}
		}
	}
	return
}

// "px" starts with characters of the prefix "pfx."; "ia;" is, in a store without prefix, the
// database key right after every entry of index "ia" (index name + ':' incremented)
var idAlpha = []string{"1", "2", "px", "a", "ab", "b", "ia;", "$in"}

func describeModel(m map[string]Rec) string {
	var ks []string
	for k := range m {
		ks = append(ks, k)
	}
	sort.Strings(ks)
	var sb strings.Builder
	for _, k := range ks {
		fmt.Fprintf(&sb, "%s=%+v ", k, m[k])
	}
	return sb.String()
}

var _ = testing.Short
