package c19

import (
	"errors"
	"fmt"
	"os"
	"strings"
	"sync"
	"testing"
	"time"

	res "github.com/jirenius/go-res"
	"github.com/jirenius/go-res/resprot"
	nats "github.com/nats-io/nats.go"

	"verifharness/internal/evid"
)

// rtConn is a scripted connection for real-time runs.
type rtConn struct {
	script []Msg
	mu     sync.Mutex
	ch     chan *nats.Msg
}

func (c *rtConn) Publish(string, []byte) error { return errors.New("unexpected") }
func (c *rtConn) ChanQueueSubscribe(string, string, chan *nats.Msg) (*nats.Subscription, error) {
	return nil, errors.New("unexpected")
}
func (c *rtConn) Close() {}
func (c *rtConn) ChanSubscribe(subject string, ch chan *nats.Msg) (*nats.Subscription, error) {
	c.mu.Lock()
	c.ch = ch
	c.mu.Unlock()
	return &nats.Subscription{Subject: subject}, nil
}
func (c *rtConn) PublishRequest(subject, reply string, data []byte) error {
	c.mu.Lock()
	ch := c.ch
	c.mu.Unlock()
	go func() {
		start := time.Now()
		at := time.Duration(0)
		for _, m := range c.script {
			at += time.Duration(m.DelayMs) * time.Millisecond
			time.Sleep(time.Until(start.Add(at)))
			select {
			case ch <- &nats.Msg{Subject: reply, Data: []byte(m.Data)}:
			case <-time.After(2 * time.Second):
				return
			}
		}
	}()
	return nil
}

// TestOldTimerSemantics runs SendRequest in real time under GODEBUG=asynctimerchan=1, the timer
// channel semantics that go-res's own go.mod (go 1.18) selects. A slow extension callback lets the
// old deadline and the next pre-response become pending together. Only one direction is asserted,
// so slowness cannot raise an alarm: once the deadline was extended by 1s (callback seen), a timeout
// must not be reported within the next 500ms, and a response arriving inside the extension is returned.
func TestOldTimerSemantics(t *testing.T) {
	if !strings.Contains(os.Getenv("GODEBUG"), "asynctimerchan=1") {
		t.Skip("needs GODEBUG=asynctimerchan=1 (set by bin/check)")
	}
	attempts := evid.Pick(12, 60)
	for i := 0; i < attempts; i++ {
		slow := time.Duration(60+10*(i%4)) * time.Millisecond
		conn := &rtConn{script: []Msg{
			{DelayMs: 0, Data: `timeout:"40"`},
			{DelayMs: 45 + 5*(i%3), Data: `timeout:"1000"`},
			{DelayMs: 60, Data: `{"result":{"ok":true}}`},
		}}
		var extendedAt time.Time
		r := resprot.SendRequest(conn, "call.svc.x.do", nil, 200*time.Millisecond, func(d time.Duration) {
			if d == 40*time.Millisecond {
				time.Sleep(slow) // a slow user callback: meanwhile the 40ms deadline fires and the next pre-response arrives
			}
			if d == time.Second {
				extendedAt = time.Now()
			}
		})
		ret := time.Now()
		ev.Case(!extendedAt.IsZero(), evid.Hash("oldtimer", i), "old-timer-semantics")
		if extendedAt.IsZero() {
			continue // the expired 40ms deadline won the select: a legal timeout
		}
		if r.HasError() && r.Error.Code == res.CodeTimeout && ret.Sub(extendedAt) < 500*time.Millisecond {
			evid.Violation(t, prop, "oldtimer", fmt.Sprintf("the deadline was extended by 1s (extension callback called), but system.timeout was returned only %v later and the response that followed was lost (stale expiry left in the timer channel)", ret.Sub(extendedAt)), map[string]interface{}{"script": conn.script, "slowCallbackMs": slow.Milliseconds()})
			return
		}
	}
}
