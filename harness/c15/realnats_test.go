package c15

import (
	"encoding/json"
	"fmt"
	"runtime/pprof"
	"strings"
	"sync/atomic"
	"testing"
	"time"

	res "github.com/jirenius/go-res"
	nats "github.com/nats-io/nats.go"
	"pgregory.net/rapid"

	"verifharness/internal/evid"
	"verifharness/internal/natsrv"
)

func countListenerGoroutines() int {
	var sb strings.Builder
	_ = pprof.Lookup("goroutine").WriteTo(&sb, 1)
	return strings.Count(sb.String(), "startQueryListener")
}

// TestRealNATSRelease: after N expired query events on a real connection the
// subscription count is back at its base and no listener goroutine remains.
func TestRealNATSRelease(t *testing.T) {
	srv, err := natsrv.Start()
	if err != nil {
		t.Fatalf("VERIF-INCONCLUSIVE: %v", err)
	}
	defer srv.Stop()
	nc, err := srv.Connect()
	if err != nil {
		t.Fatalf("VERIF-INCONCLUSIVE: %v", err)
	}
	client, err := srv.Connect()
	if err != nil {
		t.Fatalf("VERIF-INCONCLUSIVE: %v", err)
	}
	defer client.Close()
	n := evid.Pick(50, 2000)
	s := res.NewService("svc")
	s.SetLogger(nil)
	s.SetQueryEventDuration(30 * time.Millisecond)
	var nils, answered int64
	s.Handle("q.$id", res.Model, res.GetResource(func(r res.GetRequest) { r.NotFound() }))
	served := make(chan struct{})
	s.SetOnServe(func(*res.Service) { close(served) })
	exited := make(chan error, 1)
	go func() { exited <- s.Serve(nc) }()
	select {
	case <-served:
	case <-time.After(10 * time.Second):
		t.Fatalf("VERIF-INCONCLUSIVE: service did not start")
	}
	base := nc.NumSubscriptions()
	baseG := countListenerGoroutines()
	// a subscriber that answers each query event with one query request
	sub, _ := client.Subscribe("event.svc.q.*.query", func(m *nats.Msg) {
		var subj string
		if i := strings.Index(string(m.Data), `"subject":"`); i >= 0 {
			subj = string(m.Data)[i+11:]
			subj = subj[:strings.IndexByte(subj, '"')]
		}
		if resp, err := client.Request(subj, []byte(`{"query":"a=1"}`), time.Second); err == nil && len(resp.Data) > 0 {
			atomic.AddInt64(&answered, 1)
		}
	})
	defer sub.Unsubscribe()
	client.Flush()
	for i := 0; i < n; i++ {
		rid := fmt.Sprintf("svc.q.%d", i%7)
		_ = s.With(rid, func(r res.Resource) {
			r.QueryEvent(func(qr res.QueryRequest) {
				if qr == nil {
					atomic.AddInt64(&nils, 1)
					return
				}
				qr.NotFound()
			})
		})
		if i%50 == 49 {
			time.Sleep(5 * time.Millisecond)
		}
	}
	// wait (generously) for every nil call; expiry of the wait is inconclusive
	deadline := time.Now().Add(30 * time.Second)
	for atomic.LoadInt64(&nils) < int64(n) && time.Now().Before(deadline) {
		time.Sleep(5 * time.Millisecond)
	}
	if got := atomic.LoadInt64(&nils); got != int64(n) {
		if got > int64(n) {
			evid.Violation(t, prop, "realnats", fmt.Sprintf("%d nil calls for %d query events", got, n), n)
		} else {
			t.Fatalf("VERIF-INCONCLUSIVE: only %d of %d nil calls within 30s", got, n)
		}
		return
	}
	// release: polled, generous
	ok := false
	var subsNow, gNow int
	for time.Now().Before(deadline) {
		subsNow, gNow = nc.NumSubscriptions(), countListenerGoroutines()
		if subsNow == base && gNow == baseG {
			ok = true
			break
		}
		time.Sleep(10 * time.Millisecond)
	}
	if !ok {
		evid.Violation(t, prop, "realnats", fmt.Sprintf("after %d expired query events: %d subscriptions (base %d), %d listener goroutines (base %d) remain", n, subsNow, base, gNow, baseG), n)
	}
	if atomic.LoadInt64(&nils) != int64(n) {
		evid.Violation(t, prop, "realnats", fmt.Sprintf("nil calls grew to %d after expiry for %d query events", atomic.LoadInt64(&nils), n), n)
	}
	_ = s.Shutdown()
	<-exited
	ev.Case(true, evid.Hash("realnats", n), "realnats")
	ev.Case(true, evid.Hash("realnats-answered", atomic.LoadInt64(&answered) > 0), "realnats")
	ev.Add("realnats-query-events", int64(n))
	ev.Add("realnats-answered-requests", atomic.LoadInt64(&answered))
}

// TestRealNATSTwoServices: two or three services of one process on one NATS server (each on
// its own connection) emit query events at overlapping times. Every query event subject
// must be fresh - no two query events, of whichever service, share one - and a query request
// on a subject is answered exactly once, by the service that published it.
func TestRealNATSTwoServices(t *testing.T) {
	rapid.Check(t, func(rt *rapid.T) {
		nsvc := rapid.IntRange(2, 3).Draw(rt, "services")
		nev := rapid.IntRange(1, 3).Draw(rt, "eventsEach")
		srv, err := natsrv.Start()
		if err != nil {
			rt.Fatalf("VERIF-INCONCLUSIVE: %v", err)
		}
		defer srv.Stop()
		client, err := srv.Connect()
		if err != nil {
			rt.Fatalf("VERIF-INCONCLUSIVE: %v", err)
		}
		defer client.Close()
		evsub, err := client.SubscribeSync("event.*.q.*.query")
		if err != nil {
			rt.Fatalf("VERIF-INCONCLUSIVE: %v", err)
		}
		_ = client.Flush()
		var svcs []*res.Service
		var exits []chan error
		stop := func() {
			for i, s := range svcs {
				_ = s.Shutdown()
				select {
				case <-exits[i]:
				case <-time.After(10 * time.Second):
				}
			}
		}
		for i := 0; i < nsvc; i++ {
			name := fmt.Sprintf("s%d", i)
			s := res.NewService(name)
			s.SetLogger(nil)
			s.SetQueryEventDuration(2 * time.Second)
			s.Handle("q.$id", res.Model, res.GetResource(func(r res.GetRequest) { r.NotFound() }))
			nc, err := srv.Connect()
			if err != nil {
				stop()
				rt.Fatalf("VERIF-INCONCLUSIVE: %v", err)
			}
			served := make(chan struct{})
			s.SetOnServe(func(*res.Service) { close(served) })
			exited := make(chan error, 1)
			go func() { exited <- s.Serve(nc) }()
			select {
			case <-served:
			case <-time.After(10 * time.Second):
				stop()
				rt.Fatalf("VERIF-INCONCLUSIVE: service did not start")
			}
			svcs = append(svcs, s)
			exits = append(exits, exited)
		}
		for k := 0; k < nev; k++ {
			for i, s := range svcs {
				name := fmt.Sprintf("s%d", i)
				if err := s.With(fmt.Sprintf("%s.q.%d", name, k), func(r res.Resource) {
					r.QueryEvent(func(qr res.QueryRequest) {
						if qr != nil {
							qr.Model(map[string]string{"by": name})
						}
					})
				}); err != nil {
					stop()
					rt.Fatalf("With: %v", err)
				}
			}
		}
		subjects := map[string]string{} // subject -> service
		msg := ""
		for i := 0; i < nsvc*nev && msg == ""; i++ {
			m, err := evsub.NextMsg(5 * time.Second)
			if err != nil {
				msg = fmt.Sprintf("only %d of %d query events were published", i, nsvc*nev)
				break
			}
			var p struct{ Subject string }
			_ = json.Unmarshal(m.Data, &p)
			owner := strings.Split(m.Subject, ".")[1]
			if other, dup := subjects[p.Subject]; dup {
				msg = fmt.Sprintf("the query event %s publishes the subject %q, which the query event of service %s is using at the same time: not a fresh subject", m.Subject, p.Subject, other)
			}
			subjects[p.Subject] = owner
		}
		for subj, owner := range subjects {
			if msg != "" {
				break
			}
			inbox := nats.NewInbox()
			rs, _ := client.SubscribeSync(inbox)
			_ = client.PublishRequest(subj, inbox, []byte(`{"query":"a=1"}`))
			m, err := rs.NextMsg(5 * time.Second)
			if err != nil {
				msg = fmt.Sprintf("a query request on %s (service %s) got no response", subj, owner)
			} else if !strings.Contains(string(m.Data), `"by":"`+owner+`"`) {
				msg = fmt.Sprintf("a query request on the subject of service %s was answered with %s", owner, m.Data)
			} else if m2, err := rs.NextMsg(30 * time.Millisecond); err == nil {
				msg = fmt.Sprintf("a query request on %s (service %s) got a second response %s", subj, owner, m2.Data)
			}
			_ = rs.Unsubscribe()
		}
		stop()
		ev.Case(true, evid.Hash("twosvc", nsvc, nev), "realnats-two-services")
		if msg != "" {
			rt.Fatalf("%d services, %d query events each: %s", nsvc, nev, msg)
		}
	})
}
