package c05

import (
	"fmt"
	"sync"
	"sync/atomic"
	"testing"
	"time"

	res "github.com/jirenius/go-res"
	"pgregory.net/rapid"

	"verifharness/internal/evid"
	"verifharness/internal/fakeconn"
	"verifharness/internal/svc"
)

// TestPropBacklogRestart: a service with a small in-channel and few workers, whose handlers
// are held back while requests for many different resources pile up behind them; then the
// handlers are let go (every request has exactly one response, with its own answer), or the
// service is shut down with the backlog in place and served again (requests of the next
// cycle - for the same resources - have exactly one response each).
//
// No response is ever waited for with a clock: the listener hook tells when every request
// has been handed to the work queue, a probe request for a fresh resource sent last tells
// (the queue is first-in first-out) when everything before it has been taken by a worker,
// and Shutdown waits for the workers to finish what they have taken. Shutdown closes the
// connection before that, so the connection keeps a log of what is published after Close:
// the question is what the service answers, not what a closed connection still delivers.
func TestPropBacklogRestart(t *testing.T) {
	rapid.Check(t, func(t *rapid.T) {
		workers := rapid.IntRange(1, 3).Draw(t, "workers")
		inCh := rapid.IntRange(1, 4).Draw(t, "inch")
		cycles := rapid.IntRange(1, 3).Draw(t, "cycles")
		pool := rapid.IntRange(2, 14).Draw(t, "pool")
		type rq struct {
			typ string
			id  int
		}
		plan := make([][]rq, cycles)
		for c := range plan {
			n := rapid.IntRange(3, 30).Draw(t, "n")
			for i := 0; i < n; i++ {
				plan[c] = append(plan[c], rq{rapid.SampledFrom([]string{"call", "call", "get"}).Draw(t, "typ"), rapid.IntRange(0, pool-1).Draw(t, "id")})
			}
		}
		// every cycle but the last may end in a Shutdown with the backlog in place
		backlogShutdown := make([]bool, cycles)
		for c := 0; c < cycles-1; c++ {
			backlogShutdown[c] = rapid.IntRange(0, 2).Draw(t, "backlogShutdown") > 0
		}

		s := res.NewService("svc")
		s.SetWorkerCount(workers)
		s.SetInChannelSize(inCh)
		var gate atomic.Pointer[chan struct{}]
		s.Handle("b.$id",
			res.Access(res.AccessGranted),
			res.GetModel(func(r res.ModelRequest) {
				<-*gate.Load()
				r.Model(map[string]string{"id": r.PathParam("id")})
			}),
			res.Call("do", func(r res.CallRequest) {
				<-*gate.Load()
				var p struct{ N int }
				r.ParseParams(&p)
				r.OK(map[string]interface{}{"id": r.PathParam("id"), "n": p.N})
			}),
		)
		s.Handle("probe.$id", res.Call("do", func(r res.CallRequest) { r.OK(nil) }))

		maxBacklog := 0
		seq := 0
		for c := 0; c < cycles; c++ {
			g := make(chan struct{})
			gate.Store(&g)
			conn := fakeconn.New()
			conn.Blocking = true
			conn.LogAfterClose = true
			var closeDone sync.Once
			closed := make(chan struct{})
			r, err := svc.Start(s, conn, func(point string, arg interface{}) {
				if point == "close.done" {
					closeDone.Do(func() { close(closed) })
				}
			})
			if err != nil {
				t.Fatalf("cycle %d: %v", c+1, err)
			}
			type sent struct {
				rq
				reply string
				want  string
			}
			var out []sent
			distinct := map[int]bool{}
			for _, q := range plan[c] {
				seq++
				var subj, payload, want string
				if q.typ == "get" {
					subj, payload = fmt.Sprintf("get.svc.b.%d", q.id), ""
					want = fmt.Sprintf(`{"result":{"model":{"id":"%d"}}}`, q.id)
				} else {
					subj, payload = fmt.Sprintf("call.svc.b.%d.do", q.id), fmt.Sprintf(`{"params":{"n":%d}}`, seq)
					want = fmt.Sprintf(`{"result":{"id":"%d","n":%d}}`, q.id, seq)
				}
				reply, n := r.Send(subj, []byte(payload))
				if n != 1 {
					t.Fatalf("cycle %d: request %s reached %d subscriptions", c+1, subj, n)
				}
				out = append(out, sent{q, reply, want})
				distinct[q.id] = true
			}
			if err := r.WaitListened(int64(len(out))); err != nil {
				t.Fatalf("%v", err)
			}
			if b := len(distinct) - workers; b > maxBacklog {
				maxBacklog = b
			}
			if backlogShutdown[c] {
				stopped := make(chan error, 1)
				go func() { stopped <- r.Stop() }()
				select {
				case <-closed:
				case <-time.After(30 * time.Second):
					t.Fatalf("VERIF-INCONCLUSIVE: Shutdown did not reach the end of close within 30s")
				}
				close(g)
				if err := <-stopped; err != nil {
					t.Fatalf("%v", err)
				}
				// requests behind the backlog are dropped by the shutdown; nothing is answered twice
				// or with another request's answer
				for _, q := range out {
					_, resp := r.Replies(q.reply)
					if len(resp) > 1 {
						t.Fatalf("cycle %d (shut down with a backlog): %d responses to one %s request for svc.b.%d", c+1, len(resp), q.typ, q.id)
					}
					if len(resp) == 1 && string(resp[0]) != q.want {
						t.Fatalf("cycle %d (shut down with a backlog): %s request for svc.b.%d answered %s, expected %s", c+1, q.typ, q.id, resp[0], q.want)
					}
				}
				continue
			}
			close(g)
			preply, n := r.Send(fmt.Sprintf("call.svc.probe.%d.do", c), nil)
			if n != 1 {
				t.Fatalf("cycle %d: probe reached %d subscriptions", c+1, n)
			}
			if err := r.WaitDone(preply, 1); err != nil {
				t.Fatalf("%v", err)
			}
			if err := r.Stop(); err != nil {
				t.Fatalf("%v", err)
			}
			for i, q := range out {
				_, resp := r.Replies(q.reply)
				if len(resp) != 1 {
					t.Fatalf("cycle %d of %d (workers %d, in-channel %d, %d requests for %d resources, earlier cycle shut down with a backlog: %v): request %d (%s svc.b.%d) has %d responses although a request made after it was answered and the service was shut down",
						c+1, cycles, workers, inCh, len(out), len(distinct), c > 0 && backlogShutdown[c-1], i+1, q.typ, q.id, len(resp))
				}
				if string(resp[0]) != q.want {
					t.Fatalf("cycle %d: %s request for svc.b.%d answered %s, expected %s", c+1, q.typ, q.id, resp[0], q.want)
				}
			}
		}
		ev.Case(maxBacklog > inCh+1, evid.Hash("backlog", workers, inCh, fmt.Sprint(plan), fmt.Sprint(backlogShutdown)), "backlog-restart")
		ev.Add("backlog-cycles", int64(cycles))
	})
}
