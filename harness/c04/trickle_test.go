package c04

import (
	"fmt"
	"runtime"
	"sync"
	"sync/atomic"
	"time"

	res "github.com/jirenius/go-res"
	nats "github.com/nats-io/nats.go"
)

// countConn is a minimal res.Conn counting replies per reply subject index.
type countConn struct {
	ch      chan *nats.Msg
	replies []int32
	closed  int32
}

func (c *countConn) Publish(subject string, payload []byte) error {
	if len(subject) > 2 && subject[0] == 'R' && subject[1] == '.' {
		n := 0
		for _, d := range subject[2:] {
			n = n*10 + int(d-'0')
		}
		if n < len(c.replies) {
			atomic.AddInt32(&c.replies[n], 1)
		}
	}
	return nil
}
func (c *countConn) PublishRequest(subject, reply string, data []byte) error { return nil }
func (c *countConn) ChanSubscribe(subject string, ch chan *nats.Msg) (*nats.Subscription, error) {
	if subject == "call.svc.>" {
		c.ch = ch
	}
	return &nats.Subscription{}, nil
}
func (c *countConn) ChanQueueSubscribe(subject, queue string, ch chan *nats.Msg) (*nats.Subscription, error) {
	return c.ChanSubscribe(subject, ch)
}
func (c *countConn) Close() { atomic.StoreInt32(&c.closed, 1) }

func trickle(workers, window, noise, total int) string {
	s := res.NewService("svc")
	s.SetWorkerCount(workers)
	s.SetLogger(nil)
	s.SetQueueGroup("")
	s.Handle("one", res.Group("g"), res.Call("do", func(r res.CallRequest) { r.OK(nil) }))
	conn := &countConn{replies: make([]int32, total)}
	served := make(chan struct{})
	s.SetOnServe(func(*res.Service) { close(served) })
	exited := make(chan error, 1)
	go func() { exited <- s.Serve(conn) }()
	select {
	case <-served:
	case <-time.After(20 * time.Second):
		return "VERIF-INCONCLUSIVE: service did not start"
	}
	stop := make(chan struct{})
	var wg sync.WaitGroup
	for i := 0; i < noise; i++ {
		wg.Add(1)
		go func() {
			defer wg.Done()
			for {
				select {
				case <-stop:
					return
				default:
				}
				s.WithGroup("g", func(*res.Service) {})
				runtime.Gosched()
			}
		}()
	}
	answered := func(i int) bool { return atomic.LoadInt32(&conn.replies[i]) > 0 }
	lost := ""
	for i := 0; i < total && lost == ""; i++ {
		conn.ch <- &nats.Msg{Subject: "call.svc.one.do", Reply: fmt.Sprintf("R.%d", i)}
		if j := i - window; j >= 0 {
			deadline := time.Now().Add(10 * time.Second)
			for !answered(j) {
				if time.Now().After(deadline) {
					lost = fmt.Sprintf("request %d got no response within 10s although later requests of the same group were answered", j)
					break
				}
				runtime.Gosched()
			}
		}
	}
	time.Sleep(2 * time.Millisecond)
	close(stop)
	wg.Wait()
	_ = s.Shutdown()
	<-exited
	if lost != "" {
		return lost
	}
	for i := 0; i < total; i++ {
		if n := atomic.LoadInt32(&conn.replies[i]); n > 1 {
			return fmt.Sprintf("request %d got %d responses, expected exactly one", i, n)
		}
	}
	return ""
}
