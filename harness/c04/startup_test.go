package c04

import (
	"fmt"
	"testing"

	res "github.com/jirenius/go-res"
	"pgregory.net/rapid"

	"verifharness/internal/evid"
	"verifharness/internal/fakeconn"
	"verifharness/internal/svc"
)

// TestPropStartupRequests: requests that arrive while Serve is still making its
// subscriptions (delivered from inside the connection's subscribe call, to subscriptions
// that already exist) or while the OnServe callback runs. Each of them is a request the
// service has received: exactly one response.
//
// Nothing is waited for with a clock: the listener hook tells when every message has been
// taken off the channel, a probe request sent last tells (first-in first-out) when the
// earlier ones have been taken by a worker, and Shutdown waits for the workers; the
// connection logs what is published after Close.
func TestPropStartupRequests(t *testing.T) {
	rapid.Check(t, func(t *rapid.T) {
		workers := rapid.IntRange(1, 3).Draw(t, "workers")
		at := rapid.IntRange(1, 5).Draw(t, "atSubscription") // 5 = none during subscribe
		inOnServe := rapid.Bool().Draw(t, "inOnServe")
		type rq struct{ subj, payload, want string }
		n := rapid.IntRange(1, 8).Draw(t, "n")
		var reqs []rq
		for i := 0; i < n; i++ {
			id := rapid.IntRange(0, 3).Draw(t, "id")
			switch rapid.SampledFrom([]string{"get", "call", "access", "auth"}).Draw(t, "typ") {
			case "get":
				reqs = append(reqs, rq{fmt.Sprintf("get.svc.m.%d", id), "", fmt.Sprintf(`{"result":{"model":{"id":"%d"}}}`, id)})
			case "call":
				reqs = append(reqs, rq{fmt.Sprintf("call.svc.m.%d.do", id), fmt.Sprintf(`{"params":%d}`, i), fmt.Sprintf(`{"result":%d}`, i)})
			case "auth":
				reqs = append(reqs, rq{fmt.Sprintf("auth.svc.m.%d.login", id), fmt.Sprintf(`{"params":%d}`, i), fmt.Sprintf(`{"result":%d}`, i)})
			default:
				reqs = append(reqs, rq{fmt.Sprintf("access.svc.m.%d", id), "", `{"result":{"get":true,"call":"*"}}`})
			}
		}
		s := res.NewService("svc")
		s.SetWorkerCount(workers)
		s.SetInChannelSize(64)
		s.Handle("m.$id",
			res.Access(res.AccessGranted),
			res.GetModel(func(r res.ModelRequest) { r.Model(map[string]string{"id": r.PathParam("id")}) }),
			res.Call("do", func(r res.CallRequest) { r.OK(r.RawParams()) }),
			res.Auth("login", func(r res.AuthRequest) { r.OK(r.RawParams()) }),
		)
		s.Handle("probe", res.Call("do", func(r res.CallRequest) { r.OK(nil) }))
		conn := fakeconn.New()
		conn.LogAfterClose = true
		type sent struct {
			rq
			reply string
			when  string
		}
		var out []sent
		seq := 0
		deliver := func(q rq, when string) {
			seq++
			reply := fmt.Sprintf("_INBOX.early.%d", seq)
			if conn.Deliver(q.subj, reply, []byte(q.payload)) == 1 {
				out = append(out, sent{q, reply, when})
			}
		}
		half := (len(reqs) + 1) / 2
		if !inOnServe {
			half = len(reqs)
		}
		conn.FailSubscribe = func(subject string, k int) error {
			if k == at {
				for _, q := range reqs[:half] {
					deliver(q, fmt.Sprintf("while subscription %d (%s) was being made", k, subject))
				}
			}
			return nil
		}
		r, err := svc.Start(s, conn, nil)
		if err != nil {
			t.Fatalf("%v", err)
		}
		// (the listener loop starts once OnServe has returned; requests delivered right after
		// Start returned race with that on purpose)
		if inOnServe {
			for _, q := range reqs[half:] {
				deliver(q, "right after the OnServe callback")
			}
		}
		preply, pn := r.Send("call.svc.probe.do", nil)
		if pn != 1 {
			t.Fatalf("probe reached %d subscriptions", pn)
		}
		if err := r.WaitListened(int64(len(out) + 1)); err != nil {
			t.Fatalf("%v", err)
		}
		if err := r.WaitDone(preply, 1); err != nil {
			t.Fatalf("%v", err)
		}
		if err := r.Stop(); err != nil {
			t.Fatalf("%v", err)
		}
		early := 0
		for _, q := range out {
			if q.when != "right after the OnServe callback" {
				early++
			}
			_, resp := r.Replies(q.reply)
			if len(resp) != 1 {
				t.Fatalf("request %s delivered to the service %s has %d responses (a request made later was answered, the service was shut down): %q", q.subj, q.when, len(resp), resp)
			}
			if string(resp[0]) != q.want {
				t.Fatalf("request %s delivered %s answered %s, expected %s", q.subj, q.when, resp[0], q.want)
			}
		}
		ev.Case(early > 0, evid.Hash("startup", workers, at, inOnServe, fmt.Sprint(reqs)), "startup-requests")
		ev.Add("startup-requests-delivered-during-subscribe", int64(early))
	})
}
