package cidx

import (
	"encoding/json"
	"fmt"
	"net/url"
	"sort"
	"strings"
	"sync"
	"testing"

	"pgregory.net/rapid"

	"github.com/jirenius/go-res/store"
	"github.com/jirenius/go-res/store/badgerstore"

	"verifharness/internal/bdb"
	"verifharness/internal/evid"
)

// TestC13Concurrent: goroutines mutate concurrently, then one Flush, then queries.
func TestC13Concurrent(t *testing.T) {
	ev := evid.For("C13")
	rapid.Check(t, func(rt *rapid.T) {
		cfg := genCfg().Draw(rt, "cfg")
		cfg.Standing = nil
		cfg.SlowListener = rapid.IntRange(0, 2).Draw(rt, "slowListener")
		ng := rapid.IntRange(2, 4).Draw(rt, "goroutines")
		progs := make([][]Op, ng)
		for g := range progs {
			n := rapid.IntRange(3, 25).Draw(rt, "nops")
			for i := 0; i < n; i++ {
				k := rapid.SampledFrom([]string{"create", "update", "update", "delete"}).Draw(rt, "k")
				progs[g] = append(progs[g], Op{K: k, ID: rapid.SampledFrom(idAlpha).Draw(rt, "id"), A: rapid.SampledFrom(fieldAlpha).Draw(rt, "a"), B: rapid.SampledFrom(fieldAlpha).Draw(rt, "b")})
			}
		}
		nq := rapid.IntRange(1, 6).Draw(rt, "nq")
		var queries []Query
		for i := 0; i < nq; i++ {
			queries = append(queries, genQuery(cfg.Indexes).Draw(rt, "q"))
		}
		m, err := newMachine(cfg)
		if err != nil {
			rt.Fatalf("VERIF-INCONCLUSIVE: %v", err)
		}
		defer m.cleanup()
		var wg sync.WaitGroup
		for _, prog := range progs {
			wg.Add(1)
			go func(prog []Op) {
				defer wg.Done()
				for _, op := range prog {
					_ = m.mutate(op)
				}
			}(prog)
		}
		wg.Wait()
		m.qs.Flush()
		// the final model is what the store holds
		model := map[string]Rec{}
		for _, id := range idAlpha {
			tx := m.st.Read(id)
			v, err := tx.Value()
			_ = tx.Close()
			if err == nil {
				model[id] = v.(Rec)
			}
		}
		for _, q := range queries {
			got, err := m.query(q)
			want := refQuery(model, q)
			if err != nil || !sameIDs(got, want) {
				rt.Fatalf("after concurrent mutations and one Flush, query %+v returned %q (%v), the scan of the store gives %q (store: %s)", q, got, err, want, describeModel(model))
			}
		}
		ev.Case(len(model) > 1, evid.Hash("conc", fmt.Sprint(cfg), fmt.Sprint(progs), fmt.Sprint(queries)), "concurrent")
	})
}

func TestRegressReverseQuery(t *testing.T) {
	c := Case{Cfg: Cfg{Indexes: []string{"ia"}}, Ops: []Op{{K: "create", ID: "1", A: "a"}, {K: "create", ID: "2", A: "~"}, {K: "query", Q: &Query{Index: "ia", Limit: -1, Reverse: true}}}}
	r := runSequential(c)
	evid.ReportKnown(t, "C13", "C13-reverse-query-empty", r.c13 != "", r.c13, c)
	evid.For("C13").Case(true, evid.Hash("regress-reverse"), "regress")
}

func TestRegressInitConflict(t *testing.T) {
	// Init loses a transaction conflict against a Create of one of its seeds: nothing of the
	// seeding is stored, so no index entry of the seed value may appear either
	c := Case{Cfg: Cfg{Indexes: []string{"ia"}}, Ops: []Op{{K: "init", ID: "1", A: "a", Then: "race", A2: "b"}, {K: "query", Q: &Query{Index: "ia", Limit: -1}}}}
	r := runSequential(c)
	evid.ReportKnown(t, "C13", "C13-init-onchange-before-commit", r.c13 != "", r.c13, c)
	evid.For("C13").Case(true, evid.Hash("regress-initconflict"), "regress")
}

func TestRegressFlushEarly(t *testing.T) {
	// a slow Key function holds the window between "task dequeued" and "index committed" open
	msg := ""
	var c Case
	for i := 0; i < 30 && msg == ""; i++ {
		c = Case{Cfg: Cfg{Indexes: []string{"ia"}, SlowKey: 2}, Ops: []Op{{K: "create", ID: "1", A: "a"}, {K: "query", Q: &Query{Index: "ia", Limit: -1}}, {K: "update", ID: "1", A: "b"}, {K: "query", Q: &Query{Index: "ia", Prefix: "b", Limit: -1}}}}
		msg = runSequential(c).c13
	}
	evid.ReportKnown(t, "C13", "C13-flush-returns-early", msg != "", msg, c)
	evid.For("C13").Case(true, evid.Hash("regress-flush"), "regress")
}

func TestRegressNilKeyAffected(t *testing.T) {
	c := Case{Cfg: Cfg{Indexes: []string{"ia"}, Standing: []Query{{Index: "ia", Filter: "evenlen", Limit: -1}}}, Ops: []Op{{K: "create", ID: "ab", A: "a"}, {K: "update", ID: "ab", A: "~nil"}}}
	r := runSequential(c)
	evid.ReportKnown(t, "C14", "C14-nil-key-counted-as-match", r.c14 != "", r.c14, c)
	evid.For("C14").Case(true, evid.Hash("regress-nilkey"), "regress")
}

// TestC13Backlog: one writer produces a burst of several hundred mutations while the
// index Key function is slow, so the index task queue (capacity 256) fills up and the
// writer blocks on it; after Flush every index must still equal the scan of the store.
// (One writer only: two or more writers blocked on a full queue can hang inside the
// third-party taskqueue package, which is not go-res's code.)
func TestC13Backlog(t *testing.T) {
	ev := evid.For("C13")
	rapid.Check(t, func(rt *rapid.T) {
		cfg := Cfg{Prefix: rapid.SampledFrom([]string{"", "pfx"}).Draw(rt, "prefix"), Indexes: []string{"ia", "ib"}, SlowKey: 2}
		n := rapid.IntRange(280, 420).Draw(rt, "burst")
		m, err := newMachine(cfg)
		if err != nil {
			rt.Fatalf("VERIF-INCONCLUSIVE: %v", err)
		}
		defer m.cleanup()
		model := map[string]Rec{}
		for i := 0; i < n; i++ {
			op := Op{ID: rapid.SampledFrom(idAlpha[:3]).Draw(rt, "id"), A: rapid.SampledFrom([]string{"a", "b", "ab", "aa", "ba", "~nil", ""}).Draw(rt, "a"), B: rapid.SampledFrom([]string{"a", "b"}).Draw(rt, "b")}
			_, exists := model[op.ID]
			switch {
			case !exists:
				op.K = "create"
			case rapid.IntRange(0, 9).Draw(rt, "del") == 0:
				op.K = "delete"
			default:
				op.K = "update"
			}
			if err := m.mutate(op); err != nil {
				rt.Fatalf("mutation %d %+v failed: %v", i, op, err)
			}
			if op.K == "delete" {
				delete(model, op.ID)
			} else {
				model[op.ID] = Rec{A: op.A, B: op.B}
			}
		}
		m.qs.Flush()
		for _, idx := range cfg.Indexes {
			for _, rev := range []bool{false, true} {
				q := Query{Index: idx, Limit: -1, Reverse: rev}
				got, err := m.query(q)
				want := refQuery(model, q)
				if err != nil || !sameIDs(got, want) {
					rt.Fatalf("after a burst of %d mutations (index queue full) and Flush, index %s (reverse=%v) returns %q (%v), the scan of the store gives %q (store: %s)", n, idx, rev, got, err, want, describeModel(model))
				}
			}
		}
		ev.Case(true, evid.Hash("backlog", n, cfg.Prefix), "backlog")
	})
}

// TestC13ConcurrentFlush: after a burst of mutations with a slow Key function several
// goroutines call Flush at the same time and query as soon as their own Flush has
// returned; each of them is entitled to the exact result.
func TestC13ConcurrentFlush(t *testing.T) {
	ev := evid.For("C13")
	rapid.Check(t, func(rt *rapid.T) {
		cfg := Cfg{Prefix: rapid.SampledFrom([]string{"", "pfx"}).Draw(rt, "prefix"), Indexes: []string{"ia", "ib"}, SlowKey: rapid.SampledFrom([]int{1, 2, 2}).Draw(rt, "slow")}
		n := rapid.IntRange(5, 60).Draw(rt, "burst")
		readers := rapid.IntRange(2, 6).Draw(rt, "readers")
		m, err := newMachine(cfg)
		if err != nil {
			rt.Fatalf("VERIF-INCONCLUSIVE: %v", err)
		}
		defer m.cleanup()
		model := map[string]Rec{}
		for i := 0; i < n; i++ {
			op := Op{ID: rapid.SampledFrom(idAlpha).Draw(rt, "id"), A: rapid.SampledFrom(fieldAlpha).Draw(rt, "a"), B: rapid.SampledFrom(fieldAlpha).Draw(rt, "b")}
			_, exists := model[op.ID]
			switch {
			case !exists:
				op.K = "create"
			case rapid.IntRange(0, 5).Draw(rt, "del") == 0:
				op.K = "delete"
			default:
				op.K = "update"
			}
			if err := m.mutate(op); err != nil {
				rt.Fatalf("mutation %d %+v failed: %v", i, op, err)
			}
			if op.K == "delete" {
				delete(model, op.ID)
			} else {
				model[op.ID] = Rec{A: op.A, B: op.B}
			}
		}
		var qs []Query
		for i := 0; i < readers; i++ {
			qs = append(qs, genQuery(cfg.Indexes).Draw(rt, "q"))
		}
		msgs := make([]string, readers)
		var wg sync.WaitGroup
		start := make(chan struct{})
		for i := 0; i < readers; i++ {
			wg.Add(1)
			go func(i int) {
				defer wg.Done()
				<-start
				m.qs.Flush()
				got, err := m.query(qs[i])
				want := refQuery(model, qs[i])
				if err != nil || !sameIDs(got, want) {
					msgs[i] = fmt.Sprintf("reader %d of %d: after its own Flush returned, query %+v returned %q (%v), the scan of the store gives %q (store: %s)", i, readers, qs[i], got, err, want, describeModel(model))
				}
			}(i)
		}
		close(start)
		wg.Wait()
		for _, msg := range msgs {
			if msg != "" {
				rt.Fatalf("%s", msg)
			}
		}
		ev.Case(len(model) > 0, evid.Hash("concflush", n, readers, fmt.Sprint(cfg), fmt.Sprint(qs)), "concurrent-flush")
	})
}

// TestC14Backlog: a burst of several hundred mutations with a slow Key function (the
// index task queue fills up and the writer blocks on it); the query-change callbacks
// must still run exactly once per key-changing mutation, in mutation order per id.
func TestC14Backlog(t *testing.T) {
	ev := evid.For("C14")
	rapid.Check(t, func(rt *rapid.T) {
		cfg := Cfg{Prefix: rapid.SampledFrom([]string{"", "pfx"}).Draw(rt, "prefix"), Indexes: []string{"ia", "ib"}, SlowKey: 2}
		n := rapid.IntRange(280, 400).Draw(rt, "burst")
		m, err := newMachine(cfg)
		if err != nil {
			rt.Fatalf("VERIF-INCONCLUSIVE: %v", err)
		}
		defer m.cleanup()
		model := map[string]Rec{}
		want := map[string][][2]string{}
		for i := 0; i < n; i++ {
			op := Op{ID: rapid.SampledFrom(idAlpha[:3]).Draw(rt, "id"), A: rapid.SampledFrom([]string{"a", "b", "ab", "aa", "ba", "~nil", ""}).Draw(rt, "a"), B: rapid.SampledFrom([]string{"a", "b"}).Draw(rt, "b")}
			old, exists := model[op.ID]
			switch {
			case !exists:
				op.K = "create"
			case rapid.IntRange(0, 9).Draw(rt, "del") == 0:
				op.K = "delete"
			default:
				op.K = "update"
			}
			if err := m.mutate(op); err != nil {
				rt.Fatalf("mutation %d %+v failed: %v", i, op, err)
			}
			var before, after *Rec
			if exists {
				o := old
				before = &o
			}
			if op.K == "delete" {
				delete(model, op.ID)
			} else {
				nr := Rec{A: op.A, B: op.B}
				model[op.ID] = nr
				after = &nr
			}
			changed := false
			for _, idx := range cfg.Indexes {
				if string(keyOf(idx, before)) != string(keyOf(idx, after)) || (keyOf(idx, before) == nil) != (keyOf(idx, after) == nil) {
					changed = true
				}
			}
			if changed {
				var b, a interface{}
				if before != nil {
					b = *before
				}
				if after != nil {
					a = *after
				}
				want[op.ID] = append(want[op.ID], [2]string{recJSON(b), recJSON(a)})
			}
		}
		m.qs.Flush()
		m.mu.Lock()
		got := map[string][][2]string{}
		for _, r := range m.qclog {
			got[r.ID] = append(got[r.ID], [2]string{r.Before, r.After})
		}
		m.mu.Unlock()
		for _, id := range idAlpha[:3] {
			if fmt.Sprint(got[id]) != fmt.Sprint(want[id]) {
				k := 0
				for k < len(got[id]) && k < len(want[id]) && got[id][k] == want[id][k] {
					k++
				}
				rt.Fatalf("id %q: after a burst of %d mutations the query-change callbacks ran %d times, %d key-changing mutations were made; first difference at position %d (callbacks must run once per key-changing mutation, in mutation order per id)", id, n, len(got[id]), len(want[id]), k)
			}
		}
		ev.Case(true, evid.Hash("c14backlog", n, cfg.Prefix), "backlog")
	})
}

// TestC13ManyValues: several hundred stored values in one query range: "negative limit
// means unlimited", offsets and limits deep into the range, both directions.
func TestC13ManyValues(t *testing.T) {
	ev := evid.For("C13")
	rapid.Check(t, func(rt *rapid.T) {
		cfg := Cfg{Prefix: rapid.SampledFrom([]string{"", "pfx"}).Draw(rt, "prefix"), Indexes: []string{"ia"}}
		n := rapid.IntRange(257, 420).Draw(rt, "values")
		m, err := newMachine(cfg)
		if err != nil {
			rt.Fatalf("VERIF-INCONCLUSIVE: %v", err)
		}
		defer m.cleanup()
		model := map[string]Rec{}
		for i := 0; i < n; i++ {
			id := fmt.Sprintf("v%03d", i)
			rec := Rec{A: rapid.SampledFrom([]string{"a", "ab", "b", "a~", "~nil"}).Draw(rt, "a"), B: "b"}
			if err := m.mutate(Op{K: "create", ID: id, A: rec.A, B: rec.B}); err != nil {
				rt.Fatalf("create %s: %v", id, err)
			}
			model[id] = rec
		}
		m.qs.Flush()
		for _, q := range []Query{
			{Index: "ia", Limit: -1}, {Index: "ia", Limit: -1, Reverse: true}, {Index: "ia", Prefix: "a", Limit: -1},
			{Index: "ia", Limit: -1, Offset: 250}, {Index: "ia", Limit: 300}, {Index: "ia", Limit: 256}, {Index: "ia", Limit: 257, Reverse: true, Offset: 3},
			{Index: "ia", Prefix: "a", Filter: "evenlen", Limit: -1},
		} {
			got, err := m.query(q)
			want := refQuery(model, q)
			if err != nil || !sameIDs(got, want) {
				rt.Fatalf("with %d stored values query %+v returned %d ids (%v), the scan of the store gives %d", n, q, len(got), err, len(want))
			}
		}
		ev.Case(true, evid.Hash("many", n, cfg.Prefix), "many-values")
	})
}

// TestC14ConcurrentOrder: goroutines mutate the same few ids at the same time. Per id the
// query-change callbacks must come in mutation order: every callback's "before" has the
// index keys of the previous callback's "after" (callbacks exist only for key-changing
// mutations), the first one starts from nothing and the last one ends at what the store
// holds.
func TestC14ConcurrentOrder(t *testing.T) {
	ev := evid.For("C14")
	rapid.Check(t, func(rt *rapid.T) {
		cfg := genCfg().Draw(rt, "cfg")
		cfg.Standing = nil
		cfg.SlowListener = rapid.IntRange(0, 2).Draw(rt, "slowListener")
		ng := rapid.IntRange(2, 4).Draw(rt, "goroutines")
		ids := []string{"1", "2"}
		progs := make([][]Op, ng)
		for g := range progs {
			n := rapid.IntRange(3, 25).Draw(rt, "nops")
			for i := 0; i < n; i++ {
				k := rapid.SampledFrom([]string{"create", "update", "update", "delete"}).Draw(rt, "k")
				progs[g] = append(progs[g], Op{K: k, ID: rapid.SampledFrom(ids).Draw(rt, "id"), A: rapid.SampledFrom(fieldAlpha).Draw(rt, "a"), B: rapid.SampledFrom(fieldAlpha).Draw(rt, "b")})
			}
		}
		m, err := newMachine(cfg)
		if err != nil {
			rt.Fatalf("VERIF-INCONCLUSIVE: %v", err)
		}
		defer m.cleanup()
		var wg sync.WaitGroup
		for _, prog := range progs {
			wg.Add(1)
			go func(prog []Op) {
				defer wg.Done()
				for _, op := range prog {
					_ = m.mutate(op)
				}
			}(prog)
		}
		wg.Wait()
		m.qs.Flush()
		// the index keys of a value; an absent value and a value none of whose keys is set
		// look the same to the indexes (going from one to the other runs no callback)
		keysOf := func(js string) string {
			var r *Rec
			if js != "" {
				r = &Rec{}
				_ = json.Unmarshal([]byte(js), r)
			}
			out := ""
			for _, idx := range cfg.Indexes {
				if k := keyOf(idx, r); k == nil {
					out += idx + "=nil;"
				} else {
					out += fmt.Sprintf("%s=%q;", idx, k)
				}
			}
			return out
		}
		m.mu.Lock()
		log := append([]qcRecord(nil), m.qclog...)
		m.mu.Unlock()
		last := map[string]string{}
		for _, id := range ids {
			last[id] = keysOf("")
		}
		for i, rec := range log {
			if b := keysOf(rec.Before); b != last[rec.ID] {
				rt.Fatalf("query-change callback %d of %d for id %s reports the previous value %s (index keys %s); the callback before it for that id left the keys %s - callbacks out of mutation order (store OnChange listener delay %d)", i, len(log), rec.ID, rec.Before, b, last[rec.ID], cfg.SlowListener)
			}
			last[rec.ID] = keysOf(rec.After)
		}
		for _, id := range ids {
			tx := m.st.Read(id)
			v, err := tx.Value()
			_ = tx.Close()
			stored := keysOf("")
			if err == nil {
				stored = keysOf(recJSON(v))
			}
			if stored != last[id] {
				rt.Fatalf("id %s: the last query-change callback left the index keys %s, the store holds %s", id, last[id], stored)
			}
		}
		ev.Case(len(log) > 2, evid.Hash("concorder", fmt.Sprint(cfg), fmt.Sprint(progs)), "concurrent-order")
	})
}

// TestC13NilValues: an untyped store (values are map[string]interface{}) in which some
// records are nil maps (stored as JSON null). The index Key function gives such a record a
// key of its own ("nil"), so it is indexed like any other value: after every history and a
// Flush the index queries equal the scan of the store.
func TestC13NilValues(t *testing.T) {
	ev := evid.For("C13")
	rapid.Check(t, func(rt *rapid.T) {
		db, _, cleanup, err := bdb.OpenTemp("cidxnil")
		if err != nil {
			rt.Fatalf("VERIF-INCONCLUSIVE: %v", err)
		}
		defer cleanup()
		st := badgerstore.NewStore(db).SetPrefix(rapid.SampledFrom([]string{"", "pfx"}).Draw(rt, "prefix"))
		key := func(v interface{}) []byte {
			m, _ := v.(map[string]interface{})
			if m == nil {
				return []byte("nil")
			}
			a, _ := m["a"].(string)
			if a == "" {
				return nil
			}
			return []byte(a)
		}
		qs := badgerstore.NewQueryStore(st, func(qs *badgerstore.QueryStore, q url.Values) (*badgerstore.IndexQuery, error) {
			return &badgerstore.IndexQuery{Index: qs.Index("ia"), KeyPrefix: []byte(q.Get("p")), Limit: -1}, nil
		})
		qs.AddIndex(badgerstore.Index{Name: "ia", Key: key})
		defer qs.Flush()             // before the database is closed: index updates run on a goroutine of their own
		model := map[string]string{} // id -> key ("" = not indexed)
		exists := map[string]bool{}
		n := rapid.IntRange(1, 25).Draw(rt, "nops")
		nils := 0
		for i := 0; i < n; i++ {
			id := rapid.SampledFrom([]string{"1", "2", "3"}).Draw(rt, "id")
			a := rapid.SampledFrom([]string{"a", "b", "n", "nil", "", "~nilmap", "~nilmap"}).Draw(rt, "a")
			var v map[string]interface{}
			k := ""
			if a == "~nilmap" {
				k = "nil"
				nils++
			} else {
				v = map[string]interface{}{"a": a}
				k = a
			}
			op := rapid.SampledFrom([]string{"create", "update", "update", "delete"}).Draw(rt, "k")
			tx := st.Write(id)
			var err error
			switch op {
			case "create":
				err = tx.Create(v)
			case "update":
				err = tx.Update(v)
			default:
				err = tx.Delete()
			}
			_ = tx.Close()
			if (err == nil) != ((op == "create") != exists[id]) {
				rt.Fatalf("op %d %s %s: error %v, exists=%v (store contract, see C11)", i, op, id, err, exists[id])
			}
			if err != nil {
				continue
			}
			if op == "delete" {
				delete(model, id)
				delete(exists, id)
			} else {
				model[id], exists[id] = k, true
			}
			if rapid.IntRange(0, 2).Draw(rt, "query") == 0 || i == n-1 {
				qs.Flush()
				for _, p := range []string{"", "n", "ni", "nil", "a", "b"} {
					var want []string
					type ent struct{ k, id string }
					var es []ent
					for id, k := range model {
						if k != "" && strings.HasPrefix(k, p) {
							es = append(es, ent{k, id})
						}
					}
					sort.Slice(es, func(i, j int) bool {
						if es[i].k != es[j].k {
							return es[i].k < es[j].k
						}
						return es[i].id < es[j].id
					})
					for _, x := range es {
						want = append(want, x.id)
					}
					res, err := qs.Query(url.Values{"p": {p}})
					got, _ := res.([]string)
					if err != nil || !sameIDs(got, want) {
						rt.Fatalf("after op %d (%s %s, a=%q) and Flush: query with prefix %q returns %q (%v), the store gives %q (keys by id: %v; a record that is a nil map has the key \"nil\")", i, op, id, a, p, got, err, want, model)
					}
				}
			}
		}
		ev.Case(nils > 0, evid.Hash("nilvalues", fmt.Sprint(model), n, nils), "nil-map-values")
	})
}

// TestC13BinaryKeys: index keys as binary data produces them. (1) Keys and prefixes ending in
// 0xff with several entries just above the prefix's range (a reverse query starts from the
// successor of the prefix). (2) Keys that contain the byte 0x00, which also separates key and
// id in an index entry: the ids a query returns are compared as a set there, since that byte
// inside keys leaves the relative order of some entries open.
func TestC13BinaryKeys(t *testing.T) {
	ev := evid.For("C13")
	rapid.Check(t, func(rt *rapid.T) {
		zero := rapid.Bool().Draw(rt, "zeroBytes")
		pool := []string{"a~", "a~b", "a~~", "b", "ba", "b:a", "b~", "a", "~", "~~"}
		prefixes := []string{"a~", "~", "a~~", "a", "b", ""}
		if zero {
			pool = []string{"a^b", "a^", "^", "a", "ab", "a^^b", "b^a", "^a"}
			prefixes = []string{"", "a", "a^", "^", "b", "a^^"}
		}
		cfg := Cfg{Prefix: rapid.SampledFrom([]string{"", "pfx"}).Draw(rt, "prefix"), Indexes: []string{"ia"}}
		m, err := newMachine(cfg)
		if err != nil {
			rt.Fatalf("VERIF-INCONCLUSIVE: %v", err)
		}
		defer m.cleanup()
		model := map[string]Rec{}
		n := rapid.IntRange(2, 9).Draw(rt, "values")
		for i := 0; i < n; i++ {
			id := fmt.Sprintf("v%d", i)
			r := Rec{A: rapid.SampledFrom(pool).Draw(rt, "key")}
			if err := m.mutate(Op{K: "create", ID: id, A: r.A}); err != nil {
				rt.Fatalf("create %s: %v", id, err)
			}
			model[id] = r
		}
		m.qs.Flush()
		for _, p := range prefixes {
			for _, rev := range []bool{false, true} {
				for _, filter := range []string{"", "evenlen"} {
					q := Query{Index: "ia", Prefix: p, Filter: filter, Limit: -1, Reverse: rev}
					got, err := m.query(q)
					want := refQuery(model, q)
					if zero {
						got, want = append([]string(nil), got...), append([]string(nil), want...)
						sort.Strings(got)
						sort.Strings(want)
					}
					if err != nil || !sameIDs(got, want) {
						rt.Fatalf("query %+v returned %q (%v), the scan of the store gives %q (store: %s)", q, got, err, want, describeModel(model))
					}
				}
			}
		}
		ev.Case(true, evid.Hash("binarykeys", zero, cfg.Prefix, describeModel(model)), "binary-keys")
	})
}

// TestC14BinaryKeys: the sequential machine (standing queries, query-change callbacks) on
// keys and prefixes that end in 0xff, with reverse standing queries: what a query issued
// inside the callback returns, and whether the change counts as affecting the query, must
// follow the reference.
func TestC14BinaryKeys(t *testing.T) {
	ev := evid.For("C14")
	rapid.Check(t, func(rt *rapid.T) {
		pool := []string{"a~", "a~b", "a~~", "b", "ba", "b:a", "b~", "a", "~", "~~"}
		c := Case{Cfg: Cfg{Prefix: rapid.SampledFrom([]string{"", "pfx"}).Draw(rt, "prefix"), Indexes: []string{"ia"}}}
		ns := rapid.IntRange(1, 3).Draw(rt, "nstanding")
		for i := 0; i < ns; i++ {
			c.Cfg.Standing = append(c.Cfg.Standing, Query{Index: "ia", Prefix: rapid.SampledFrom([]string{"a~", "~", "a~~", "a", ""}).Draw(rt, "sprefix"), Limit: rapid.SampledFrom([]int{-1, -1, 2}).Draw(rt, "slimit"), Reverse: rapid.IntRange(0, 3).Draw(rt, "srev") > 0})
		}
		n := rapid.IntRange(3, 20).Draw(rt, "nops")
		for i := 0; i < n; i++ {
			k := rapid.SampledFrom([]string{"create", "create", "update", "update", "delete", "query"}).Draw(rt, "k")
			op := Op{K: k, ID: rapid.SampledFrom([]string{"1", "2", "3", "4", "5"}).Draw(rt, "id"), A: rapid.SampledFrom(pool).Draw(rt, "a")}
			if k == "query" {
				q := c.Cfg.Standing[rapid.IntRange(0, ns-1).Draw(rt, "which")]
				op = Op{K: "query", Q: &q}
			}
			c.Ops = append(c.Ops, op)
		}
		r := runSequential(c)
		ev.Case(true, evid.Hash("binarykeys14", c.String()), "binary-keys")
		if r.c14 != "" {
			rt.Fatalf("%s\ncase: %s", r.c14, c)
		}
	})
}

// inPlaceHistory: an untyped store (values are map[string]interface{}); updates are made the
// way a handler often does it - read the value inside the write transaction, change the map it
// was given in place, and pass that same map to Update. The index must follow (C13) and
// every key-changing update must run the query-change callbacks once with the right old and
// new keys (C14).
func inPlaceHistory(rt *rapid.T) (c13, c14 string, updates int) {
	db, _, cleanup, err := bdb.OpenTemp("cidxinplace")
	if err != nil {
		rt.Fatalf("VERIF-INCONCLUSIVE: %v", err)
	}
	defer cleanup()
	st := badgerstore.NewStore(db).SetPrefix(rapid.SampledFrom([]string{"", "pfx"}).Draw(rt, "prefix"))
	key := func(v interface{}) []byte {
		m, _ := v.(map[string]interface{})
		a, _ := m["a"].(string)
		if a == "" {
			return nil
		}
		return []byte(a)
	}
	qs := badgerstore.NewQueryStore(st, func(qs *badgerstore.QueryStore, q url.Values) (*badgerstore.IndexQuery, error) {
		return &badgerstore.IndexQuery{Index: qs.Index("ia"), KeyPrefix: []byte(q.Get("p")), Limit: -1}, nil
	})
	qs.AddIndex(badgerstore.Index{Name: "ia", Key: key})
	defer qs.Flush() // before the database is closed
	var mu sync.Mutex
	var log []string
	qs.OnQueryChange(func(qc store.QueryChange) {
		mu.Lock()
		log = append(log, fmt.Sprintf("%s:%s>%s", qc.ID(), key(qc.Before()), key(qc.After())))
		mu.Unlock()
	})
	model := map[string]string{}
	var want []string
	n := rapid.IntRange(1, 20).Draw(rt, "nops")
	for i := 0; i < n; i++ {
		id := rapid.SampledFrom([]string{"1", "2", "3"}).Draw(rt, "id")
		a := rapid.SampledFrom([]string{"a", "b", "ab", ""}).Draw(rt, "a")
		old, exists := model[id]
		op := rapid.SampledFrom([]string{"create", "inplace", "inplace", "update", "delete"}).Draw(rt, "k")
		tx := st.Write(id)
		var err error
		switch op {
		case "create":
			err = tx.Create(map[string]interface{}{"a": a, "n": float64(i)})
		case "update":
			err = tx.Update(map[string]interface{}{"a": a, "n": float64(i)})
		case "inplace":
			var v interface{}
			if v, err = tx.Value(); err == nil {
				m := v.(map[string]interface{})
				m["a"] = a // the map the store handed out, changed in place
				m["n"] = float64(i)
				err = tx.Update(m)
				updates++
			}
		default:
			err = tx.Delete()
		}
		_ = tx.Close()
		if (err == nil) != ((op == "create") != exists) {
			return fmt.Sprintf("op %d %s %s: error %v, exists=%v (store contract, see C11)", i, op, id, err, exists), "", updates
		}
		if err != nil {
			continue
		}
		if op == "delete" {
			delete(model, id)
			a = ""
		} else {
			model[id] = a
		}
		if old != a {
			want = append(want, fmt.Sprintf("%s:%s>%s", id, old, a))
		}
	}
	qs.Flush()
	for _, p := range []string{"", "a", "b", "ab"} {
		type ent struct{ k, id string }
		var es []ent
		for id, k := range model {
			if k != "" && strings.HasPrefix(k, p) {
				es = append(es, ent{k, id})
			}
		}
		sort.Slice(es, func(i, j int) bool {
			if es[i].k != es[j].k {
				return es[i].k < es[j].k
			}
			return es[i].id < es[j].id
		})
		var ids []string
		for _, x := range es {
			ids = append(ids, x.id)
		}
		res, err := qs.Query(url.Values{"p": {p}})
		got, _ := res.([]string)
		if err != nil || !sameIDs(got, ids) {
			c13 = fmt.Sprintf("after the history and Flush: query with prefix %q returns %q (%v), the store gives %q (keys by id: %v)", p, got, err, ids, model)
			break
		}
	}
	mu.Lock()
	if fmt.Sprint(log) != fmt.Sprint(want) {
		c14 = fmt.Sprintf("query-change callbacks (id:old key>new key) %v, the key-changing mutations were %v", log, want)
	}
	mu.Unlock()
	return c13, c14, updates
}

func TestC13InPlaceUpdates(t *testing.T) {
	ev := evid.For("C13")
	rapid.Check(t, func(rt *rapid.T) {
		c13, _, u := inPlaceHistory(rt)
		ev.Case(u > 0, evid.Hash("inplace13", u, c13), "in-place-updates")
		if c13 != "" {
			rt.Fatalf("%s", c13)
		}
	})
}

func TestC14InPlaceUpdates(t *testing.T) {
	ev := evid.For("C14")
	rapid.Check(t, func(rt *rapid.T) {
		_, c14, u := inPlaceHistory(rt)
		ev.Case(u > 0, evid.Hash("inplace14", u, c14), "in-place-updates")
		if c14 != "" {
			rt.Fatalf("%s", c14)
		}
	})
}
