package c18

import (
	"encoding/json"
	"fmt"
	"testing"
	"time"

	res "github.com/jirenius/go-res"
	"github.com/jirenius/go-res/resprot"
	"pgregory.net/rapid"

	"verifharness/internal/evid"
	"verifharness/internal/fakeconn"
	"verifharness/internal/svc"
)

// the library's predefined error values as documented (code, message)
var predefined = map[string][2]string{
	"accessDenied":   {"system.accessDenied", "Access denied"},
	"internalError":  {"system.internalError", "Internal error"},
	"invalidParams":  {"system.invalidParams", "Invalid parameters"},
	"invalidQuery":   {"system.invalidQuery", "Invalid query"},
	"methodNotFound": {"system.methodNotFound", "Method not found"},
	"notFound":       {"system.notFound", "Not found"},
	"timeout":        {"system.timeout", "Request timeout"},
}

func predefErr(name string) *res.Error {
	switch name {
	case "accessDenied":
		return res.ErrAccessDenied
	case "internalError":
		return res.ErrInternalError
	case "invalidParams":
		return res.ErrInvalidParams
	case "invalidQuery":
		return res.ErrInvalidQuery
	case "methodNotFound":
		return res.ErrMethodNotFound
	case "notFound":
		return res.ErrNotFound
	}
	return res.ErrTimeout
}

type predefStep struct {
	K    string `json:"k"`    // call (a call request) or query (a query request on a query event)
	How  string `json:"how"`  // error, panic, helper, custom
	Name string `json:"name"` // predefined error name
	Msg  string `json:"msg,omitempty"`
}

// TestPropPredefinedErrors: a handler that supplies one of the predefined error values
// (through Error, by panicking with it, or through the matching helper) is seen by the
// client with the documented code and message - also after earlier responses carried
// custom messages under the same code.
func TestPropPredefinedErrors(t *testing.T) {
	names := []string{"accessDenied", "internalError", "invalidParams", "invalidQuery", "methodNotFound", "notFound", "timeout"}
	rapid.Check(t, func(rt *rapid.T) {
		n := rapid.IntRange(2, 10).Draw(rt, "nsteps")
		var steps []predefStep
		for i := 0; i < n; i++ {
			st := predefStep{K: rapid.SampledFrom([]string{"call", "call", "query"}).Draw(rt, "k"), How: rapid.SampledFrom([]string{"error", "panic", "helper", "custom", "custom"}).Draw(rt, "how"), Name: rapid.SampledFrom(names).Draw(rt, "name")}
			if st.How == "custom" {
				st.Msg = rapid.SampledFrom([]string{"custom message", "x", "a much longer custom message than the predefined one"}).Draw(rt, "msg")
			}
			if st.How == "helper" {
				st.Name = rapid.SampledFrom([]string{"invalidQuery", "notFound", "invalidParams", "methodNotFound"}).Draw(rt, "helper")
				if st.K == "query" {
					st.Name = rapid.SampledFrom([]string{"invalidQuery", "notFound"}).Draw(rt, "qhelper")
				}
			}
			steps = append(steps, st)
		}
		cur := make(chan predefStep, 1)
		act := func(st predefStep, errFn func(error), invalidQuery func(string), notFound func(), invalidParams func(string), methodNotFound func()) {
			switch st.How {
			case "error":
				errFn(predefErr(st.Name))
			case "panic":
				panic(predefErr(st.Name))
			case "custom":
				if st.Name == "invalidQuery" {
					invalidQuery(st.Msg)
				} else {
					errFn(&res.Error{Code: predefined[st.Name][0], Message: st.Msg})
				}
			default:
				switch st.Name {
				case "invalidQuery":
					invalidQuery("")
				case "notFound":
					notFound()
				case "invalidParams":
					invalidParams("")
				default:
					methodNotFound()
				}
			}
		}
		s := res.NewService("svc")
		s.SetWorkerCount(1)
		s.SetLogger(nil)
		s.SetQueryEventDuration(time.Hour)
		s.Handle("m", res.Model,
			res.Call("do", func(r res.CallRequest) {
				st := <-cur
				act(st, r.Error, r.InvalidQuery, r.NotFound, r.InvalidParams, r.MethodNotFound)
			}),
			res.Call("qe", func(r res.CallRequest) {
				r.QueryEvent(func(qr res.QueryRequest) {
					if qr == nil {
						return
					}
					st := <-cur
					act(st, qr.Error, qr.InvalidQuery, qr.NotFound, func(string) { qr.NotFound() }, qr.NotFound)
				})
				r.OK(nil)
			}))
		conn := fakeconn.New()
		qsubj := ""
		conn.OnPublish = func(e fakeconn.Entry) {
			if e.Subject == "event.svc.m.query" {
				var p struct{ Subject string }
				_ = json.Unmarshal(e.Data, &p)
				qsubj = p.Subject
			}
		}
		rn, err := svc.Start(s, conn, nil)
		if err != nil {
			rt.Fatalf("%v", err)
		}
		defer rn.Stop()
		reply, _ := rn.Send("call.svc.m.qe", nil)
		_ = rn.WaitDone(reply, 1)
		if qsubj == "" {
			rt.Fatalf("no query event")
		}
		for i, st := range steps {
			cur <- st
			var reply string
			if st.K == "call" {
				reply, _ = rn.Send("call.svc.m.do", nil)
			} else {
				reply = rn.NewReply()
				conn.Deliver(qsubj, reply, []byte(fmt.Sprintf(`{"query":"i=%d"}`, i)))
			}
			var resp [][]byte
			deadline := time.Now().Add(20 * time.Second)
			for len(resp) == 0 && time.Now().Before(deadline) {
				_, resp = rn.Replies(reply)
				if len(resp) == 0 {
					time.Sleep(20 * time.Microsecond)
				}
			}
			if len(resp) != 1 {
				rt.Fatalf("step %d %+v: %d responses", i, st, len(resp))
			}
			p := resprot.ParseResponse(resp[0])
			wantCode, wantMsg := predefined[st.Name][0], predefined[st.Name][1]
			if st.How == "custom" {
				wantMsg = st.Msg
			}
			if !p.HasError() || p.Error.Code != wantCode || p.Error.Message != wantMsg {
				rt.Fatalf("step %d %+v: the client sees %s, the handler supplied code %q message %q (steps so far: %+v)", i, st, resp[0], wantCode, wantMsg, steps[:i+1])
			}
		}
		b, _ := json.Marshal(steps)
		ev.Case(true, evid.Hash("predef", string(b)), "predefined-errors")
	})
}
