package csched

import (
	"fmt"
	"math/rand/v2"
	"runtime"
	"sync"
	"sync/atomic"
	"testing"
	"time"

	res "github.com/jirenius/go-res"
	"pgregory.net/rapid"

	"verifharness/internal/evid"
	"verifharness/internal/fakeconn"
)

// stressCase is a free-running (real concurrency) case.
type stressCase struct {
	Workers   int `json:"workers"`
	Producers int `json:"producers"`
	PerProd   int `json:"perProducer"`
	Groups    int `json:"groups"`
	Yield     int `json:"yieldPermille"` // probability of a Gosched at a hook visit
	Requests  int `json:"requests"`
}

type stressResult struct {
	overlap  string
	order    string
	lost     string
	dup      string
	total    int
	contended bool
}

// runStress runs producers hammering few groups with numbered submissions.
func runStress(c stressCase) stressResult {
	var r stressResult
	s := res.NewService("svc")
	s.SetWorkerCount(c.Workers)
	s.SetInChannelSize(c.Requests + 16)
	s.SetLogger(nil)
	occ := make([]int32, c.Groups)
	var mu sync.Mutex
	seqs := make([][][2]int, c.Groups) // per group: (producer, idx)
	var ran int64
	var viol atomic.Value
	body := func(g, p, i int) {
		if atomic.AddInt32(&occ[g], 1) != 1 {
			viol.CompareAndSwap(nil, fmt.Sprintf("two callbacks of group g%d executed at the same instant (producer %d item %d)", g, p, i))
		}
		if rand.IntN(4) == 0 {
			runtime.Gosched()
		}
		mu.Lock()
		seqs[g] = append(seqs[g], [2]int{p, i})
		mu.Unlock()
		atomic.AddInt32(&occ[g], -1)
		atomic.AddInt64(&ran, 1)
	}
	s.Handle("g.$grp.$id", res.Group("${grp}"), res.Call("do", func(rq res.CallRequest) {
		var a struct{ G, I int }
		rq.ParseParams(&a)
		body(a.G, c.Producers, a.I)
		rq.OK(nil)
	}))
	conn := fakeconn.New()
	yield := c.Yield
	res.VerifHook = func(string, interface{}) {
		if yield > 0 && rand.IntN(1000) < yield {
			runtime.Gosched()
		}
	}
	defer func() { res.VerifHook = nil }()
	served := make(chan struct{})
	s.SetOnServe(func(*res.Service) { close(served) })
	exited := make(chan error, 1)
	go func() { exited <- s.Serve(conn) }()
	select {
	case <-served:
	case <-time.After(20 * time.Second):
		r.lost = "VERIF-INCONCLUSIVE: service did not start"
		return r
	}
	var wg sync.WaitGroup
	for p := 0; p < c.Producers; p++ {
		wg.Add(1)
		go func(p int) {
			defer wg.Done()
			for i := 0; i < c.PerProd; i++ {
				g := (p + i) % c.Groups
				if i%7 == 3 {
					g = 0
				}
				gg, ii := g, i
				switch i % 3 {
				case 0:
					_ = s.With(fmt.Sprintf("svc.g.g%d.%d", g, p), func(res.Resource) { body(gg, p, ii) })
				case 1:
					s.WithGroup(fmt.Sprintf("g%d", g), func(*res.Service) { body(gg, p, ii) })
				default:
					rr, err := s.Resource(fmt.Sprintf("svc.g.g%d.x", g))
					if err == nil {
						s.WithResource(rr, func() { body(gg, p, ii) })
					}
				}
			}
		}(p)
	}
	// requests, delivered in order by one goroutine
	wg.Add(1)
	go func() {
		defer wg.Done()
		for i := 0; i < c.Requests; i++ {
			g := i % c.Groups
			for conn.Deliver(fmt.Sprintf("call.svc.g.g%d.r.do", g), fmt.Sprintf("_INBOX.s%d", i), []byte(fmt.Sprintf(`{"params":{"G":%d,"I":%d}}`, g, i))) == 0 {
				runtime.Gosched()
			}
		}
	}()
	wg.Wait()
	total := c.Producers*c.PerProd + c.Requests
	r.total = total
	// quiescence: all callbacks ran; a stall (no progress for 5s) means lost callbacks
	last, lastChange := int64(-1), time.Now()
	for {
		n := atomic.LoadInt64(&ran)
		if n >= int64(total) {
			break
		}
		if n != last {
			last, lastChange = n, time.Now()
		} else if time.Since(lastChange) > 5*time.Second {
			r.lost = fmt.Sprintf("%d of %d accepted callbacks never ran (no progress for 5s with all producers finished)", int64(total)-n, total)
			break
		}
		time.Sleep(200 * time.Microsecond)
	}
	time.Sleep(time.Millisecond)
	done := make(chan struct{})
	go func() { _ = s.Shutdown(); close(done) }()
	select {
	case <-done:
		<-exited
	case <-time.After(20 * time.Second):
		if r.lost == "" {
			r.lost = "VERIF-INCONCLUSIVE: Shutdown did not return within 20s"
		}
	}
	if v := viol.Load(); v != nil {
		r.overlap = v.(string)
	}
	mu.Lock()
	defer mu.Unlock()
	seen := map[[3]int]int{}
	for g, sq := range seqs {
		lastIdx := map[int]int{}
		if len(sq) > c.PerProd {
			r.contended = true
		}
		for _, e := range sq {
			seen[[3]int{g, e[0], e[1]}]++
			if li, ok := lastIdx[e[0]]; ok && e[1] < li && r.order == "" {
				r.order = fmt.Sprintf("group g%d: item %d of producer %d ran after its later submitted item %d", g, e[1], e[0], li)
			}
			lastIdx[e[0]] = e[1]
		}
	}
	for k, n := range seen {
		if n > 1 && r.dup == "" {
			r.dup = fmt.Sprintf("callback (group g%d producer %d item %d) ran %d times", k[0], k[1], k[2], n)
		}
	}
	if int(atomic.LoadInt64(&ran)) > total && r.dup == "" {
		r.dup = fmt.Sprintf("%d callbacks ran for %d submissions", ran, total)
	}
	return r
}

func genStress() *rapid.Generator[stressCase] {
	return rapid.Custom(func(t *rapid.T) stressCase {
		return stressCase{
			Workers:   rapid.SampledFrom([]int{1, 2, 3, 4, 8, 16, 32}).Draw(t, "workers"),
			Producers: rapid.IntRange(2, 8).Draw(t, "producers"),
			PerProd:   rapid.IntRange(50, 400).Draw(t, "perProducer"),
			Groups:    rapid.IntRange(1, 4).Draw(t, "groups"),
			Yield:     rapid.SampledFrom([]int{0, 50, 250, 600}).Draw(t, "yield"),
			Requests:  rapid.IntRange(0, 200).Draw(t, "requests"),
		}
	})
}

func stressTest(t *testing.T, prop string) {
	ev := evid.For(prop)
	ev.SetRule("free-running variant: 2-8 producer goroutines plus one request deliverer submit 50-400 numbered callbacks each to 1-4 groups through With/WithGroup/WithResource/requests on 1-32 workers with hook-point yields; atomic per-group occupancy, per-producer order, exactly-once and loss (stable stall) are checked; non-trivial when some group received more callbacks than one producer made (contention)")
	rapid.Check(t, func(rt *rapid.T) {
		c := genStress().Draw(rt, "stress")
		r := runStress(c)
		ev.Case(r.contended && c.Workers > 1, evid.Hash(fmt.Sprint(c)), "stress")
		ev.Add("stress-callbacks", int64(r.total))
		var msg string
		if prop == "C01" {
			msg = r.overlap
		} else {
			for _, m := range []string{r.order, r.dup, r.lost} {
				if m != "" {
					msg = m
					break
				}
			}
		}
		if msg != "" {
			rt.Fatalf("%s\nstress case: %+v", msg, c)
		}
	})
}

func TestC01Stress(t *testing.T) { stressTest(t, "C01") }
func TestC02Stress(t *testing.T) { stressTest(t, "C02") }
