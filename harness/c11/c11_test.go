package c11

import (
	"encoding/json"
	"errors"
	"fmt"
	"os"
	"runtime"
	"sort"
	"strconv"
	"strings"
	"sync"
	"sync/atomic"
	"testing"
	"time"

	"github.com/anishathalye/porcupine"
	"github.com/jirenius/go-res/store"
	"github.com/jirenius/go-res/store/badgerstore"
	"github.com/jirenius/go-res/store/mockstore"
	"pgregory.net/rapid"

	"verifharness/internal/bdb"
	"verifharness/internal/evid"
)

const prop = "C11"

func TestMain(m *testing.M) { os.Exit(evid.Main(m)) }

var ev = evid.For(prop)

func init() {
	ev.SetRule("cases = (store configuration: badgerstore typed struct / untyped map, prefix set / empty, 0-2 BeforeChange vetoes, 1-2 OnChange callbacks; mockstore with / without NewID) x (sequential history of read and write transactions with Value, Exists, Create, Update, Delete, wrong-typed values, Close and double Close over a 4-id alphabet plus the empty id) checked step by step against a key-value map model incl. error identity and the exact OnChange log; and concurrent histories of 2-8 goroutines x 5-40 transactions on overlapping ids checked for linearizability per id with porcupine, for the per-id OnChange chain, and for transaction exclusion; a sequential case is non-trivial with >=1 failing operation and >=1 read inside a write transaction after a write; a concurrent one when >=2 goroutines wrote the same id successfully; distinct = hash of the case")
	ev.Assume("Value/Update/Delete/Exists on the empty id must fail (any error); only Create on the empty id has a specified outcome")
	ev.Assume("badgerstore values are compared through their JSON encoding")
}

type item struct {
	Name string   `json:"name"`
	N    int      `json:"n"`
	Opt  string   `json:"opt,omitempty"`  // absent from the stored JSON for most values
	Tags []string `json:"tags,omitempty"` // likewise
}

// Cfg is a store configuration.
type Cfg struct {
	Kind   string `json:"kind"` // badger-typed badger-map mock mock-newid
	Prefix string `json:"prefix"`
	Vetoes int    `json:"vetoes"` // number of BeforeChange callbacks (badger only); a value with N%7==3 is vetoed by exactly one of them
	OnChg  int    `json:"onchange"`
	// OnChgFirst: the OnChange listeners are registered before the BeforeChange ones.
	OnChgFirst bool `json:"onChgFirst,omitempty"`
	// Aggregate: (badger) the first OnChange listener keeps a record of its own up to date: it
	// writes to another id of the same store from inside the callback.
	Aggregate bool `json:"aggregate,omitempty"`
	// Late: the store has already been written to (a record created and deleted) when the
	// listeners are registered.
	Late bool `json:"late,omitempty"`
}

// Op is one operation of a history.
type Op struct {
	K  string `json:"k"` // read write value exists create update delete badtype close
	ID string `json:"id,omitempty"`
	N  int    `json:"n,omitempty"`
}

// Case is a sequential case.
type Case struct {
	Cfg Cfg  `json:"cfg"`
	Ops []Op `json:"ops"`
}

func (c Case) String() string { b, _ := json.Marshal(c); return string(b) }

type change struct {
	ID            string
	Before, After string
	G             uint64
	CB            int // index of the registered OnChange callback that logged it
}

type fixture struct {
	cfg     Cfg
	st      store.Store
	cleanup func()
	mu      sync.Mutex
	log     []change
	newIDs  int
	// seenViol: a change callback that looked the record up found something else than the
	// value it was told is the new one
	seenViol string
}

func gid() uint64 {
	b := make([]byte, 64)
	b = b[:runtime.Stack(b, false)]
	f := strings.Fields(string(b))
	n, _ := strconv.ParseUint(f[1], 10, 64)
	return n
}

func enc(v interface{}) string {
	if v == nil {
		return ""
	}
	b, _ := json.Marshal(v)
	return string(b)
}

func (f *fixture) value(n int) interface{} {
	switch f.cfg.Kind {
	case "badger-map":
		return map[string]interface{}{"name": "v" + strconv.Itoa(n), "n": n}
	default:
		it := item{Name: "v" + strconv.Itoa(n), N: n}
		if n%3 == 0 {
			it.Opt = "o" + strconv.Itoa(n)
		}
		if n%4 == 1 {
			it.Tags = []string{"t" + strconv.Itoa(n)}
		}
		return it
	}
}

type namedMap map[string]interface{}
type item2 item

// wrongType returns a value whose type is not the store's value type, including near
// misses (a named map type, an unnamed struct with the same fields, a pointer).
func (f *fixture) wrongType(n int) interface{} {
	if f.cfg.Kind == "badger-map" {
		switch n / 2 % 4 {
		case 0:
			return item{Name: "x"}
		case 1:
			return namedMap{"name": "x"}
		case 2:
			return &map[string]interface{}{"name": "x"}
		default:
			return map[string]string{"name": "x"}
		}
	}
	switch n / 2 % 5 {
	case 0:
		return map[string]interface{}{"name": "x"}
	case 1:
		return struct {
			Name string   `json:"name"`
			N    int      `json:"n"`
			Opt  string   `json:"opt,omitempty"`
			Tags []string `json:"tags,omitempty"`
		}{Name: "x"}
	case 2:
		return &item{Name: "x"}
	case 3:
		return item2{Name: "x"}
	default:
		return "x"
	}
}

func vetoed(after interface{}) bool {
	if after == nil {
		return false
	}
	var m struct{ N int }
	_ = json.Unmarshal([]byte(enc(after)), &m)
	return m.N%7 == 3
}

// vetoer tells which of the k registered BeforeChange callbacks raises the veto of a
// vetoed value (exactly one of them does; the others accept).
func vetoer(after interface{}, k int) int {
	var m struct{ N int }
	_ = json.Unmarshal([]byte(enc(after)), &m)
	return (m.N / 7) % k
}

func newFixture(cfg Cfg) (*fixture, error) {
	f := &fixture{cfg: cfg}
	onChangeN := func(cb int) func(id string, before, after interface{}) {
		return func(id string, before, after interface{}) {
			if id == "aggregate-record" {
				return // the listener's own record (see Cfg.Aggregate)
			}
			seen := ""
			if bs, ok := f.st.(*badgerstore.Store); ok && cb == 0 {
				// a listener may look at the store (Get takes no key lock): the mutation it is
				// told about is what the store holds
				if v, err := bs.Get(id); err == nil {
					seen = enc(v)
				} else if !errors.Is(err, store.ErrNotFound) {
					seen = "error: " + err.Error()
				}
			} else {
				seen = enc(after)
			}
			if bs, ok := f.st.(*badgerstore.Store); ok && cb == 0 && f.cfg.Aggregate && id != "aggregate-record" {
				tx := bs.Write("aggregate-record")
				if tx.Create(f.value(0)) != nil {
					_ = tx.Update(f.value(14))
				}
				_ = tx.Close()
			}
			f.mu.Lock()
			if seen != enc(after) && f.seenViol == "" {
				f.seenViol = fmt.Sprintf("the change callback for id %q was given the new value %s, a Get of the id made inside the callback returns %q", id, enc(after), seen)
			}
			f.log = append(f.log, change{ID: id, Before: enc(before), After: enc(after), G: gid(), CB: cb})
			f.mu.Unlock()
		}
	}
	switch cfg.Kind {
	case "badger-typed", "badger-map":
		db, _, cleanup, err := bdb.OpenTemp("c11")
		if err != nil {
			return nil, err
		}
		f.cleanup = cleanup
		st := badgerstore.NewStore(db)
		if cfg.Kind == "badger-typed" {
			st.SetType(item{})
		}
		st.SetPrefix(cfg.Prefix)
		f.st = st
		if cfg.Late {
			tx := st.Write("warm-up")
			err := tx.Create(f.value(1))
			if err == nil {
				err = tx.Delete()
			}
			_ = tx.Close()
			if err != nil {
				cleanup()
				return nil, fmt.Errorf("VERIF-INCONCLUSIVE: warm-up write: %v", err)
			}
		}
		if cfg.OnChgFirst {
			for i := 0; i < cfg.OnChg; i++ {
				st.OnChange(onChangeN(i))
			}
		}
		for i := 0; i < cfg.Vetoes; i++ {
			i := i
			st.BeforeChange(func(id string, before, after interface{}) error {
				if vetoed(after) && vetoer(after, cfg.Vetoes) == i {
					return errors.New("vetoed")
				}
				return nil
			})
		}
		for i := 0; i < cfg.OnChg && !cfg.OnChgFirst; i++ {
			st.OnChange(onChangeN(i))
		}
		f.st = st
	default:
		st := mockstore.NewStore()
		if cfg.Kind == "mock-newid" {
			st.NewID = func() string {
				f.mu.Lock()
				defer f.mu.Unlock()
				f.newIDs++
				return "gen" + strconv.Itoa(f.newIDs)
			}
		}
		for i := 0; i < cfg.OnChg; i++ {
			st.OnChange(onChangeN(i))
		}
		f.st = st
		f.cleanup = func() {}
	}
	return f, nil
}

func (f *fixture) badger() bool { return strings.HasPrefix(f.cfg.Kind, "badger") }

// runSequential runs a sequential history against the model.
func runSequential(c Case) (msg string, failing int, readAfterWrite bool) {
	f, err := newFixture(c.Cfg)
	if err != nil {
		return "VERIF-INCONCLUSIVE: " + err.Error(), 0, false
	}
	defer f.cleanup()
	model := map[string]string{}
	var rtx store.ReadTxn
	var wtx store.WriteTxn
	txID := ""
	write := false
	wroteInTxn := false
	closed := false
	me := gid()
	closeTxn := func() string {
		if rtx == nil {
			return ""
		}
		if !closed {
			if err := rtx.Close(); err != nil {
				return fmt.Sprintf("first Close of a transaction on %q returned %v", txID, err)
			}
		}
		rtx, wtx, closed = nil, nil, false
		return ""
	}
	for i, op := range c.Ops {
		where := fmt.Sprintf("op %d %v", i, op)
		logBefore := len(f.log)
		expectLog := func(id, before, after string) string {
			got := f.log[logBefore:]
			if before == "" && after == "" {
				if len(got) != 0 {
					return fmt.Sprintf("%s: a failed or read operation ran the change callbacks: %v", where, got)
				}
				return ""
			}
			if len(got) != c.Cfg.OnChg {
				return fmt.Sprintf("%s: change callbacks ran %d times, expected once per registered callback (%d)", where, len(got), c.Cfg.OnChg)
			}
			for _, g := range got {
				if g.ID != id || g.Before != before || g.After != after {
					return fmt.Sprintf("%s: change callback got (id %q, before %s, after %s), expected (%q, %s, %s)", where, g.ID, g.Before, g.After, id, before, after)
				}
				if g.G != me {
					return fmt.Sprintf("%s: change callback ran on goroutine %d, the caller is goroutine %d", where, g.G, me)
				}
			}
			return ""
		}
		switch op.K {
		case "read", "write":
			if m := closeTxn(); m != "" {
				return m, failing, readAfterWrite
			}
			txID, write, wroteInTxn = op.ID, op.K == "write", false
			if write {
				wtx = f.st.Write(op.ID)
				rtx = wtx
			} else {
				rtx = f.st.Read(op.ID)
			}
			if rtx.ID() != op.ID {
				return fmt.Sprintf("%s: txn.ID()=%q", where, rtx.ID()), failing, readAfterWrite
			}
		case "close":
			if rtx == nil {
				continue
			}
			err := rtx.Close()
			if closed && err == nil {
				return fmt.Sprintf("%s: second Close returned nil, the contract says an error", where), failing, readAfterWrite
			}
			if !closed && err != nil {
				return fmt.Sprintf("%s: first Close returned %v", where, err), failing, readAfterWrite
			}
			closed = true
		default:
			if rtx == nil || closed {
				continue
			}
			cur, exists := model[txID]
			switch op.K {
			case "value":
				v, err := rtx.Value()
				if wroteInTxn {
					readAfterWrite = true
				}
				if exists {
					if err != nil || enc(v) != cur {
						return fmt.Sprintf("%s: Value()=(%s,%v), the model holds %s (reads inside a write transaction must see its writes)", where, enc(v), err, cur), failing, readAfterWrite
					}
				} else {
					failing++
					if err == nil {
						return fmt.Sprintf("%s: Value() of missing id %q returned %s without error", where, txID, enc(v)), failing, readAfterWrite
					}
					if txID != "" && !errors.Is(err, store.ErrNotFound) {
						return fmt.Sprintf("%s: Value() of missing id %q returned %v, expected the not-found error", where, txID, err), failing, readAfterWrite
					}
				}
			case "exists":
				if wroteInTxn {
					readAfterWrite = true
				}
				if got := rtx.Exists(); got != exists {
					return fmt.Sprintf("%s: Exists()=%v, the model says %v", where, got, exists), failing, readAfterWrite
				}
			case "create", "update", "delete", "badtype":
				if !write {
					continue
				}
				var err error
				v := f.value(op.N)
				switch op.K {
				case "create":
					err = wtx.Create(v)
					wantFail := exists || (txID == "" && c.Cfg.Kind != "mock-newid") || (f.badger() && c.Cfg.Vetoes > 0 && vetoed(v))
					if txID == "" && c.Cfg.Kind == "mock-newid" {
						// the store generates an id
						if err != nil {
							return fmt.Sprintf("%s: Create on the empty id with an id-generating store failed: %v", where, err), failing, readAfterWrite
						}
						nid := wtx.ID()
						if nid == "" {
							return fmt.Sprintf("%s: after Create on the empty id, ID() is still empty", where), failing, readAfterWrite
						}
						model[nid] = enc(v)
						if m := expectLog(nid, "", enc(v)); m != "" {
							return m, failing, readAfterWrite
						}
						txID = nid
						wroteInTxn = true
						continue
					}
					if wantFail {
						failing++
						if err == nil {
							return fmt.Sprintf("%s: Create succeeded (id %q exists=%v), expected failure", where, txID, exists), failing, readAfterWrite
						}
						if exists && !errors.Is(err, store.ErrDuplicate) {
							return fmt.Sprintf("%s: Create on existing id %q returned %q, expected the duplicate error (errors.Is(err, store.ErrDuplicate))", where, txID, err), failing, readAfterWrite
						}
						if m := expectLog("", "", ""); m != "" {
							return m, failing, readAfterWrite
						}
					} else {
						if err != nil {
							return fmt.Sprintf("%s: Create failed: %v", where, err), failing, readAfterWrite
						}
						model[txID] = enc(v)
						wroteInTxn = true
						if m := expectLog(txID, "", enc(v)); m != "" {
							return m, failing, readAfterWrite
						}
					}
				case "update":
					err = wtx.Update(v)
					veto := f.badger() && c.Cfg.Vetoes > 0 && vetoed(v)
					if !exists || veto {
						failing++
						if err == nil {
							return fmt.Sprintf("%s: Update succeeded, expected failure (exists=%v veto=%v)", where, exists, veto), failing, readAfterWrite
						}
						if !exists && txID != "" && !errors.Is(err, store.ErrNotFound) {
							return fmt.Sprintf("%s: Update of missing id returned %v, expected the not-found error", where, err), failing, readAfterWrite
						}
						if m := expectLog("", "", ""); m != "" {
							return m, failing, readAfterWrite
						}
					} else {
						if err != nil {
							return fmt.Sprintf("%s: Update failed: %v", where, err), failing, readAfterWrite
						}
						model[txID] = enc(v)
						wroteInTxn = true
						if m := expectLog(txID, cur, enc(v)); m != "" {
							return m, failing, readAfterWrite
						}
					}
				case "delete":
					err = wtx.Delete()
					if !exists {
						failing++
						if err == nil {
							return fmt.Sprintf("%s: Delete of missing id succeeded", where), failing, readAfterWrite
						}
						if txID != "" && !errors.Is(err, store.ErrNotFound) {
							return fmt.Sprintf("%s: Delete of missing id returned %v, expected the not-found error", where, err), failing, readAfterWrite
						}
						if m := expectLog("", "", ""); m != "" {
							return m, failing, readAfterWrite
						}
					} else {
						if err != nil {
							return fmt.Sprintf("%s: Delete failed: %v", where, err), failing, readAfterWrite
						}
						delete(model, txID)
						wroteInTxn = true
						if m := expectLog(txID, cur, ""); m != "" {
							return m, failing, readAfterWrite
						}
					}
				case "badtype":
					if !f.badger() {
						continue // mockstore is untyped
					}
					failing++
					if op.N%2 == 0 {
						err = wtx.Create(f.wrongType(op.N))
					} else {
						err = wtx.Update(f.wrongType(op.N))
					}
					if err == nil {
						return fmt.Sprintf("%s: a value of the wrong type was accepted", where), failing, readAfterWrite
					}
					if m := expectLog("", "", ""); m != "" {
						return m, failing, readAfterWrite
					}
				}
			}
		}
	}
	if m := closeTxn(); m != "" {
		return m, failing, readAfterWrite
	}
	// final scan: the store holds exactly the model
	ids := []string{"a", "b", "book.42", "long-identifier"}
	for i := 1; i <= f.newIDs; i++ {
		ids = append(ids, "gen"+strconv.Itoa(i))
	}
	for _, id := range ids {
		tx := f.st.Read(id)
		v, err := tx.Value()
		_ = tx.Close()
		want, ok := model[id]
		if ok && (err != nil || enc(v) != want) {
			return fmt.Sprintf("final scan: id %q holds (%s,%v), the model %s", id, enc(v), err, want), failing, readAfterWrite
		}
		if !ok && err == nil {
			return fmt.Sprintf("final scan: id %q holds %s, the model has no such id", id, enc(v)), failing, readAfterWrite
		}
	}
	if f.seenViol != "" {
		return f.seenViol, failing, readAfterWrite
	}
	return "", failing, readAfterWrite
}

func genCfg() *rapid.Generator[Cfg] {
	return rapid.Custom(func(t *rapid.T) Cfg {
		c := Cfg{Kind: rapid.SampledFrom([]string{"badger-typed", "badger-map", "badger-typed", "mock", "mock-newid"}).Draw(t, "kind")}
		c.Prefix = rapid.SampledFrom([]string{"", "pfx", "a.b"}).Draw(t, "prefix")
		c.Vetoes = rapid.IntRange(0, 3).Draw(t, "vetoes")
		c.OnChg = rapid.SampledFrom([]int{1, 1, 2, 0}).Draw(t, "onchange")
		c.OnChgFirst = rapid.Bool().Draw(t, "onChgFirst")
		c.Late = rapid.IntRange(0, 2).Draw(t, "late") == 0
		c.Aggregate = rapid.IntRange(0, 3).Draw(t, "aggregate") == 0
		return c
	})
}

func genCase() *rapid.Generator[Case] {
	return rapid.Custom(func(t *rapid.T) Case {
		c := Case{Cfg: genCfg().Draw(t, "cfg")}
		n := rapid.IntRange(1, 30).Draw(t, "nops")
		for i := 0; i < n; i++ {
			k := rapid.SampledFrom([]string{"write", "write", "read", "value", "value", "exists", "create", "create", "update", "update", "delete", "badtype", "close"}).Draw(t, "k")
			op := Op{K: k}
			switch k {
			case "read", "write":
				op.ID = rapid.SampledFrom([]string{"a", "a", "b", "book.42", "long-identifier", ""}).Draw(t, "id")
			case "create", "update", "badtype":
				op.N = rapid.IntRange(0, 20).Draw(t, "n")
			}
			c.Ops = append(c.Ops, op)
		}
		return c
	})
}

// watch runs f and gives up after a minute of real time (a case takes milliseconds): if a
// goroutine is then waiting for a mutex inside the store package, that is reported as a
// deadlock; otherwise the run is inconclusive.
func watch(f func()) string {
	done := make(chan struct{})
	go func() { defer close(done); f() }()
	select {
	case <-done:
		return ""
	case <-time.After(time.Minute):
	}
	buf := make([]byte, 1<<20)
	dump := string(buf[:runtime.Stack(buf, true)])
	for _, g := range strings.Split(dump, "\n\n") {
		if (strings.Contains(g, "sync.(*Mutex).Lock") || strings.Contains(g, "sync.(*RWMutex).")) && strings.Contains(g, "go-res/store/") {
			return "the history did not finish within a minute of real time: a goroutine is waiting for a mutex inside the store (deadlock), e.g. a change listener that uses the store"
		}
	}
	return "VERIF-INCONCLUSIVE: the history did not finish within a minute of real time"
}

func TestPropSequential(t *testing.T) {
	rapid.Check(t, func(rt *rapid.T) {
		c := genCase().Draw(rt, "case")
		var msg string
		var failing int
		var raw bool
		if w := watch(func() { msg, failing, raw = runSequential(c) }); w != "" {
			rt.Fatalf("%s\ncase: %s", w, c)
		}
		ev.Case(failing > 0 && raw, evid.Hash(c.String()), "sequential", "store-"+c.Cfg.Kind)
		if msg != "" {
			rt.Fatalf("%s\ncase: %s", msg, c)
		}
		if failing > 0 && raw {
			ev.Sample("sequential", 3, func() interface{} { return c })
		}
	})
}

// ---- concurrent histories -------------------------------------------------------

// COp is one whole transaction in a concurrent history.
type COp struct {
	K  string `json:"k"` // create update delete value exists multi
	ID string `json:"id"`
	N  int    `json:"n"`
}

type cInput struct {
	K string
	V string
	// Veto: a BeforeChange listener refuses this value (create/update then fail and change
	// nothing, unless they fail earlier because of the record's existence).
	Veto bool
}
type cOutput struct {
	OK  bool
	Err string // "" dup notfound other
	V   string
	B   bool
}

var regModel = porcupine.Model{
	Init: func() interface{} { return "" },
	Step: func(state, input, output interface{}) (bool, interface{}) {
		st := state.(string)
		in := input.(cInput)
		out := output.(cOutput)
		switch in.K {
		case "create":
			if st != "" {
				return !out.OK && out.Err == "dup", st
			}
			if in.Veto {
				return !out.OK && out.Err == "other", st
			}
			return out.OK, in.V
		case "update":
			if st == "" {
				return !out.OK && out.Err == "notfound", st
			}
			if in.Veto {
				return !out.OK && out.Err == "other", st
			}
			return out.OK, in.V
		case "delete":
			if st == "" {
				return !out.OK && out.Err == "notfound", st
			}
			return out.OK, ""
		case "value":
			if st == "" {
				return !out.OK && out.Err == "notfound", st
			}
			return out.OK && out.V == st, st
		case "exists":
			return out.B == (st != ""), st
		}
		return false, st
	},
	Equal: func(a, b interface{}) bool { return a == b },
}

func classify(err error) string {
	switch {
	case err == nil:
		return ""
	case errors.Is(err, store.ErrDuplicate):
		return "dup"
	case errors.Is(err, store.ErrNotFound):
		return "notfound"
	}
	return "other"
}

type interval struct {
	id         string
	write      bool
	start, end int64
	in         cInput
	out        cOutput
	g          int
}

// runConcurrent runs goroutines x transactions and checks the three oracles.
func runConcurrent(cfg Cfg, progs [][]COp) (msg string, contended bool) {
	f, err := newFixture(cfg)
	if err != nil {
		return "VERIF-INCONCLUSIVE: " + err.Error(), false
	}
	defer f.cleanup()
	var clock int64
	var mu sync.Mutex
	ops := map[string][]porcupine.Operation{}
	var ivs []interval
	okWriters := map[string]map[int]bool{}
	var wg sync.WaitGroup
	for g, prog := range progs {
		wg.Add(1)
		go func(g int, prog []COp) {
			defer wg.Done()
			for _, op := range prog {
				v := f.value(op.N + g*1000)
				in := cInput{K: op.K, V: enc(v), Veto: cfg.Vetoes > 0 && f.badger() && vetoed(v) && (op.K == "create" || op.K == "update")}
				var out cOutput
				call := atomic.AddInt64(&clock, 1)
				var acquired, released int64
				switch op.K {
				case "value", "exists":
					tx := f.st.Read(op.ID)
					acquired = atomic.AddInt64(&clock, 1)
					if op.K == "value" {
						val, err := tx.Value()
						out = cOutput{OK: err == nil, Err: classify(err), V: enc(val)}
					} else {
						out = cOutput{OK: true, B: tx.Exists()}
					}
					released = atomic.AddInt64(&clock, 1)
					_ = tx.Close()
				default:
					tx := f.st.Write(op.ID)
					acquired = atomic.AddInt64(&clock, 1)
					var err error
					switch op.K {
					case "create":
						err = tx.Create(v)
					case "update":
						err = tx.Update(v)
					case "delete":
						err = tx.Delete()
					}
					out = cOutput{OK: err == nil, Err: classify(err)}
					if op.N%3 == 0 || (err != nil && in.Veto) {
						// (after a refused operation the transaction stays open for a while)
						runtime.Gosched()
						runtime.Gosched()
						runtime.Gosched()
					}
					released = atomic.AddInt64(&clock, 1)
					_ = tx.Close()
				}
				ret := atomic.AddInt64(&clock, 1)
				mu.Lock()
				ops[op.ID] = append(ops[op.ID], porcupine.Operation{ClientId: g, Input: in, Call: call, Output: out, Return: ret})
				ivs = append(ivs, interval{id: op.ID, write: op.K != "value" && op.K != "exists", start: acquired, end: released, in: in, out: out, g: g})
				if out.OK && (op.K == "create" || op.K == "update" || op.K == "delete") {
					if okWriters[op.ID] == nil {
						okWriters[op.ID] = map[int]bool{}
					}
					okWriters[op.ID][g] = true
				}
				mu.Unlock()
			}
		}(g, prog)
	}
	wg.Wait()
	for _, w := range okWriters {
		if len(w) >= 2 {
			contended = true
		}
	}
	if f.seenViol != "" {
		return f.seenViol, contended
	}
	// (1) linearizability per id
	ids := make([]string, 0, len(ops))
	for id := range ops {
		ids = append(ids, id)
	}
	sort.Strings(ids)
	for _, id := range ids {
		if !porcupine.CheckOperations(regModel, ops[id]) {
			return fmt.Sprintf("history on id %q is not linearizable as a key-value register: %v", id, ops[id]), contended
		}
	}
	// (2) callback chain per id (first OnChange callback's log only)
	per := map[string][]change{}
	f.mu.Lock()
	for _, c := range f.log {
		if c.CB != 0 {
			continue
		}
		per[c.ID] = append(per[c.ID], c)
	}
	f.mu.Unlock()
	for _, id := range ids {
		last := ""
		for i, c := range per[id] {
			if c.Before != last {
				return fmt.Sprintf("id %q: change callback %d reports before=%s, but the previous callback's after was %s (per-id callback log is not a chain)", id, i, c.Before, last), contended
			}
			last = c.After
		}
		tx := f.st.Read(id)
		v, err := tx.Value()
		_ = tx.Close()
		final := ""
		if err == nil {
			final = enc(v)
		}
		if cfg.OnChg > 0 && final != last {
			return fmt.Sprintf("id %q: store finally holds %q, the last change callback reported %q", id, final, last), contended
		}
	}
	// (3) exclusion: a write interval never overlaps another interval on the same id
	for i, a := range ivs {
		for j, b := range ivs {
			if i >= j || a.id != b.id || !(a.write || b.write) {
				continue
			}
			if a.start < b.end && b.start < a.end {
				if cfg.Kind == "mock" || cfg.Kind == "mock-newid" || a.id == b.id {
					return fmt.Sprintf("transactions on id %q overlap: [%d,%d] write=%v and [%d,%d] write=%v", a.id, a.start, a.end, a.write, b.start, b.end, b.write), contended
				}
			}
		}
	}
	// (4) the transactions of an id, in the order in which they held its lock, are a run of the
	// key-value register: a reader that had to wait for a writer sees what the writer wrote
	sort.SliceStable(ivs, func(i, j int) bool { return ivs[i].start < ivs[j].start })
	state := map[string]interface{}{}
	for _, iv := range ivs {
		st, ok := state[iv.id]
		if !ok {
			st = regModel.Init()
		}
		legal, next := regModel.Step(st, iv.in, iv.out)
		if !legal {
			return fmt.Sprintf("id %q: goroutine %d's %s (value %s) returned %+v while it held the lock (interval [%d,%d]); the transactions that held the lock before it left the value %q", iv.id, iv.g, iv.in.K, iv.in.V, iv.out, iv.start, iv.end, st), contended
		}
		state[iv.id] = next
	}
	return "", contended
}

func TestPropConcurrent(t *testing.T) {
	rapid.Check(t, func(rt *rapid.T) {
		cfg := genCfg().Draw(rt, "cfg")
		if cfg.Kind == "mock-newid" {
			cfg.Kind = "mock"
		}
		ng := rapid.IntRange(2, 8).Draw(rt, "goroutines")
		progs := make([][]COp, ng)
		for g := range progs {
			n := rapid.IntRange(5, 40).Draw(rt, "nops")
			for i := 0; i < n; i++ {
				progs[g] = append(progs[g], COp{
					K:  rapid.SampledFrom([]string{"create", "update", "update", "delete", "value", "exists"}).Draw(rt, "k"),
					ID: rapid.SampledFrom([]string{"a", "a", "b", "c"}).Draw(rt, "id"),
					N:  rapid.IntRange(0, 50).Draw(rt, "n"),
				})
			}
		}
		var msg string
		var contended bool
		if w := watch(func() { msg, contended = runConcurrent(cfg, progs) }); w != "" {
			rt.Fatalf("%s\ncfg: %+v", w, cfg)
		}
		b, _ := json.Marshal(progs)
		ev.Case(contended, evid.Hash(cfg, string(b)), "concurrent", "store-"+cfg.Kind)
		if msg != "" {
			rt.Fatalf("%s\ncfg: %+v", msg, cfg)
		}
	})
}

// ---- regression tier -------------------------------------------------------------

func regress(t *testing.T, key string, c Case) {
	msg, _, _ := runSequential(c)
	evid.ReportKnown(t, prop, key, msg != "", msg, c)
	ev.Case(true, evid.Hash("regress", key), "regress")
}

func TestRegressBadgerDuplicateError(t *testing.T) {
	regress(t, "C11-badger-duplicate-error", Case{Cfg: Cfg{Kind: "badger-typed", OnChg: 1}, Ops: []Op{{K: "write", ID: "a"}, {K: "create", N: 1}, {K: "create", N: 2}}})
}

func TestRegressBadgerCreateEmptyID(t *testing.T) {
	regress(t, "C11-badger-create-empty-id", Case{Cfg: Cfg{Kind: "badger-typed", Prefix: "pfx", OnChg: 1}, Ops: []Op{{K: "write", ID: ""}, {K: "create", N: 1}}})
}

func TestRegressMockGeneratedID(t *testing.T) {
	regress(t, "C11-mock-generated-id-lost", Case{Cfg: Cfg{Kind: "mock-newid", OnChg: 1}, Ops: []Op{{K: "write", ID: ""}, {K: "create", N: 1}, {K: "value"}, {K: "update", N: 2}, {K: "value"}}})
}
