package c10

import (
	"encoding/json"
	"fmt"
	"runtime"
	"strconv"
	"strings"
	"sync"
	"sync/atomic"
	"testing"

	res "github.com/jirenius/go-res"
	"github.com/jirenius/go-res/store/badgerstore"
	"pgregory.net/rapid"

	"verifharness/internal/evid"
)

func parseGet(resp []byte) (string, error) {
	var p struct {
		Result *struct{ Model, Collection json.RawMessage }
		Error  *res.Error
	}
	_ = json.Unmarshal(resp, &p)
	switch {
	case p.Error != nil && p.Error.Code == res.CodeNotFound:
		return "", nil
	case p.Error != nil:
		return "", fmt.Errorf("%s", resp)
	case p.Result != nil && p.Result.Model != nil:
		return canon(p.Result.Model), nil
	case p.Result != nil && p.Result.Collection != nil:
		return canon(p.Result.Collection), nil
	}
	return "", fmt.Errorf("%s", resp)
}

// runConcurrentGets performs the mutations (one transaction each) while another
// goroutine keeps sending get requests. Every get response is a fetch "before an
// arbitrary sequence of mutations": the value it carries plus the events published
// after it on the connection must add up to the final representation.
func runConcurrentGets(c Case) (msg string, nontrivial bool) {
	f, err := newFixture(c.Cfg)
	if err != nil {
		return verdict(err), false
	}
	defer f.cleanup()
	ridFor := func(id string) string {
		if c.Cfg.Trans == "custom" {
			return ridBase(c.Cfg) + "x" + id + ".y"
		}
		return ridBase(c.Cfg) + id
	}
	var rids []string
	seen := map[string]bool{}
	for _, m := range c.Muts {
		if !seen[m.ID] {
			seen[m.ID] = true
			rids = append(rids, ridFor(m.ID))
		}
	}
	type getReq struct{ reply, rid string }
	var gets []getReq
	var gmu sync.Mutex
	stop := make(chan struct{})
	var wg sync.WaitGroup
	wg.Add(1)
	go func() {
		defer wg.Done()
		for k := 0; k < 400; k++ {
			select {
			case <-stop:
				return
			default:
			}
			rid := rids[k%len(rids)]
			reply, n := f.rn.Send("get."+rid, nil)
			if n == 1 {
				gmu.Lock()
				gets = append(gets, getReq{reply, rid})
				gmu.Unlock()
			}
			if k%4 == 3 {
				runtime.Gosched()
			}
		}
	}()
	type step struct {
		from, to int
		after    string
		rid      string
	}
	var steps []step
	model := map[string]string{}
	for i, m := range c.Muts {
		if m.K == "init" || m.K == "createnew" {
			m.K = "create" // (Init seeding and generated ids are exercised by the sequential test)
		}
		_, existed := model[m.ID]
		from := f.conn.LogLen()
		tx := f.st.Write(storeID(f.cfg, m.ID))
		err := f.mutate(tx, m)
		_ = tx.Close()
		to := f.conn.LogLen()
		if okWanted := (m.K == "create") != existed; (err == nil) != okWanted {
			close(stop)
			wg.Wait()
			return fmt.Sprintf("mutation %d %+v: error %v with exists=%v (store contract)", i, m, err, existed), false
		}
		if err != nil {
			continue
		}
		if m.K == "delete" {
			delete(model, m.ID)
		} else {
			model[m.ID] = m.V
		}
		t, ex := model[m.ID]
		steps = append(steps, step{from, to, served(c.Cfg, t, ex), ridFor(m.ID)})
		if i%2 == 1 {
			runtime.Gosched()
		}
	}
	close(stop)
	wg.Wait()
	for _, g := range gets {
		if err := f.rn.WaitDone(g.reply, 1); err != nil {
			return err.Error(), false
		}
	}
	log := f.conn.Log()
	final := map[string]string{}
	for _, rid := range rids {
		v, err := f.get(rid)
		if err != nil {
			return verdict(err), false
		}
		final[rid] = v
	}
	afterOf := func(seq int, rid string) string {
		for _, s := range steps {
			if s.rid == rid && seq >= s.from && seq < s.to {
				return s.after
			}
		}
		return final[rid]
	}
	respSeq := map[string]int{}
	respData := map[string][]byte{}
	for _, e := range log {
		if e.Kind == "pub" && strings.HasPrefix(e.Subject, "_INBOX.reply.") {
			respSeq[e.Subject] = e.Seq
			respData[e.Subject] = e.Data
		}
	}
	for _, g := range gets {
		p, ok := respSeq[g.reply]
		if !ok {
			return fmt.Sprintf("get %s was not answered", g.rid), nontrivial
		}
		v, err := parseGet(respData[g.reply])
		if err != nil {
			return fmt.Sprintf("get %s answered %v", g.rid, err), nontrivial
		}
		cl := client{g.rid: v}
		nAfter, nBefore := 0, 0
		for _, e := range log {
			if e.Kind != "pub" || !strings.HasPrefix(e.Subject, "event."+g.rid+".") {
				continue
			}
			if e.Seq < p {
				nBefore++
				continue
			}
			nAfter++
			name := e.Subject[strings.LastIndexByte(e.Subject, '.')+1:]
			after := afterOf(e.Seq, g.rid)
			if m := cl.apply(g.rid, name, e.Data, func() (string, error) { return after, nil }); m != "" {
				return fmt.Sprintf("get %s answered %q at connection position %d; applying the %d-th later event: %s", g.rid, v, p, nAfter, m), true
			}
		}
		if nAfter > 0 && nBefore > 0 {
			nontrivial = true
		}
		if cl[g.rid] != final[g.rid] {
			return fmt.Sprintf("get %s answered %q at connection position %d (after %d events, before %d); that value plus the later events gives %q, a fresh get returns %q", g.rid, v, p, nBefore, nAfter, cl[g.rid], final[g.rid]), true
		}
	}
	return "", nontrivial
}

// TestPropConcurrentGets: gets racing with store mutations.
func TestPropConcurrentGets(t *testing.T) {
	rapid.Check(t, func(rt *rapid.T) {
		kind := rapid.SampledFrom([]string{"mock", "mock", "badger"}).Draw(rt, "store")
		c := genCase(kind).Draw(rt, "case")
		extra := rapid.IntRange(0, 30).Draw(rt, "extra")
		for i := 0; i < extra; i++ {
			c.Muts = append(c.Muts, c.Muts[rapid.IntRange(0, len(c.Muts)-1).Draw(rt, "again")])
		}
		msg, nt := runConcurrentGets(c)
		ev.Case(nt, evid.Hash("concurrent", c.String()), "concurrent-gets-"+kind)
		if msg != "" {
			rt.Fatalf("%s\ncase: %s", msg, c)
		}
	})
}

// runConcurrentWriters: several goroutines mutate different ids of one store at the same
// time (every id belongs to one goroutine, so its mutation order is known). For every
// resource the events published for it, applied in order to an empty client, must add up to
// what a fresh get returns at the end.
func runConcurrentWriters(c Case, writers int) (msg string, nontrivial bool) {
	f, err := newFixture(c.Cfg)
	if err != nil {
		return verdict(err), false
	}
	defer f.cleanup()
	ridFor := func(id string) string {
		if c.Cfg.Trans == "custom" {
			return ridBase(c.Cfg) + "x" + id + ".y"
		}
		return ridBase(c.Cfg) + id
	}
	var ids []string
	owner := map[string]int{}
	for _, m := range c.Muts {
		if _, ok := owner[m.ID]; !ok {
			owner[m.ID] = len(ids) % writers
			ids = append(ids, m.ID)
		}
	}
	created := map[string][]string{} // rid -> served value after each mutation that makes the resource appear
	finalWant := map[string]string{}
	var mu sync.Mutex
	var wg sync.WaitGroup
	errs := make([]string, writers)
	for w := 0; w < writers; w++ {
		wg.Add(1)
		go func(w int) {
			defer wg.Done()
			model := map[string]string{}
			for i, m := range c.Muts {
				if owner[m.ID] != w {
					continue
				}
				if m.K == "init" || m.K == "createnew" {
					m.K = "create"
				}
				prev, existed := model[m.ID]
				tx := f.st.Write(storeID(f.cfg, m.ID))
				err := f.mutate(tx, m)
				_ = tx.Close()
				if okWanted := (m.K == "create") != existed; (err == nil) != okWanted {
					errs[w] = fmt.Sprintf("mutation %d %+v: error %v with exists=%v (store contract)", i, m, err, existed)
					return
				}
				if err != nil {
					continue
				}
				if m.K == "delete" {
					delete(model, m.ID)
				} else {
					model[m.ID] = m.V
				}
				t, ex := model[m.ID]
				sBefore, sAfter := served(c.Cfg, prev, existed), served(c.Cfg, t, ex)
				mu.Lock()
				if sBefore == "" && sAfter != "" {
					created[ridFor(m.ID)] = append(created[ridFor(m.ID)], sAfter)
				}
				finalWant[ridFor(m.ID)] = sAfter
				mu.Unlock()
				if i%3 == 1 {
					runtime.Gosched()
				}
			}
		}(w)
	}
	wg.Wait()
	for _, e := range errs {
		if e != "" {
			return e, false
		}
	}
	log := f.conn.Log()
	busy := 0
	for _, id := range ids {
		rid := ridFor(id)
		cl := client{rid: served(c.Cfg, "", false)}
		n := 0
		for _, e := range log {
			if e.Kind != "pub" || !strings.HasPrefix(e.Subject, "event."+rid+".") {
				continue
			}
			n++
			name := e.Subject[strings.LastIndexByte(e.Subject, '.')+1:]
			refetch := func() (string, error) {
				q := created[rid]
				if len(q) == 0 {
					return "", fmt.Errorf("a create event that no mutation accounts for")
				}
				created[rid] = q[1:]
				return q[0], nil
			}
			if m := cl.apply(rid, name, e.Data, refetch); m != "" {
				return fmt.Sprintf("%d writers on different ids: event %d of %s (%s %s): %s", writers, n, rid, e.Subject, e.Data, m), true
			}
		}
		if n > 2 {
			busy++
		}
		fresh, err := f.get(rid)
		if err != nil {
			return verdict(err), false
		}
		if want, ok := finalWant[rid]; ok && fresh != want {
			return fmt.Sprintf("%d writers on different ids: a get of %s returns %q, its mutations leave %q", writers, rid, fresh, want), true
		}
		if cl[rid] != fresh {
			return fmt.Sprintf("%d writers on different ids: the %d events published for %s add up to %q, a fresh get returns %q", writers, n, rid, cl[rid], fresh), true
		}
	}
	return "", busy >= 2
}

// TestPropConcurrentWriters: writers on different ids of a per-id locking store (badger).
func TestPropConcurrentWriters(t *testing.T) {
	rapid.Check(t, func(rt *rapid.T) {
		c := genCase("badger").Draw(rt, "case")
		extra := rapid.IntRange(10, 60).Draw(rt, "extra")
		for i := 0; i < extra; i++ {
			c.Muts = append(c.Muts, c.Muts[rapid.IntRange(0, len(c.Muts)-1).Draw(rt, "again")])
		}
		writers := rapid.IntRange(2, 4).Draw(rt, "writers")
		if c.Cfg.Type == "collection" && rapid.Bool().Draw(rt, "longdiffs") {
			// every id goes through a series of long collections that differ in many places:
			// several long diffs are being computed at the same time
			c.Muts = nil
			for _, id := range []string{"1", "2", "3", "4"} {
				c.Muts = append(c.Muts, Mut{K: "create", ID: id, V: "[]"})
			}
			n := rapid.IntRange(20, 60).Draw(rt, "nlong")
			for i := 0; i < n; i++ {
				k := rapid.IntRange(40, 70).Draw(rt, "len")
				rot := rapid.IntRange(0, 9).Draw(rt, "rot")
				parts := []string{`"head"`}
				for j := 0; j < k; j++ {
					parts = append(parts, strconv.Itoa((j*7+rot*3+i)%10))
				}
				parts = append(parts, `"tail"`)
				c.Muts = append(c.Muts, Mut{K: "update", ID: []string{"1", "2", "3", "4"}[i%4], V: "[" + strings.Join(parts, ",") + "]"})
			}
		}
		msg, nt := runConcurrentWriters(c, writers)
		ev.Case(nt, evid.Hash("concurrent-writers", c.String(), writers), "concurrent-writers")
		if msg != "" {
			rt.Fatalf("%s\ncase: %s", msg, c)
		}
	})
}

// TestPropFailedCommit: a Create / Update / Delete whose database transaction fails at commit
// time (a writer outside the store's key lock - a second Store value on the same database -
// writes the key between the operation's read and its commit). The operation returns an
// error, so it never happened: nothing may be published for it.
func TestPropFailedCommit(t *testing.T) {
	rapid.Check(t, func(rt *rapid.T) {
		c := genCase("badger").Draw(rt, "case")
		f, err := newFixture(c.Cfg)
		if err != nil {
			rt.Fatalf("VERIF-INCONCLUSIVE: %v", err)
		}
		defer f.cleanup()
		bst := f.st.(*badgerstore.Store)
		outside := badgerstore.NewStore(bst.DB).SetPrefix(c.Cfg.Prefix) // same records, no listeners
		if c.Cfg.Typed {
			outside.SetType(typedRec{})
		}
		var armed atomic.Bool
		var other Mut
		bst.BeforeChange(func(id string, before, after interface{}) error {
			if !armed.CompareAndSwap(true, false) {
				return nil
			}
			// the outside writer gets in between this operation's read and its commit
			done := make(chan struct{})
			go func() {
				defer close(done)
				tx := outside.Write(id)
				if before == nil {
					_ = tx.Create(storedValue(c.Cfg, other.V))
				} else {
					_ = tx.Update(storedValue(c.Cfg, other.V))
				}
				_ = tx.Close()
			}()
			<-done
			return nil
		})
		exists := map[string]bool{}
		conflicts := 0
		for i, m := range c.Muts {
			if m.K == "init" || m.K == "createnew" {
				m.K = "create"
			}
			conflict := rapid.IntRange(0, 2).Draw(rt, "conflict") == 0 && (m.K == "create") != exists[m.ID]
			if conflict {
				other = Mut{V: genValue(c.Cfg.Type).Draw(rt, "outsideValue")}
				armed.Store(true)
			}
			mark := f.conn.LogLen()
			tx := f.st.Write(storeID(f.cfg, m.ID))
			err := f.mutate(tx, m)
			_ = tx.Close()
			armed.Store(false)
			if err == nil {
				if m.K == "delete" {
					delete(exists, m.ID)
				} else {
					exists[m.ID] = true
				}
				if conflict && m.K != "delete" {
					rt.Fatalf("mutation %d %+v: an outside write of the same key landed between its read and its commit, and it still returned success", i, m)
				}
				continue
			}
			if conflict {
				conflicts++
				if m.K == "create" {
					exists[m.ID] = true // the outside writer created it
				}
			}
			for _, e := range f.conn.LogFrom(mark) {
				if e.Kind == "pub" && strings.HasPrefix(e.Subject, "event.") {
					rt.Fatalf("mutation %d %+v failed (%v), yet %s %s was published for it", i, m, err, e.Subject, e.Data)
				}
			}
		}
		ev.Case(conflicts > 0, evid.Hash("failedcommit", c.String(), conflicts), "failed-commit")
	})
}
