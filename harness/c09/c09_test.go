package c09

import (
	"encoding/json"
	"errors"
	"fmt"
	"os"
	"sort"
	"strings"
	"testing"
	"time"

	res "github.com/jirenius/go-res"
	nats "github.com/nats-io/nats.go"
	"pgregory.net/rapid"

	"verifharness/internal/evid"
	"verifharness/internal/fakeconn"
	"verifharness/internal/natsref"
	"verifharness/internal/natsrv"
)

const prop = "C09"

func TestMain(m *testing.M) { os.Exit(evid.Main(m)) }

var ev = evid.For(prop)

func init() {
	ev.SetRule("cases = (service name in {\"\", svc, a.b}; ownership default or explicit resource/access lists of 0-4 patterns over tokens {a,b,*,>} with and without the service prefix, including overlapping, nested and duplicated entries; registered handler kinds any non-empty subset of get/call/auth/new/access; queue group default/custom/empty) served on a strict in-memory connection that rejects subjects nats.go would reject; for every owned pattern and request type concrete request subjects are instantiated (fresh tokens, 1-3 tokens for >, several methods) plus near misses; a case is non-trivial when explicit ownership has >=2 entries of which two overlap or are equal, or the service name is empty, or the kind subset omits resources or access; distinct = hash of the configuration. Thorough adds the same configurations against an embedded nats-server.")
	ev.Assume("ownership patterns use NATS wildcards * and > only ($tags are not NATS wildcards), as in the SetOwnedResources documentation")
	ev.Assume("ownership lists are compared as sets with the system.reset payload (a user-supplied duplicate may or may not be repeated)")
}

// Cfg is a service configuration.
type Cfg struct {
	Name      string   `json:"name"`
	Explicit  bool     `json:"explicit"`
	Resources []string `json:"resources"`
	Access    []string `json:"access"`
	Kinds     []string `json:"kinds"` // get call auth new access
	Queue     string   `json:"queue"` // "<default>" or value
	// Split, when non-empty, spreads the kinds over several nested handlers instead of one
	// handler on ">" (Kinds stays the union).
	Split []HSpec `json:"split,omitempty"`
	// FailSub > 0 makes the connection refuse the FailSub-th subscription.
	FailSub int `json:"failSub,omitempty"`
	// Restart serves the service, shuts it down and serves it again on a new connection;
	// the guarantees are checked on the second connection.
	Restart bool `json:"restart,omitempty"`
	// Prior: another ownership (zz.>) was configured first; the configuration under test -
	// explicit lists, or nil/nil to go back to the default - is set by a later call.
	Prior bool `json:"prior,omitempty"`
	// EarlyReset: ResetAll is called on the new service before any handler is registered.
	EarlyReset bool `json:"earlyReset,omitempty"`
	// LateKinds: a handler with these kinds is registered while the service is running, before
	// the ResetAll call: what is announced stays what the service is subscribed to.
	LateKinds []string `json:"lateKinds,omitempty"`
}

// HSpec is one handler of a split registration.
type HSpec struct {
	Pattern string   `json:"pattern"`
	Kinds   []string `json:"kinds"`
	// Sub registers the handler on a sub-mux that was mounted (on the pattern's first token)
	// before the handler is added to it.
	Sub bool `json:"sub,omitempty"`
}

func (c Cfg) String() string { b, _ := json.Marshal(c); return string(b) }

func has(l []string, s string) bool {
	for _, x := range l {
		if x == s {
			return true
		}
	}
	return false
}

func kindOpts(kinds []string) []res.Option {
	c := Cfg{Kinds: kinds}
	var opts []res.Option
	if has(c.Kinds, "get") {
		opts = append(opts, res.GetResource(func(r res.GetRequest) { r.Model(map[string]int{"a": 1}) }))
	}
	if has(c.Kinds, "call") {
		opts = append(opts, res.Call("*", func(r res.CallRequest) { r.OK(nil) }))
	}
	if has(c.Kinds, "auth") {
		opts = append(opts, res.Auth("*", func(r res.AuthRequest) { r.OK(nil) }))
	}
	if has(c.Kinds, "new") {
		opts = append(opts, res.New(func(r res.NewRequest) { r.New("x.y") }))
	}
	if has(c.Kinds, "access") {
		opts = append(opts, res.Access(res.AccessGranted))
	}
	return opts
}

func build(c Cfg) *res.Service {
	s := res.NewService(c.Name)
	s.SetLogger(nil)
	s.SetWorkerCount(2)
	if c.EarlyReset {
		// refused (the service is not started) and without any effect on what is owned later
		s.ResetAll()
	}
	if len(c.Split) == 0 {
		s.Handle(">", kindOpts(c.Kinds)...)
	}
	mounts := map[string]*res.Mux{}
	for _, h := range c.Split {
		if t := strings.Split(h.Pattern, "."); h.Sub && len(t) >= 2 && t[0] != "*" && t[0][0] != '$' && mounts[t[0]] == nil {
			mounts[t[0]] = res.NewMux("")
			s.Mount(t[0], mounts[t[0]])
		}
	}
	for _, h := range c.Split {
		if t := strings.Split(h.Pattern, "."); h.Sub && len(t) >= 2 && mounts[t[0]] != nil {
			mounts[t[0]].Handle(strings.Join(t[1:], "."), kindOpts(h.Kinds)...)
			continue
		}
		s.Handle(h.Pattern, kindOpts(h.Kinds)...)
	}
	if c.Prior {
		s.SetOwnedResources([]string{"zz.>"}, []string{"zz.>", "yy"})
		if !c.Explicit {
			s.SetOwnedResources(nil, nil)
		}
	}
	if c.Explicit {
		if len(c.Resources)%2 == 1 {
			s.SetReset(c.Resources, c.Access) // the deprecated alias
		} else {
			s.SetOwnedResources(c.Resources, c.Access)
		}
	}
	if c.Queue != "<default>" {
		s.SetQueueGroup(c.Queue)
	}
	return s
}

// expectedOwnership returns the owned patterns per the documentation.
func expectedOwnership(c Cfg) (resources, access []string) {
	all := func() []string {
		if c.Name == "" {
			return []string{">"}
		}
		return []string{c.Name, c.Name + ".>"}
	}
	if has(c.Kinds, "get") || has(c.Kinds, "call") || has(c.Kinds, "auth") || has(c.Kinds, "new") {
		resources = all()
	}
	if has(c.Kinds, "access") {
		access = all()
	}
	if c.Explicit {
		// a nil list means "use the default" for that kind
		if c.Resources != nil {
			resources = c.Resources
		}
		if c.Access != nil {
			access = c.Access
		}
	}
	return
}

func instantiate(p string, variant int) string {
	fresh := []string{"a", "b", "zz", "q1"}
	var out []string
	for i, t := range strings.Split(p, ".") {
		switch t {
		case "*":
			out = append(out, fresh[(variant+i)%len(fresh)])
		case ">":
			for k := 0; k <= variant%3; k++ {
				out = append(out, fresh[(variant+i+k)%len(fresh)])
			}
		default:
			out = append(out, t)
		}
	}
	return strings.Join(out, ".")
}

func set(l []string) string {
	m := map[string]bool{}
	for _, x := range l {
		m[x] = true
	}
	var k []string
	for x := range m {
		k = append(k, x)
	}
	sort.Strings(k)
	return fmt.Sprint(k)
}

type served struct {
	conn    *fakeconn.Conn
	s       *res.Service
	exited  chan error
	ok      bool
	failed  bool // the injected subscription failure fired
	stopped bool
}

func serve(c Cfg) *served {
	s := build(c)
	if c.Restart {
		first := serveOn(s, Cfg{})
		first.stop()
		if !first.ok {
			return first
		}
	}
	return serveOn(s, c)
}

func serveOn(s *res.Service, c Cfg) *served {
	sv := &served{conn: fakeconn.New(), s: s, exited: make(chan error, 1)}
	sv.conn.Strict = true
	if k := c.FailSub; k > 0 {
		sv.conn.FailSubscribe = func(subject string, n int) error {
			if n == k {
				sv.failed = true
				return errors.New("injected subscribe failure")
			}
			return nil
		}
	}
	started := make(chan struct{})
	sv.s.SetOnServe(func(*res.Service) { close(started) })
	go func() { sv.exited <- sv.s.Serve(sv.conn) }()
	select {
	case <-started:
		sv.ok = true
	case err := <-sv.exited:
		sv.exited <- err
	case <-time.After(20 * time.Second):
	}
	return sv
}

func (sv *served) stop() {
	if sv.stopped {
		return
	}
	sv.stopped = true
	if sv.ok {
		_ = sv.s.Shutdown()
	}
	select {
	case <-sv.exited:
	case <-time.After(20 * time.Second):
	}
}

// check runs the configuration and evaluates the oracle.
func check(c Cfg) (msg string, nontrivial bool) {
	wantRes, wantAcc := expectedOwnership(c)
	overlap := false
	for _, l := range [][]string{wantRes, wantAcc} {
		for i := range l {
			for j := range l {
				if i != j && (natsref.Covers(l[i], l[j])) && c.Explicit {
					overlap = true
				}
			}
		}
	}
	nontrivial = overlap || c.Name == "" || len(wantRes) == 0 || len(wantAcc) == 0
	for _, l := range [][]string{wantRes, wantAcc} {
		for _, p := range l {
			if !natsref.ValidSubscribe(p) {
				return "", false // the user supplied an invalid pattern: outside the property's domain
			}
		}
	}
	sv := serve(c)
	defer sv.stop()
	if len(wantRes) == 0 && len(wantAcc) == 0 {
		if sv.ok {
			return "service with nothing to serve reported started", nontrivial
		}
		return "", nontrivial
	}
	if !sv.ok && sv.failed {
		// a refused subscription makes Serve fail: nothing is promised
		if n := len(sv.conn.Published("system.reset")); n != 0 {
			return fmt.Sprintf("Serve failed on a refused subscription but sent %d system.reset", n), true
		}
		return "", true
	}
	if !sv.ok {
		var subs []string
		for _, e := range sv.conn.Log() {
			if e.Kind == "sub" {
				subs = append(subs, e.Subject)
			}
		}
		return fmt.Sprintf("Serve failed for a valid configuration (subscriptions attempted so far: %v; a real NATS client rejects invalid subjects)", subs), nontrivial
	}
	subs := sv.conn.Subs()
	wantQueue := c.Queue
	if wantQueue == "<default>" {
		wantQueue = c.Name
	}
	for _, sb := range subs {
		if !natsref.ValidSubscribe(sb.Subject) {
			return fmt.Sprintf("subscription subject %q is not a valid NATS subject", sb.Subject), nontrivial
		}
		if sb.Queue != wantQueue {
			return fmt.Sprintf("subscription %q uses queue group %q, expected %q", sb.Subject, sb.Queue, wantQueue), nontrivial
		}
	}
	// (3) non-redundancy
	for i, a := range subs {
		for j, b := range subs {
			if i != j && natsref.Covers(a.Subject, b.Subject) {
				return fmt.Sprintf("subscription %q is redundant: it is covered by subscription %q (a request under it is delivered twice without a queue group)", b.Subject, a.Subject), nontrivial
			}
		}
	}
	// (2) coverage
	type want struct{ typ, pat string }
	var wants []want
	for _, p := range wantRes {
		for _, t := range []string{"get", "call", "auth"} {
			wants = append(wants, want{t, p})
		}
	}
	for _, p := range wantAcc {
		wants = append(wants, want{"access", p})
	}
	for _, w := range wants {
		for v := 0; v < 6; v++ {
			name := instantiate(w.pat, v)
			subj := w.typ + "." + name
			if w.typ == "call" || w.typ == "auth" {
				subj += "." + []string{"set", "new", "zz"}[v%3]
			}
			n := 0
			for _, sb := range subs {
				if natsref.Matches(sb.Subject, subj) {
					n++
				}
			}
			if n == 0 {
				var ss []string
				for _, sb := range subs {
					ss = append(ss, sb.Subject)
				}
				return fmt.Sprintf("request subject %q falls under owned pattern %q but no subscription matches it (subscriptions: %v)", subj, w.pat, ss), nontrivial
			}
		}
	}
	// (4) reset
	var reset struct {
		Resources []string `json:"resources"`
		Access    []string `json:"access"`
	}
	pubs := sv.conn.Published("system.reset")
	if len(pubs) != 1 {
		return fmt.Sprintf("expected one system.reset on start, got %d", len(pubs)), nontrivial
	}
	_ = json.Unmarshal(pubs[0].Data, &reset)
	if set(reset.Resources) != set(wantRes) || set(reset.Access) != set(wantAcc) {
		return fmt.Sprintf("system.reset on start lists resources %v access %v, the owned patterns are %v / %v", reset.Resources, reset.Access, wantRes, wantAcc), nontrivial
	}
	if len(c.LateKinds) > 0 {
		sv.s.Handle("late9.$id", kindOpts(c.LateKinds)...)
	}
	sv.s.ResetAll()
	pubs = sv.conn.Published("system.reset")
	if len(pubs) != 2 || string(pubs[1].Data) != string(pubs[0].Data) {
		late := ""
		if len(c.LateKinds) > 0 {
			late = fmt.Sprintf(" (a handler with %v was registered after the start; the subscriptions are those made on start)", c.LateKinds)
		}
		return fmt.Sprintf("ResetAll published %v%s", pubs, late), nontrivial
	}
	return "", nontrivial
}

func genPattern(name string) *rapid.Generator[string] {
	return rapid.Custom(func(t *rapid.T) string {
		n := rapid.IntRange(1, 3).Draw(t, "ntok")
		var toks []string
		if name != "" && rapid.IntRange(0, 3).Draw(t, "prefix") > 0 {
			toks = append(toks, name)
		}
		for i := 0; i < n; i++ {
			k := rapid.IntRange(0, 9).Draw(t, "tk")
			switch {
			case k < 5:
				toks = append(toks, rapid.SampledFrom([]string{"a", "b", "ab", "a", "b", "ab", "q\"", "\\", "budget", "get", "a$", "a$"}).Draw(t, "lit")) // "a" is a string prefix of "ab"
			case k < 8:
				toks = append(toks, "*")
			default:
				if i == n-1 {
					toks = append(toks, ">")
				} else {
					toks = append(toks, "a")
				}
			}
		}
		return strings.Join(toks, ".")
	})
}

func genCfg() *rapid.Generator[Cfg] {
	return rapid.Custom(func(t *rapid.T) Cfg {
		c := Cfg{Name: rapid.SampledFrom([]string{"", "svc", "svc", "a.b", "s\"q", "b\\c", "widget", "get.call"}).Draw(t, "name")}
		c.EarlyReset = rapid.IntRange(0, 4).Draw(t, "earlyReset") == 0
		if rapid.IntRange(0, 3).Draw(t, "late") == 0 {
			c.LateKinds = rapid.SampledFrom([][]string{{"access"}, {"get"}, {"call"}, {"auth", "access"}, {"new"}}).Draw(t, "lateKinds")
		}
		c.Prior = rapid.IntRange(0, 3).Draw(t, "prior") == 0
		c.Explicit = rapid.IntRange(0, 2).Draw(t, "explicit") > 0
		if c.Explicit {
			c.Resources = rapid.SliceOfN(genPattern(c.Name), 0, 4).Draw(t, "resources")
			c.Access = rapid.SliceOfN(genPattern(c.Name), 0, 3).Draw(t, "access")
			if rapid.IntRange(0, 3).Draw(t, "dup") == 0 && len(c.Resources) > 0 {
				c.Resources = append(c.Resources, c.Resources[0])
			}
			if rapid.IntRange(0, 5).Draw(t, "dupacc") == 0 && len(c.Access) > 0 {
				c.Access = append(c.Access, c.Access[0])
			}
			if c.Resources == nil {
				c.Resources = []string{}
			}
			if c.Access == nil {
				c.Access = []string{}
			}
			// explicit ownership for one kind only: nil selects the default for the other
			switch rapid.IntRange(0, 7).Draw(t, "nillist") {
			case 0:
				c.Resources = nil
			case 1:
				c.Access = nil
			}
		}
		all := []string{"get", "call", "auth", "new", "access"}
		for _, k := range all {
			if rapid.Bool().Draw(t, "kind-"+k) {
				c.Kinds = append(c.Kinds, k)
			}
		}
		if len(c.Kinds) == 0 {
			c.Kinds = []string{rapid.SampledFrom(all).Draw(t, "kind")}
		}
		c.Queue = rapid.SampledFrom([]string{"<default>", "<default>", "grp", ""}).Draw(t, "queue")
		if rapid.IntRange(0, 2).Draw(t, "split") == 0 {
			// ("" is the pattern of the resource named like the service itself)
			pool := []string{"", "a", "a.b", "a.$x", "a.b.c", "a.$x.c", "b.>", "b", "*.z.>"}
			if c.Name == "" {
				pool = pool[1:] // (a service without name has no such resource)
			}
			n := rapid.IntRange(1, 4).Draw(t, "nsplit")
			start := rapid.IntRange(0, len(pool)-n).Draw(t, "splitfrom")
			for i := 0; i < n; i++ {
				c.Split = append(c.Split, HSpec{Pattern: pool[start+i]})
			}
			for _, k := range c.Kinds {
				i := rapid.IntRange(0, n-1).Draw(t, "at-"+k)
				c.Split[i].Kinds = append(c.Split[i].Kinds, k)
			}
			for i := range c.Split {
				c.Split[i].Sub = rapid.IntRange(0, 2).Draw(t, "sub") == 0
			}
		}
		if rapid.IntRange(0, 5).Draw(t, "failsub") == 0 {
			c.FailSub = rapid.IntRange(1, 8).Draw(t, "failnth")
		}
		c.Restart = rapid.IntRange(0, 3).Draw(t, "restart") == 0
		return c
	})
}

func TestPropSubscriptions(t *testing.T) {
	rapid.Check(t, func(rt *rapid.T) {
		c := genCfg().Draw(rt, "cfg")
		msg, nt := check(c)
		ev.Case(nt, evid.Hash(c.String()), "config", "name-"+c.Name)
		if msg != "" {
			rt.Fatalf("%s\nconfig: %s", msg, c)
		}
		if nt {
			ev.Sample("config", 3, func() interface{} { return c })
		}
	})
}

// TestRealNATS serves configurations on an embedded nats-server and checks that
// Serve succeeds and every owned subject gets exactly one response.
func TestRealNATS(t *testing.T) {
	srv, err := natsrv.Start()
	if err != nil {
		t.Fatalf("VERIF-INCONCLUSIVE: %v", err)
	}
	defer srv.Stop()
	client, err := srv.Connect()
	if err != nil {
		t.Fatalf("VERIF-INCONCLUSIVE: %v", err)
	}
	defer client.Close()
	cfgs := []Cfg{
		{Name: "svc", Kinds: []string{"get", "call", "access"}, Queue: "<default>"},
		{Name: "", Kinds: []string{"get", "access"}, Queue: "<default>"},
		{Name: "svc", Explicit: true, Resources: []string{"svc.a", "svc.a"}, Access: []string{}, Kinds: []string{"get"}, Queue: ""},
		{Name: "svc", Explicit: true, Resources: []string{"svc.>", "svc.a.*"}, Access: []string{"svc.>", ">"}, Kinds: []string{"get", "access"}, Queue: ""},
		{Name: "a.b", Explicit: true, Resources: []string{"a.b.*", "a.b.a"}, Access: []string{"a.b.a", "a.b.a"}, Kinds: []string{"get", "call", "access"}, Queue: ""},
	}
	rapidCfgs := evid.Pick(20, 300)
	seed := uint64(12345)
	for i := 0; i < rapidCfgs; i++ {
		seed += 7919
		gc := genCfg().Example(int(seed))
		// one handler on ">" answers every request type it has: responses can be counted
		gc.Split, gc.FailSub, gc.Restart = nil, 0, false
		cfgs = append(cfgs, gc)
	}
	for _, c := range cfgs {
		wantRes, wantAcc := expectedOwnership(c)
		valid := len(wantRes)+len(wantAcc) > 0
		for _, l := range [][]string{wantRes, wantAcc} {
			for _, p := range l {
				if !natsref.ValidSubscribe(p) {
					valid = false
				}
			}
		}
		if !valid {
			continue
		}
		nc, err := srv.Connect()
		if err != nil {
			t.Fatalf("VERIF-INCONCLUSIVE: %v", err)
		}
		s := build(c)
		started := make(chan struct{})
		s.SetOnServe(func(*res.Service) { close(started) })
		reconnected := make(chan struct{}, 1)
		s.SetOnReconnect(func(*res.Service) { reconnected <- struct{}{} })
		// a gateway's view of system.reset, subscribed before the service starts
		resetSub, _ := client.SubscribeSync("system.reset")
		_ = client.Flush()
		exited := make(chan error, 1)
		go func() { exited <- s.Serve(nc) }()
		ok := false
		select {
		case <-started:
			ok = true
		case <-exited:
		case <-time.After(10 * time.Second):
		}
		if !ok {
			evid.Violation(t, prop, "realnats", "Serve on a real NATS connection failed for valid configuration "+c.String(), c)
			_ = resetSub.Unsubscribe()
			nc.Close()
			continue
		}
		_ = nc.Flush()
		// the reset sent on start, then the one sent on reconnect (the service installs its
		// reconnect handler on the *nats.Conn; it is invoked here as the client library would)
		resetOK := true
		for _, when := range []string{"start", "reconnect"} {
			if when == "reconnect" {
				// (the disconnect handler first, as on a real outage)
				if dcb := nc.Opts.DisconnectedCB; dcb != nil {
					dcb(nc)
				}
				cb := nc.Opts.ReconnectedCB
				if cb == nil {
					evid.Violation(t, prop, "realnats", "Serve on a *nats.Conn did not install a reconnect handler; config "+c.String(), c)
					resetOK = false
					break
				}
				cb(nc)
				select {
				case <-reconnected:
				case <-time.After(10 * time.Second):
				}
				_ = nc.Flush()
			}
			m, err := resetSub.NextMsg(10 * time.Second)
			if err != nil {
				evid.Violation(t, prop, "realnats", fmt.Sprintf("no system.reset seen on %s; config %s", when, c), c)
				resetOK = false
				break
			}
			var reset struct {
				Resources []string `json:"resources"`
				Access    []string `json:"access"`
			}
			_ = json.Unmarshal(m.Data, &reset)
			if set(reset.Resources) != set(wantRes) || set(reset.Access) != set(wantAcc) {
				evid.Violation(t, prop, "realnats", fmt.Sprintf("system.reset on %s lists resources %v access %v, the owned patterns are %v / %v; config %s", when, reset.Resources, reset.Access, wantRes, wantAcc, c), c)
				resetOK = false
				break
			}
		}
		_ = resetSub.Unsubscribe()
		if !resetOK {
			_ = s.Shutdown()
			<-exited
			continue
		}
		type want struct{ typ, pat string }
		var wants []want
		for _, p := range wantRes {
			if has(c.Kinds, "get") {
				wants = append(wants, want{"get", p})
			}
			if has(c.Kinds, "call") {
				wants = append(wants, want{"call", p})
			}
		}
		for _, p := range wantAcc {
			if has(c.Kinds, "access") {
				wants = append(wants, want{"access", p})
			}
		}
		for _, w := range wants {
			name := instantiate(w.pat, 1)
			if c.Name != "" && !strings.HasPrefix(name, c.Name) {
				continue // not routable by this service's handlers (mux path): delivery only
			}
			subj := w.typ + "." + name
			if w.typ == "call" {
				subj += ".set"
			}
			inbox := "_INBOX.c09." + fmt.Sprint(time.Now().UnixNano())
			sub, _ := client.SubscribeSync(inbox)
			_ = client.PublishRequest(subj, inbox, nil)
			_ = client.Flush()
			n := 0
			// generous wait for the first response, short extra wait for duplicates
			wait := 10 * time.Second
			for {
				_, err := sub.NextMsg(wait)
				if err != nil {
					break
				}
				n++
				wait = 150 * time.Millisecond
			}

			_ = sub.Unsubscribe()
			// how many maximal request subjects derived from the owned patterns match this
			// subject (call/auth subjects of two patterns that are not nested can still overlap:
			// a.* with a method and a.a.> - such a subject is legitimately delivered twice)
			owned := wantRes
			if w.typ == "access" {
				owned = wantAcc
			}
			var subjects []string
			for _, p := range owned {
				sp := w.typ + "." + p
				if w.typ == "call" && !strings.HasSuffix(p, ">") {
					sp += ".*"
				}
				subjects = append(subjects, sp)
			}
			maximal := map[string]bool{}
			for _, p := range subjects {
				covered := false
				for _, q := range subjects {
					if q != p && natsref.Covers(q, p) {
						covered = true
					}
				}
				if !covered && natsref.Matches(p, subj) {
					maximal[p] = true
				}
			}
			if n < 1 || (len(maximal) == 1 && n != 1) {
				evid.Violation(t, prop, "realnats", fmt.Sprintf("request %s under owned pattern %s (matched by %d maximal request subjects of the owned patterns) got %d responses on real NATS; config %s", subj, w.pat, len(maximal), n, c), c)
				break
			}
		}
		_ = s.Shutdown()
		<-exited
		ev.Case(true, evid.Hash("realnats", c.String()), "realnats-config")
	}
}

// TestRealNATSListenAndServe: the ListenAndServe entry point (own connection): serves,
// answers, returns after Shutdown, and can be started again.
func TestRealNATSListenAndServe(t *testing.T) {
	srv, err := natsrv.Start()
	if err != nil {
		t.Fatalf("VERIF-INCONCLUSIVE: %v", err)
	}
	defer srv.Stop()
	client, err := srv.Connect()
	if err != nil {
		t.Fatalf("VERIF-INCONCLUSIVE: %v", err)
	}
	defer client.Close()
	c := Cfg{Name: "svc", Kinds: []string{"get", "access"}, Queue: "<default>"}
	s := build(c)
	// the service reaches the server through a proxy, so that its connection can be cut
	px, err := srv.Proxy()
	if err != nil {
		t.Fatalf("VERIF-INCONCLUSIVE: %v", err)
	}
	defer px.Close()
	resets, err := client.SubscribeSync("system.reset")
	if err != nil {
		t.Fatalf("VERIF-INCONCLUSIVE: %v", err)
	}
	_ = client.Flush()
	wantRes, wantAcc := expectedOwnership(c)
	checkReset := func(when string, cycle int) bool {
		m, err := resets.NextMsg(10 * time.Second)
		if err != nil {
			evid.Violation(t, prop, "listenandserve", fmt.Sprintf("cycle %d: no system.reset seen %s", cycle, when), c)
			return false
		}
		var reset struct {
			Resources []string `json:"resources"`
			Access    []string `json:"access"`
		}
		if err := json.Unmarshal(m.Data, &reset); err != nil || set(reset.Resources) != set(wantRes) || set(reset.Access) != set(wantAcc) {
			evid.Violation(t, prop, "listenandserve", fmt.Sprintf("cycle %d: the system.reset sent %s is %s, the owned patterns are %v / %v", cycle, when, m.Data, wantRes, wantAcc), c)
			return false
		}
		return true
	}
	for cycle := 0; cycle < 2; cycle++ {
		started := make(chan struct{})
		s.SetOnServe(func(*res.Service) { close(started) })
		disc := make(chan struct{}, 4)
		s.SetOnDisconnect(func(*res.Service) { disc <- struct{}{} })
		exited := make(chan error, 1)
		go func() { exited <- s.ListenAndServe(px.URL, nats.ReconnectWait(10*time.Millisecond)) }()
		select {
		case <-started:
		case err := <-exited:
			evid.Violation(t, prop, "listenandserve", fmt.Sprintf("cycle %d: ListenAndServe returned %v instead of serving", cycle, err), c)
			return
		case <-time.After(20 * time.Second):
			t.Fatalf("VERIF-INCONCLUSIVE: ListenAndServe did not start")
		}
		// OnServe is called once the subscriptions have been handed to the client library, not
		// once the server has them: a ping round trip on the service's connection comes first
		if snc, ok := s.Conn().(*nats.Conn); ok {
			_ = snc.FlushTimeout(60 * time.Second)
		}
		n := 0
		for try := 0; try < 3 && n == 0; try++ {
			if m, err := client.Request("get.svc.a", nil, 5*time.Second); err == nil && len(m.Data) > 0 {
				n++
			}
		}
		if n == 0 {
			evid.Violation(t, prop, "listenandserve", fmt.Sprintf("cycle %d: a get request on an owned resource got no response after ListenAndServe reported serving", cycle), c)
		}
		// the reset sent on start, then a real outage: the reset sent on reconnect
		if checkReset("on start", cycle) {
			px.Cut()
			select {
			case <-disc:
				px.Restore()
				if checkReset("on reconnect after an outage", cycle) {
					ev.Case(true, evid.Hash("listenandserve-reconnect", cycle), "real-reconnect")
				}
			case <-time.After(10 * time.Second):
				px.Restore()
				t.Logf("VERIF-INCONCLUSIVE: the service did not notice the outage")
			}
		}
		_ = s.Shutdown()
		select {
		case err := <-exited:
			if err != nil {
				evid.Violation(t, prop, "listenandserve", fmt.Sprintf("cycle %d: ListenAndServe returned %v after Shutdown", cycle, err), c)
			}
		case <-time.After(20 * time.Second):
			evid.Violation(t, prop, "listenandserve", fmt.Sprintf("cycle %d: ListenAndServe did not return after Shutdown", cycle), c)
			return
		}
		ev.Case(true, evid.Hash("listenandserve", cycle), "listen-and-serve")
	}
}

// ---- regression tier -----------------------------------------------------------

func TestRegressEmptyServiceName(t *testing.T) {
	c := Cfg{Name: "", Kinds: []string{"get", "access"}, Queue: "<default>"}
	msg, _ := check(c)
	evid.ReportKnown(t, prop, "C09-empty-service-name", msg != "", msg, c)
	ev.Case(true, evid.Hash("regress-empty-name"), "regress")
}

func TestRegressDuplicateOwnership(t *testing.T) {
	c := Cfg{Name: "svc", Explicit: true, Resources: []string{"svc.a", "svc.a"}, Access: []string{"svc.>", ">"}, Kinds: []string{"get", "access"}, Queue: ""}
	msg, _ := check(c)
	evid.ReportKnown(t, prop, "C09-duplicate-overlapping-ownership", msg != "", msg, c)
	ev.Case(true, evid.Hash("regress-dup"), "regress")
}

func TestRegressRootHandlerOwnership(t *testing.T) {
	// the only handler with an access handler is the one of the resource named like the service
	c := Cfg{Name: "svc", Kinds: []string{"access", "get"}, Queue: "<default>", Split: []HSpec{{Pattern: "", Kinds: []string{"access"}}, {Pattern: "a", Kinds: []string{"get"}}}}
	msg, _ := check(c)
	if msg == "" {
		// and a service that has nothing but that handler
		c = Cfg{Name: "svc", Kinds: []string{"get"}, Queue: "<default>", Split: []HSpec{{Pattern: "", Kinds: []string{"get"}}}}
		msg, _ = check(c)
	}
	evid.ReportKnown(t, prop, "C09-root-handler-not-owned", msg != "", msg, c)
	ev.Case(true, evid.Hash("regress-root-owned"), "regress")
}

// TestPropLongOwnership: explicit ownership lists of several hundred entries; the reset sent
// on start (and by ResetAll) lists every owned pattern, and every pattern is subscribed.
func TestPropLongOwnership(t *testing.T) {
	rapid.Check(t, func(rt *rapid.T) {
		nr := rapid.SampledFrom([]int{0, 1, 2, 255, 256, 257, 300, 600}).Draw(rt, "resources")
		na := rapid.SampledFrom([]int{0, 1, 255, 256, 257, 300, 600, 700}).Draw(rt, "access")
		if nr == 0 && na == 0 {
			na = 257
		}
		var rl, al []string
		for i := 0; i < nr; i++ {
			rl = append(rl, fmt.Sprintf("svc.r%d", i))
		}
		for i := 0; i < na; i++ {
			al = append(al, fmt.Sprintf("svc.a%d.>", i))
		}
		s := res.NewService("svc")
		s.SetLogger(nil)
		s.Handle(">", res.Access(res.AccessGranted), res.GetResource(func(r res.GetRequest) { r.NotFound() }))
		if rl == nil {
			rl = []string{}
		}
		if al == nil {
			al = []string{}
		}
		s.SetOwnedResources(rl, al)
		conn := fakeconn.New()
		served := make(chan struct{})
		s.SetOnServe(func(*res.Service) { close(served) })
		exited := make(chan error, 1)
		go func() { exited <- s.Serve(conn) }()
		select {
		case <-served:
		case err := <-exited:
			rt.Fatalf("Serve with %d resources and %d access patterns returned %v", nr, na, err)
		case <-time.After(20 * time.Second):
			rt.Fatalf("VERIF-INCONCLUSIVE: service did not start")
		}
		collect := func(from int) (map[string]bool, map[string]bool) {
			gr, ga := map[string]bool{}, map[string]bool{}
			for _, e := range conn.LogFrom(from) {
				if e.Kind != "pub" || e.Subject != "system.reset" {
					continue
				}
				var p struct {
					Resources []string `json:"resources"`
					Access    []string `json:"access"`
				}
				_ = json.Unmarshal(e.Data, &p)
				for _, x := range p.Resources {
					gr[x] = true
				}
				for _, x := range p.Access {
					ga[x] = true
				}
			}
			return gr, ga
		}
		verify := func(when string, from int) {
			gr, ga := collect(from)
			for _, x := range rl {
				if !gr[x] {
					rt.Fatalf("%s: the owned resource pattern %q (one of %d) is not announced in any system.reset (%d resource and %d access patterns announced)", when, x, nr, len(gr), len(ga))
				}
			}
			for _, x := range al {
				if !ga[x] {
					rt.Fatalf("%s: the owned access pattern %q (one of %d, with %d resource patterns) is not announced in any system.reset (%d access patterns announced)", when, x, na, nr, len(ga))
				}
			}
			if len(gr) != len(rl) || len(ga) != len(al) {
				rt.Fatalf("%s: system.reset announces %d resource and %d access patterns, owned are %d and %d", when, len(gr), len(ga), nr, na)
			}
		}
		verify("on start", 0)
		mark := conn.LogLen()
		s.ResetAll()
		verify("on ResetAll", mark)
		// every owned pattern has a subscription that matches its requests
		for _, x := range rl {
			if conn.MatchCount("get."+x) == 0 {
				rt.Fatalf("no subscription matches get.%s", x)
			}
		}
		for i := range al {
			if subj := fmt.Sprintf("access.svc.a%d.x", i); conn.MatchCount(subj) == 0 {
				rt.Fatalf("no subscription matches %s", subj)
			}
		}
		_ = s.Shutdown()
		<-exited
		ev.Case(nr > 256 || na > 256, evid.Hash("longownership", nr, na), "long-ownership")
	})
}
