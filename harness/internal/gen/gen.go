// Package gen holds rapid generators shared by the property packages: JSON
// values, RES values, unmarshalable Go values, strings with escapes.
package gen

import (
	"bytes"
	"encoding/json"
	"errors"
	"math"
	"reflect"
	"strings"

	res "github.com/jirenius/go-res"
	"pgregory.net/rapid"
)

// Val describes a generated value in a replayable, printable form.
type Val struct {
	// Kind: "json" (JSON holds the text), "ref", "softref" (S holds the rid),
	// "delete", "data" (JSON holds the inner text, wrapped with res.DataValue),
	// or an unmarshalable kind: "chan", "func", "nan", "cycle", "marshalerr", "badjson".
	Kind string `json:"kind"`
	JSON string `json:"json,omitempty"`
	S    string `json:"s,omitempty"`
}

type errMarshaler struct{}

func (errMarshaler) MarshalJSON() ([]byte, error) { return nil, errors.New("refusing to marshal") }

// panicMarshaler's MarshalJSON panics (a nil dereference in user code, say).
type panicMarshaler struct{ p *int }

func (m panicMarshaler) MarshalJSON() ([]byte, error) { return []byte(string(rune(*m.p))), nil }

// resErrMarshaler fails with one of the library's own errors (a lazily loaded value that
// is not found, say); for the response this is still a value that cannot be marshalled.
type resErrMarshaler struct{}

func (resErrMarshaler) MarshalJSON() ([]byte, error) { return nil, res.ErrNotFound }

type badMarshaler struct{}

func (badMarshaler) MarshalJSON() ([]byte, error) { return []byte(`{"a":`), nil }

type cyc struct{ Next *cyc }

// MarshalPanics reports whether encoding the value panics inside the value's own
// MarshalJSON (only generated where a script model accounts for it).
func (v Val) MarshalPanics() bool { return v.Kind == "marshalpanic" }

// Unmarshalable reports whether json.Marshal fails on the materialised value.
func (v Val) Unmarshalable() bool {
	switch v.Kind {
	case "chan", "func", "nan", "cycle", "marshalerr", "badjson", "badraw", "badraw2", "marshalreserr":
		return true
	}
	return false
}

// Go materialises the value.
func (v Val) Go() interface{} {
	switch v.Kind {
	case "json":
		return Decode([]byte(v.JSON))
	case "ref":
		return res.Ref(v.S)
	case "softref":
		return res.SoftRef(v.S)
	case "delete":
		return res.DeleteAction
	case "data":
		return res.DataValue[interface{}]{Data: Decode([]byte(v.JSON))}
	case "chan":
		return make(chan int)
	case "func":
		return func() {}
	case "nan":
		return math.NaN()
	case "cycle":
		c := &cyc{}
		c.Next = c
		return c
	case "marshalerr":
		return errMarshaler{}
	case "badjson":
		return badMarshaler{}
	case "marshalreserr":
		return resErrMarshaler{}
	case "marshalpanic":
		return panicMarshaler{}
	case "badraw":
		return json.RawMessage(`{"a":`)
	case "badraw2":
		return json.RawMessage(`null,"error":{"code":"x","message":"y"}`)
	case "raw":
		return json.RawMessage(v.JSON)
	}
	return nil
}

// Wire returns the JSON text the value must have on the wire.
func (v Val) Wire() []byte {
	switch v.Kind {
	case "json", "raw":
		return []byte(v.JSON)
	case "ref":
		b, _ := json.Marshal(map[string]string{"rid": v.S})
		return b
	case "softref":
		b, _ := json.Marshal(map[string]interface{}{"rid": v.S, "soft": true})
		return b
	case "delete":
		return []byte(`{"action":"delete"}`)
	case "data":
		return []byte(`{"data":` + v.JSON + `}`)
	}
	return nil
}

// Decode decodes JSON text into generic values with json.Number.
func Decode(b []byte) interface{} {
	d := json.NewDecoder(bytes.NewReader(b))
	d.UseNumber()
	var v interface{}
	if err := d.Decode(&v); err != nil {
		return nil
	}
	return v
}

// JSONEqual compares two JSON texts by value (objects unordered, numbers by text).
func JSONEqual(a, b []byte) bool {
	da, db := json.NewDecoder(bytes.NewReader(a)), json.NewDecoder(bytes.NewReader(b))
	da.UseNumber()
	db.UseNumber()
	var va, vb interface{}
	if da.Decode(&va) != nil || db.Decode(&vb) != nil {
		return false
	}
	if da.More() || db.More() {
		return false
	}
	return reflect.DeepEqual(va, vb)
}

// StringTricky generates valid UTF-8 strings of the interesting classes.
func StringTricky() *rapid.Generator[string] {
	return rapid.OneOf(
		rapid.SampledFrom([]string{"", "a", "foo", "\"", "\\", "\"quoted\"", "a\\b", "\n\t\r", "\x00\x01\x1f", "<>&", "  ", "é", "日本語", "😀", "\U0010FFFF", "\u007f", "a b", "{\"rid\":\"x\"}", "\\u003c", "a\\u0026b\\u003e", "\\\\u003c", strings.Repeat("x", 300), strings.Repeat("0123456789", 130), strings.Repeat("é~", 600), "</script>", "�", " "}),
		rapid.StringOfN(rapid.RuneFrom([]rune("ab\"\\\n<>&é日😀\x00\x1f  {}[]:,")), 0, 12, -1),
		rapid.String(),
	).Filter(func(s string) bool { return isValidUTF8(s) })
}

func isValidUTF8(s string) bool {
	for _, r := range s {
		if r == 0xFFFD {
			// could be a literal U+FFFD or a decoding error; re-encode to check
			if !strings.Contains(s, "�") {
				return false
			}
		}
	}
	b, err := json.Marshal(s)
	if err != nil {
		return false
	}
	var back string
	return json.Unmarshal(b, &back) == nil && back == s
}

// JSONText generates compact JSON texts of bounded depth.
func JSONText(depth int) *rapid.Generator[string] {
	return rapid.Custom(func(t *rapid.T) string {
		return jsonText(t, depth)
	})
}

func jsonText(t *rapid.T, depth int) string {
	max := 7
	if depth <= 0 {
		max = 5
	}
	switch rapid.IntRange(0, max).Draw(t, "jkind") {
	case 0:
		return "null"
	case 1:
		return rapid.SampledFrom([]string{"true", "false"}).Draw(t, "bool")
	case 2:
		return rapid.SampledFrom([]string{"0", "1", "-1", "42", "12345678901234567890", "1.5", "-0.25", "1e10", "1E-5", "0.1", "9007199254740993", "-0"}).Draw(t, "num")
	case 3, 4:
		b, _ := json.Marshal(StringTricky().Draw(t, "str"))
		return string(b)
	case 5:
		return rapid.SampledFrom([]string{`""`, `"x"`, "7", "null"}).Draw(t, "simple")
	case 6:
		n := rapid.IntRange(0, 3).Draw(t, "alen")
		parts := make([]string, n)
		for i := range parts {
			parts[i] = jsonText(t, depth-1)
		}
		return "[" + strings.Join(parts, ",") + "]"
	default:
		n := rapid.IntRange(0, 3).Draw(t, "olen")
		var parts []string
		seen := map[string]bool{}
		for i := 0; i < n; i++ {
			k := rapid.OneOf(rapid.SampledFrom([]string{"a", "b", "rid", "data", "action", "soft", "result", "error", "é", ""}), StringTricky()).Draw(t, "key")
			if seen[k] {
				continue
			}
			seen[k] = true
			kb, _ := json.Marshal(k)
			parts = append(parts, string(kb)+":"+jsonText(t, depth-1))
		}
		return "{" + strings.Join(parts, ",") + "}"
	}
}

// Primitive generates a JSON primitive text.
func Primitive() *rapid.Generator[string] {
	return JSONText(0)
}

// RID generates valid resource ids.
func RID() *rapid.Generator[string] {
	return rapid.Custom(func(t *rapid.T) string {
		n := rapid.IntRange(1, 4).Draw(t, "ntok")
		toks := make([]string, n)
		for i := range toks {
			toks[i] = rapid.SampledFrom([]string{"a", "b", "svc", "user", "42", "$x", "a$b", "~", "{}", "x-y_z", "a\"b", "\\", "<&'"}).Draw(t, "tok")
		}
		s := strings.Join(toks, ".")
		if rapid.IntRange(0, 4).Draw(t, "q") == 0 {
			s += "?" + rapid.SampledFrom([]string{"", "a=b", "q=1&r=2", "x=é", "?", "a.b=*>", "q=\"x\"", "a\nb", "\\", "\x01", "a b"}).Draw(t, "query")
		}
		return s
	})
}

// ResValue generates a RES value (primitive, reference, soft reference, data value, delete action).
func ResValue(allowDelete bool) *rapid.Generator[Val] {
	return rapid.Custom(func(t *rapid.T) Val {
		max := 5
		if allowDelete {
			max = 6
		}
		switch rapid.IntRange(0, max).Draw(t, "rvkind") {
		case 0, 1:
			return Val{Kind: "json", JSON: Primitive().Draw(t, "prim")}
		case 2:
			return Val{Kind: "ref", S: RID().Draw(t, "rid")}
		case 3:
			return Val{Kind: "softref", S: RID().Draw(t, "rid")}
		case 4:
			return Val{Kind: "data", JSON: JSONText(2).Draw(t, "data")}
		case 5:
			return Val{Kind: "json", JSON: Primitive().Draw(t, "prim")}
		default:
			return Val{Kind: "delete"}
		}
	})
}

// AnyVal generates any JSON value, occasionally an unmarshalable Go value.
func AnyVal(unmarshalablePerMille int) *rapid.Generator[Val] {
	return rapid.Custom(func(t *rapid.T) Val {
		if rapid.IntRange(0, 999).Draw(t, "unm") < unmarshalablePerMille {
			return Val{Kind: rapid.SampledFrom([]string{"chan", "func", "nan", "cycle", "marshalerr", "badjson", "badraw", "badraw2", "marshalreserr"}).Draw(t, "ukind")}
		}
		if rapid.IntRange(0, 5).Draw(t, "asraw") == 0 {
			// handlers often hand over pre-encoded JSON
			return Val{Kind: "raw", JSON: JSONText(3).Draw(t, "json")}
		}
		return Val{Kind: "json", JSON: JSONText(3).Draw(t, "json")}
	})
}
