package csched

import (
	"encoding/json"
	"os"
	"runtime"
	"testing"
	"testing/synctest"
)

func TestDebugCase(t *testing.T) {
	p := os.Getenv("DEBUG_CASE")
	if p == "" {
		t.Skip()
	}
	var c Case
	if err := json.Unmarshal([]byte(p), &c); err != nil {
		t.Fatal(err)
	}
	defer func() {
		if v := recover(); v != nil {
			t.Logf("panic: %v", v)
		}
	}()
	synctest.Test(t, func(*testing.T) {
		out := run(c)
		t.Logf("viol: %v", out.Viol)
		t.Logf("trace: %v", out.Trace)
		buf := make([]byte, 1<<20)
		n := runtime.Stack(buf, true)
		t.Logf("%s", buf[:n])
	})
}
