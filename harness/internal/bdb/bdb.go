// Package bdb opens small BadgerDB databases for the harness.
package bdb

import (
	"os"
	"path/filepath"
	"sync/atomic"

	"github.com/dgraph-io/badger"
)

var seq int64

// TempDir returns a fresh directory under $VERIF_WORK (or the system temp dir).
func TempDir(prefix string) string {
	base := os.Getenv("VERIF_WORK")
	if base == "" {
		base = os.TempDir()
	}
	n := atomic.AddInt64(&seq, 1)
	d := filepath.Join(base, prefix+"-"+itoa(int64(os.Getpid()))+"-"+itoa(n))
	_ = os.MkdirAll(d, 0o755)
	return d
}

func itoa(n int64) string {
	if n == 0 {
		return "0"
	}
	var b []byte
	for n > 0 {
		b = append([]byte{byte('0' + n%10)}, b...)
		n /= 10
	}
	return string(b)
}

// Options returns options for a small, quiet database.
func Options(dir string) badger.Options {
	o := badger.DefaultOptions(dir)
	o.Logger = nil
	o.SyncWrites = false
	o.MaxTableSize = 1 << 20
	o.ValueLogFileSize = 1 << 20
	o.NumMemtables = 2
	o.NumLevelZeroTables = 2
	o.NumLevelZeroTablesStall = 4
	o.NumCompactors = 2
	o.ValueLogMaxEntries = 100000
	return o
}

// Open opens (or creates) a database in dir.
func Open(dir string) (*badger.DB, error) {
	return badger.Open(Options(dir))
}

// OpenTemp opens a database in a fresh directory; cleanup closes and removes it.
func OpenTemp(prefix string) (db *badger.DB, dir string, cleanup func(), err error) {
	dir = TempDir(prefix)
	db, err = Open(dir)
	if err != nil {
		return nil, dir, func() { _ = os.RemoveAll(dir) }, err
	}
	return db, dir, func() { _ = db.Close(); _ = os.RemoveAll(dir) }, nil
}
