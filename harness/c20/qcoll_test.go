package c20

import (
	"encoding/json"
	"fmt"
	"net/url"
	"os"
	"sort"
	"strconv"
	"strings"
	"testing"
	"time"

	res "github.com/jirenius/go-res"
	"github.com/jirenius/go-res/middleware/resbadger"
	"pgregory.net/rapid"

	"verifharness/internal/bdb"
	"verifharness/internal/evid"
	"verifharness/internal/fakeconn"
	"verifharness/internal/svc"
)

// QStep is one model event of a query-collection history.
type QStep struct {
	K  string `json:"k"` // create changea changen delete rebuild reopen
	ID string `json:"id"`
	A  string `json:"a,omitempty"`
	N  int    `json:"n,omitempty"`
}

// QQuery is a query held by a client of the query collection.
type QQuery struct {
	Idx    string `json:"idx"`
	Prefix string `json:"prefix"`
	Rev    bool   `json:"rev,omitempty"`
	Off    int    `json:"off,omitempty"`
	Lim    int    `json:"lim"`
	Filter bool   `json:"filter,omitempty"` // keep keys of even length only
}

func (q QQuery) String() string {
	v := url.Values{"idx": {q.Idx}, "prefix": {q.Prefix}, "off": {strconv.Itoa(q.Off)}, "lim": {strconv.Itoa(q.Lim)}}
	if q.Rev {
		v.Set("rev", "1")
	}
	if q.Filter {
		v.Set("filter", "1")
	}
	return v.Encode()
}

// QCase is a query-collection case.
type QCase struct {
	Map     bool     `json:"map"` // the model is served through a Map callback
	Steps   []QStep  `json:"steps"`
	Queries []QQuery `json:"queries"`
}

func (c QCase) String() string { b, _ := json.Marshal(c); return string(b) }

func qIndexKey(idx string, t T) []byte {
	switch idx {
	case "idxa":
		if t.A == "" {
			return nil
		}
		return []byte(t.A)
	default:
		return []byte(strconv.Itoa(int(t.N) % 3))
	}
}

// qReference computes the query collection a query must yield for the given models.
func qReference(models map[string]T, q QQuery) []string {
	type ent struct{ k, rid string }
	var es []ent
	for id, t := range models {
		k := qIndexKey(q.Idx, t)
		if len(k) == 0 || !strings.HasPrefix(string(k), q.Prefix) {
			continue
		}
		if q.Filter && len(k)%2 != 0 {
			continue
		}
		es = append(es, ent{string(k) + "\x00svc.m." + id, "svc.m." + id})
	}
	sort.Slice(es, func(i, j int) bool { return es[i].k < es[j].k })
	if q.Rev {
		for i, j := 0, len(es)-1; i < j; i, j = i+1, j-1 {
			es[i], es[j] = es[j], es[i]
		}
	}
	out := []string{}
	if q.Lim == 0 {
		return out
	}
	for i, e := range es {
		if i < q.Off {
			continue
		}
		if q.Lim > 0 && len(out) >= q.Lim {
			break
		}
		out = append(out, e.rid)
	}
	return out
}

type qfix struct {
	dir   string
	c     QCase
	s     *res.Service
	conn  *fakeconn.Conn
	rn    *svc.Runner
	model resbadger.Model
	stop  func()
	// listener call counts
	anyCalls, aCalls int
}

func (f *qfix) open() error {
	db, err := bdb.Open(f.dir)
	if err != nil {
		return err
	}
	is := &resbadger.IndexSet{Indexes: []resbadger.Index{
		{Name: "idxa", Key: func(v interface{}) []byte { return qIndexKey("idxa", v.(T)) }},
		{Name: "idxn", Key: func(v interface{}) []byte { return qIndexKey("idxn", v.(T)) }},
	}}
	is.Listen(func(r res.Resource, before, after interface{}) { f.anyCalls++ })
	is.ListenIndex("idxa", func(r res.Resource, before, after interface{}) { f.aCalls++ })
	if _, err := is.GetIndex("idxn"); err != nil {
		return err
	}
	base := resbadger.BadgerDB{}.WithDB(db)
	f.model = base.Model().WithType(T{}).WithIndexSet(is)
	if f.c.Map {
		f.model = f.model.WithMap(func(v interface{}) (interface{}, error) {
			t := v.(T)
			return map[string]interface{}{"a": t.A, "n": t.N, "mapped": true}, nil
		})
	}
	qc := base.QueryCollection().WithIndexSet(is).WithQueryCallback(func(idxs *resbadger.IndexSet, rname string, params map[string]string, q url.Values) (*resbadger.IndexQuery, string, error) {
		idx, err := idxs.GetIndex(q.Get("idx"))
		if err != nil {
			return nil, "", &res.Error{Code: res.CodeInvalidQuery, Message: err.Error()}
		}
		off, _ := strconv.Atoi(q.Get("off"))
		lim, err := strconv.Atoi(q.Get("lim"))
		if err != nil {
			lim = -1
		}
		iq := &resbadger.IndexQuery{Index: idx, KeyPrefix: []byte(q.Get("prefix")), Offset: off, Limit: lim, Reverse: q.Get("rev") == "1"}
		if q.Get("filter") == "1" {
			iq.FilterKeys = func(k []byte) bool { return len(k)%2 == 0 }
		}
		return iq, "", nil
	})
	s := res.NewService("svc")
	s.SetWorkerCount(1)
	s.Handle("m.$id", f.model)
	s.Handle("qc", qc)
	f.s = s
	f.conn = fakeconn.New()
	rn, err := svc.Start(s, f.conn, nil)
	if err != nil {
		_ = db.Close()
		return err
	}
	f.rn = rn
	f.stop = func() { _ = rn.Stop(); _ = db.Close() }
	return nil
}

func (f *qfix) request(subject, payload string) ([]byte, error) {
	reply, n := f.rn.Send(subject, []byte(payload))
	if n != 1 {
		return nil, fmt.Errorf("%s not delivered (%d)", subject, n)
	}
	if err := f.rn.WaitDone(reply, 1); err != nil {
		return nil, err
	}
	_, resp := f.rn.Replies(reply)
	if len(resp) != 1 {
		return nil, fmt.Errorf("%s: %d responses", subject, len(resp))
	}
	return resp[0], nil
}

func sleepShort() { time.Sleep(50 * time.Microsecond) }

func refsOf(raw json.RawMessage) ([]string, bool) {
	var l []struct {
		RID string `json:"rid"`
	}
	if err := json.Unmarshal(raw, &l); err != nil {
		return nil, false
	}
	out := []string{}
	for _, x := range l {
		out = append(out, x.RID)
	}
	return out, true
}

func (f *qfix) getQuery(q QQuery) ([]string, error) {
	b, err := f.request("get.svc.qc", fmt.Sprintf(`{"query":%q}`, q.String()))
	if err != nil {
		return nil, err
	}
	var p struct {
		Result *struct {
			Collection json.RawMessage `json:"collection"`
			Query      string          `json:"query"`
		} `json:"result"`
	}
	if json.Unmarshal(b, &p) != nil || p.Result == nil {
		return nil, fmt.Errorf("get svc.qc?%s answered %s", q, b)
	}
	if string(p.Result.Collection) == "null" || len(p.Result.Collection) == 0 {
		return []string{}, nil
	}
	refs, ok := refsOf(p.Result.Collection)
	if !ok {
		return nil, fmt.Errorf("get svc.qc?%s answered %s", q, b)
	}
	return refs, nil
}

func runQColl(c QCase) (msg string, nontrivial bool) {
	f := &qfix{dir: bdb.TempDir("c20q"), c: c}
	defer os.RemoveAll(f.dir)
	if err := f.open(); err != nil {
		return svc.Verdict(err), false
	}
	defer func() { f.stop() }()
	models := map[string]T{}
	for i, st := range c.Steps {
		where := fmt.Sprintf("step %d %+v", i, st)
		switch st.K {
		case "reopen":
			f.stop()
			if err := f.open(); err != nil {
				return "VERIF-INCONCLUSIVE: reopen: " + err.Error(), nontrivial
			}
			continue
		case "rebuild":
			if err := f.model.RebuildIndexes("svc.m.$id"); err != nil {
				return fmt.Sprintf("%s: RebuildIndexes failed: %v", where, err), nontrivial
			}
		default:
			old, exists := models[st.ID]
			var next *T
			switch st.K {
			case "create":
				if exists {
					continue
				}
				next = &T{A: st.A, N: float64(st.N)}
			case "changea":
				if !exists || old.A == st.A {
					continue
				}
				next = &T{A: st.A, N: old.N}
			case "changen":
				if !exists || old.N == float64(st.N) {
					continue
				}
				next = &T{A: old.A, N: float64(st.N)}
			case "delete":
				if !exists {
					continue
				}
			}
			before := map[string][]string{}
			for _, q := range c.Queries {
				before[q.String()] = qReference(models, q)
			}
			mark := f.conn.LogLen()
			any0, a0 := f.anyCalls, f.aCalls
			done := make(chan interface{}, 1)
			if err := f.s.With("svc.m."+st.ID, func(r res.Resource) {
				defer func() { done <- recover() }()
				switch st.K {
				case "create":
					r.CreateEvent(*next)
				case "changea":
					r.ChangeEvent(map[string]interface{}{"a": st.A})
				case "changen":
					r.ChangeEvent(map[string]interface{}{"n": st.N})
				default:
					r.DeleteEvent()
				}
			}); err != nil {
				return fmt.Sprintf("%s: With: %v", where, err), nontrivial
			}
			if p := <-done; p != nil {
				return fmt.Sprintf("%s: a valid event failed: %v", where, p), nontrivial
			}
			if next != nil {
				models[st.ID] = *next
			} else {
				delete(models, st.ID)
			}
			// index listeners: called exactly when a key of (that) index changed
			var ob, nb *T
			if exists {
				o := old
				ob = &o
			}
			nb = next
			keyOf := func(idx string, t *T) string {
				if t == nil {
					return "\x00absent"
				}
				return string(qIndexKey(idx, *t))
			}
			aChanged := keyOf("idxa", ob) != keyOf("idxa", nb) && (len(keyOf("idxa", ob)) > 0 || len(keyOf("idxa", nb)) > 0)
			if ob == nil && len(qIndexKey("idxa", *nb)) == 0 || nb == nil && len(qIndexKey("idxa", *ob)) == 0 {
				aChanged = false // not indexed before and after
			}
			nChanged := keyOf("idxn", ob) != keyOf("idxn", nb)
			if got := f.aCalls - a0; (got > 0) != aChanged || got > 1 {
				return fmt.Sprintf("%s: the listener of index idxa was called %d times, its key changed=%v", where, got, aChanged), nontrivial
			}
			if got := f.anyCalls - any0; (got > 0) != (aChanged || nChanged) || got > 1 {
				return fmt.Sprintf("%s: the index-set listener was called %d times, some key changed=%v", where, got, aChanged || nChanged), nontrivial
			}
			// query events of the query collection, answered like a gateway would
			var qsubjects []string
			for _, e := range f.conn.LogFrom(mark) {
				if e.Kind == "pub" && e.Subject == "event.svc.qc.query" {
					var p struct{ Subject string }
					_ = json.Unmarshal(e.Data, &p)
					qsubjects = append(qsubjects, p.Subject)
				}
			}
			for _, q := range c.Queries {
				want := qReference(models, q)
				changed := fmt.Sprint(before[q.String()]) != fmt.Sprint(want)
				if changed {
					nontrivial = true
				}
				told := false
				for _, subj := range qsubjects {
					reply := f.rn.NewReply()
					if n := f.conn.Deliver(subj, reply, []byte(fmt.Sprintf(`{"query":%q}`, q.String()))); n != 1 {
						return fmt.Sprintf("%s: query request not delivered on %s", where, subj), nontrivial
					}
					var resp [][]byte
					for spin := 0; spin < 200000; spin++ {
						_, resp = f.rn.Replies(reply)
						if len(resp) > 0 {
							break
						}
						if spin%100 == 99 {
							sleepShort()
						}
					}
					if len(resp) != 1 {
						return fmt.Sprintf("%s: query request for %s got %d responses", where, q, len(resp)), nontrivial
					}
					var p struct {
						Result *struct {
							Collection json.RawMessage   `json:"collection"`
							Events     []json.RawMessage `json:"events"`
						} `json:"result"`
					}
					if json.Unmarshal(resp[0], &p) != nil || p.Result == nil {
						return fmt.Sprintf("%s: query request for %s answered %s", where, q, resp[0]), nontrivial
					}
					if p.Result.Collection != nil {
						refs, ok := refsOf(p.Result.Collection)
						if string(p.Result.Collection) == "null" {
							refs, ok = []string{}, true
						}
						if !ok || fmt.Sprint(refs) != fmt.Sprint(want) {
							return fmt.Sprintf("%s: query request for %s answered collection %s, the indexed models give %v", where, q, p.Result.Collection, want), nontrivial
						}
						told = true
					} else if len(p.Result.Events) > 0 {
						told = true // events are not produced by this middleware; accept as a notification
					}
				}
				if changed && !told {
					return fmt.Sprintf("%s: the result of query %s changed from %v to %v but a client holding it is told nothing (%d query events)", where, q, before[q.String()], want, len(qsubjects)), nontrivial
				}
			}
		}
		// the model and every held query as served by get
		for id, t := range models {
			b, err := f.request("get.svc.m."+id, "")
			if err != nil {
				return svc.Verdict(err), nontrivial
			}
			var p struct {
				Result *struct {
					Model map[string]interface{} `json:"model"`
				} `json:"result"`
			}
			if json.Unmarshal(b, &p) != nil || p.Result == nil || p.Result.Model["a"] != t.A || p.Result.Model["n"] != t.N || (c.Map && p.Result.Model["mapped"] != true) {
				return fmt.Sprintf("%s: get svc.m.%s answers %s, the fold is %+v (map callback=%v)", where, id, b, t, c.Map), nontrivial
			}
		}
		for _, q := range c.Queries {
			got, err := f.getQuery(q)
			if err != nil {
				return fmt.Sprintf("%s: %v", where, err), nontrivial
			}
			if want := qReference(models, q); fmt.Sprint(got) != fmt.Sprint(want) {
				return fmt.Sprintf("%s: get svc.qc?%s returns %v, the indexed models give %v (models %v)", where, q, got, want, models), nontrivial
			}
		}
	}
	return "", nontrivial
}

func TestPropQueryCollection(t *testing.T) {
	rapid.Check(t, func(rt *rapid.T) {
		c := QCase{Map: rapid.Bool().Draw(rt, "map")}
		n := rapid.IntRange(1, 20).Draw(rt, "nsteps")
		for i := 0; i < n; i++ {
			c.Steps = append(c.Steps, QStep{
				// (RebuildIndexes is an administrative operation the property does not speak about: not generated)
				K:  rapid.SampledFrom([]string{"create", "create", "changea", "changea", "changen", "delete", "reopen"}).Draw(rt, "k"),
				ID: rapid.SampledFrom([]string{"1", "2", "3", "4"}).Draw(rt, "id"),
				A:  rapid.SampledFrom([]string{"a", "b", "ab", "aa", "ba", "", "a~", "a\x00b", "a\x00", "\x00"}).Draw(rt, "a"),
				N:  rapid.IntRange(0, 5).Draw(rt, "n"),
			})
		}
		nq := rapid.IntRange(1, 4).Draw(rt, "nq")
		for i := 0; i < nq; i++ {
			q := QQuery{Idx: rapid.SampledFrom([]string{"idxa", "idxa", "idxn"}).Draw(rt, "idx"), Rev: rapid.IntRange(0, 2).Draw(rt, "rev") == 0,
				Off: rapid.SampledFrom([]int{0, 0, 0, 1, 2}).Draw(rt, "off"), Lim: rapid.SampledFrom([]int{-1, -1, -1, 0, 1, 2}).Draw(rt, "lim"), Filter: rapid.IntRange(0, 4).Draw(rt, "filter") == 0}
			if q.Idx == "idxa" {
				q.Prefix = rapid.SampledFrom([]string{"", "", "a", "b", "ab", "a~", "c"}).Draw(rt, "prefix")
			} else {
				q.Prefix = rapid.SampledFrom([]string{"", "1", "2"}).Draw(rt, "nprefix")
			}
			c.Queries = append(c.Queries, q)
		}
		msg, nt := runQColl(c)
		ev.Case(nt, evid.Hash("qcoll", c.String()), "query-collection")
		if msg != "" {
			rt.Fatalf("%s\ncase: %s", msg, c)
		}
	})
}

// ---- regression tier ---------------------------------------------------------------

func TestRegressQueryCollectionReverse(t *testing.T) {
	c := QCase{Steps: []QStep{{K: "create", ID: "1", A: "a"}, {K: "create", ID: "2", A: "ab"}}, Queries: []QQuery{{Idx: "idxa", Prefix: "", Rev: true, Lim: -1}, {Idx: "idxa", Prefix: "a", Rev: true, Lim: 1}}}
	msg, _ := runQColl(c)
	evid.ReportKnown(t, prop, "C20-resbadger-reverse-query-empty", msg != "", msg, c)
	ev.Case(true, evid.Hash("regress-qcoll-reverse"), "regress")
}

func TestRegressResbadgerDeleteUndecodable(t *testing.T) {
	// a typed resbadger model without index set whose stored JSON no longer fits the type (a
	// change event stored a string in a number field): the delete event must go through
	c := Case{Cfg: Cfg{Pkg: "resbadger", Typed: true}, Steps: []Step{
		{K: "create", RID: "svc.m.1", V: `{"a":"x","n":1}`},
		{K: "change", RID: "svc.m.1", Vals: map[string]string{"n": `"not a number"`}},
		{K: "delete", RID: "svc.m.1"},
		{K: "get", RID: "svc.m.1"},
	}}
	msg, _ := run(c)
	evid.ReportKnown(t, prop, "C20-resbadger-delete-fails-after-deleting", msg != "", msg, c)
	ev.Case(true, evid.Hash("regress-delete-undecodable"), "regress")
}
