// Package reqcase generates and executes request-pipeline cases: a service
// with a generated handler set, a list of generated requests each carrying a
// handler behaviour script, executed against the real service on a fakeconn.
package reqcase

import (
	"encoding/json"
	"fmt"
	"sort"
	"strconv"
	"strings"
	"sync"
	"time"

	res "github.com/jirenius/go-res"
	nats "github.com/nats-io/nats.go"
	"pgregory.net/rapid"

	"verifharness/internal/fakeconn"
	"verifharness/internal/gen"
	"verifharness/internal/refmux"
	"verifharness/internal/script"
	"verifharness/internal/svc"
)

// HandlerSpec describes the handlers registered on one pattern.
type HandlerSpec struct {
	Pattern string   `json:"pattern"` // relative to the service name
	Type    string   `json:"type,omitempty"`
	Access  bool     `json:"access,omitempty"`
	Get     bool     `json:"get,omitempty"`
	Calls   []string `json:"calls,omitempty"`
	New     bool     `json:"new,omitempty"`
	Auths   []string `json:"auths,omitempty"`
	// Mounted registers the handler on a sub-mux mounted on the pattern's first (literal) token.
	Mounted   bool   `json:"mounted,omitempty"`
	ValueMode string `json:"valueMode,omitempty"` // behaviour of the get handler when called for Value(): ok, error, panic, none, qmodel, collection, ... (see Build)
	Group     string `json:"group,omitempty"`
	Parallel  bool   `json:"parallel,omitempty"`
}

// ReqSpec is one request.
type ReqSpec struct {
	Subject string        `json:"subject"`
	Payload string        `json:"payload"` // raw bytes sent
	Script  script.Script `json:"script"`
	// derived (filled by the generator, recomputed on replay)
	Fields map[string]json.RawMessage `json:"fields,omitempty"` // the object members sent, nil if payload is not a JSON object
}

// Case is a whole case.
type Case struct {
	Name     string        `json:"name"`
	Workers  int           `json:"workers"`
	Handlers []HandlerSpec `json:"handlers"`
	Reqs     []ReqSpec     `json:"reqs"`
	// Noise is the number of goroutines that keep calling Service.Resource on the
	// batch's resource names while a concurrent batch is served (RunConcurrent only).
	Noise int `json:"noise,omitempty"`
	// NoLogger serves the case on a service configured with SetLogger(nil).
	NoLogger bool `json:"noLogger,omitempty"`
	// NoQueue serves the case without a queue group.
	NoQueue bool `json:"noQueue,omitempty"`
	// ServeTwice calls Serve a second time on the running service (must be refused).
	ServeTwice bool `json:"serveTwice,omitempty"`
	// NoReplyDup publishes every request once more without reply subject beforehand.
	NoReplyDup bool `json:"noReplyDup,omitempty"`
	// FailPub > 1: the connection refuses its FailPub-th publish, once (as a server does
	// with a payload above its limit); everything before and after is accepted (Run only).
	FailPub int `json:"failPub,omitempty"`
	// WideOwnership: the service owns everything (SetOwnedResources with ">"), so that it also
	// gets requests for names outside its own name space: there is no resource for them.
	WideOwnership bool `json:"wideOwnership,omitempty"`
}

func (c Case) String() string {
	b, _ := json.Marshal(c)
	return string(b)
}

// Record is what a handler saw.
type Record struct {
	Marker     string
	Type       string
	Method     string
	RName      string
	PathParams map[string]string
	Query      string
	Group      string
	CID        string
	RawParams  json.RawMessage
	RawToken   json.RawMessage
	Header     map[string][]string
	Host       string
	RemoteAddr string
	URI        string
	IsHTTP     bool
	ForValue   bool
	ResType    res.ResourceType
	// Drift, when set, marks an extra record (ForValue is set too, so that it does not count
	// as an invocation): what the request object reported when the handler was done differs
	// from what it reported when the handler began.
	Drift string
}

// Obs is what was observed for one request.
type Obs struct {
	Reply     string
	Delivered int
	Pre       [][]byte
	Resp      [][]byte
	Records   []Record // handler invocations attributed to this request (incl. nested get for Value)
	Done      int
}

// Result of running a case.
type Result struct {
	// NoReplyPubs lists what the service published in reaction to messages without reply subject.
	NoReplyPubs []string
	Obs         []Obs
	Log         []fakeconn.Entry
	ProbeOK     bool
	// FailedPub is the subject of the publish that the connection refused (FailPub).
	FailedPub string
	Errors    []string
	StartErr  error
	StopErr   error
	WaitErr   error
	ServiceOK bool
}

type runState struct {
	mu      sync.Mutex
	cur     int // index of the request being served (sequential mode)
	byKey   map[string]int
	byQuery map[string]int
	records map[int][]Record
	c       *Case
}

func (rs *runState) lookup(rtype, rname, method string) int {
	rs.mu.Lock()
	defer rs.mu.Unlock()
	if rs.byKey != nil {
		if i, ok := rs.byKey[rtype+" "+rname+" "+method]; ok {
			return i
		}
		return -1
	}
	return rs.cur
}

// lookupQuery finds a request of a concurrent batch by the id carried in its query.
func (rs *runState) lookupQuery(q string) (int, bool) {
	rs.mu.Lock()
	defer rs.mu.Unlock()
	if rs.byQuery == nil {
		return 0, false
	}
	i, ok := rs.byQuery[q]
	if !ok {
		return -1, true
	}
	return i, true
}

func (rs *runState) record(i int, r Record) {
	rs.mu.Lock()
	rs.records[i] = append(rs.records[i], r)
	rs.mu.Unlock()
}

func snapshot(marker string, r *res.Request) Record {
	return Record{
		Marker: marker, Type: r.Type(), Method: r.Method(), RName: r.ResourceName(), PathParams: r.PathParams(),
		Query: r.Query(), Group: r.Group(), CID: r.CID(), RawParams: append(json.RawMessage(nil), r.RawParams()...),
		RawToken: append(json.RawMessage(nil), r.RawToken()...), Header: r.Header(), Host: r.Host(), RemoteAddr: r.RemoteAddr(),
		URI: r.URI(), IsHTTP: r.IsHTTP(), ResType: r.ResourceType(),
	}
}

// Marker builds the marker of a handler.
func Marker(hi int, kind, method string) string {
	return strconv.Itoa(hi) + "/" + kind + "/" + method
}

// Build registers the case's handlers on a new service.
func Build(c *Case, rs *runState) *res.Service {
	s := res.NewService(c.Name)
	// sub-muxes are mounted first: mounting on a token that already carries patterns is refused
	mounts := map[string]*res.Mux{}
	for _, hs := range c.Handlers {
		if toks := refmux.Tokens(hs.Pattern); hs.Mounted && len(toks) >= 2 && refmux.Kind(toks[0]) == refmux.Lit && mounts[toks[0]] == nil {
			sub := res.NewMux("")
			s.Mount(toks[0], sub)
			mounts[toks[0]] = sub
		}
	}
	if c.WideOwnership {
		s.SetOwnedResources([]string{">"}, []string{">"})
	}
	s.SetWorkerCount(c.Workers) // 0 (or less) selects the default count
	if c.NoQueue {
		s.SetQueueGroup("") // plain subscriptions: nothing de-duplicates overlapping ones
	}
	for hi, hs := range c.Handlers {
		hi, hs := hi, hs
		var opts []res.Option
		if !hs.Get { // with a get handler the typed helpers GetModel / GetCollection set the type
			switch hs.Type {
			case "model":
				opts = append(opts, res.Model)
			case "collection":
				opts = append(opts, res.Collection)
			}
		}
		run := func(kind, method string, req interface{}) {
			r := req.(*res.Request)
			m := Marker(hi, kind, method)
			var rtype, mth string
			rtype, mth = r.Type(), r.Method()
			i := rs.lookup(rtype, r.ResourceName(), mth)
			if qi, ok := rs.lookupQuery(r.Query()); ok {
				i = qi
			}
			first := snapshot(m, r)
			rs.record(i, first)
			if i < 0 || i >= len(c.Reqs) {
				r.NotFound()
				return
			}
			// whatever the script does (nested Value calls, replies, panics), the request keeps
			// reporting what was sent
			defer func() {
				last := snapshot(m, r)
				for _, x := range [][3]string{{"Query", first.Query, last.Query}, {"ResourceName", first.RName, last.RName}, {"CID", first.CID, last.CID},
					{"Method", first.Method, last.Method}, {"Type", first.Type, last.Type}, {"Group", first.Group, last.Group},
					{"PathParams", fmt.Sprint(first.PathParams), fmt.Sprint(last.PathParams)}, {"RawParams", string(first.RawParams), string(last.RawParams)},
					{"RawToken", string(first.RawToken), string(last.RawToken)}} {
					if x[1] != x[2] {
						rs.record(i, Record{Marker: m, ForValue: true, Drift: fmt.Sprintf("%s was %q when the handler began and %q when it was done", x[0], x[1], x[2])})
						break
					}
				}
			}()
			script.Exec(c.Reqs[i].Script, r, nil)
		}
		if hs.Access {
			opts = append(opts, res.Access(func(r res.AccessRequest) { run("access", "", r) }))
		}
		if hs.Get {
			getFn := func(r res.GetRequest) {
				if r.ForValue() {
					i := rs.lookup("", "", "")
					rs.record(i, Record{Marker: Marker(hi, "get", ""), RName: r.ResourceName(), ForValue: true, PathParams: r.PathParams(), Query: r.Query()})
					switch hs.ValueMode {
					case "error":
						r.Error(&res.Error{Code: "custom.valueError", Message: "value failed"})
					case "panic":
						panic("value panic")
					case "none":
					case "qmodel":
						r.QueryModel(map[string]interface{}{"v": 1}, "q=1")
					case "collection":
						r.Collection([]interface{}{1, "a"})
					case "qcollection":
						r.QueryCollection([]interface{}{1}, "q=1")
					case "notfound":
						r.NotFound()
					case "invalidquery":
						r.InvalidQuery("")
					case "invalidquerymsg":
						r.InvalidQuery("bad q")
					case "nested":
						_, _ = r.Value() // not allowed inside a get handler: panics
					case "requirenested":
						_ = r.RequireValue()
					case "double":
						r.Model(map[string]interface{}{"v": 1})
						r.Model(map[string]interface{}{"v": 2})
					case "timeoutmodel":
						r.Timeout(time.Second)
						r.Model(map[string]interface{}{"v": 1})
					case "panicreserror":
						panic(&res.Error{Code: "custom.p", Message: "pm"})
					case "errorthenpanic":
						r.Error(&res.Error{Code: "custom.valueError", Message: "value failed"})
						panic("late")
					default:
						r.Model(map[string]interface{}{"v": 1})
					}
					return
				}
				run("get", "", r)
			}
			switch hs.Type {
			case "model":
				// the typed option helpers (they also set the resource type)
				opts = append(opts, res.GetModel(func(r res.ModelRequest) { getFn(r.(res.GetRequest)) }))
			case "collection":
				opts = append(opts, res.GetCollection(func(r res.CollectionRequest) { getFn(r.(res.GetRequest)) }))
			default:
				opts = append(opts, res.GetResource(getFn))
			}
		}
		for _, m := range hs.Calls {
			m := m
			if m == "set" {
				opts = append(opts, res.Set(func(r res.CallRequest) { run("call", m, r) }))
				continue
			}
			opts = append(opts, res.Call(m, func(r res.CallRequest) { run("call", m, r) }))
		}
		if hs.New {
			opts = append(opts, res.New(func(r res.NewRequest) { run("new", "", r) }))
		}
		for _, m := range hs.Auths {
			m := m
			opts = append(opts, res.Auth(m, func(r res.AuthRequest) { run("auth", m, r) }))
		}
		if hs.Group != "" {
			opts = append(opts, res.Group(hs.Group))
		}
		if hs.Parallel {
			opts = append(opts, res.Parallel(true))
		}
		if toks := refmux.Tokens(hs.Pattern); hs.Mounted && len(toks) >= 2 && refmux.Kind(toks[0]) == refmux.Lit {
			// registered on a sub-mux mounted on the pattern's first token (one per token)
			sub := mounts[toks[0]]
			sub.Handle(strings.Join(toks[1:], "."), opts...)
			continue
		}
		s.Handle(hs.Pattern, opts...)
	}
	// probe resource, always present
	s.Handle("verifprobe", res.GetModel(func(r res.ModelRequest) { r.Model(map[string]int{"alive": 1}) }))
	return s
}

// Run executes the case sequentially (one request at a time).
func Run(c *Case) *Result {
	rs := &runState{records: map[int][]Record{}, c: c, cur: -1}
	s := Build(c, rs)
	conn := fakeconn.New()
	out := &Result{}
	if c.FailPub > 1 {
		var fmu sync.Mutex
		conn.FailPublish = func(subject string, n int) error {
			if n != c.FailPub {
				return nil
			}
			fmu.Lock()
			out.FailedPub = subject
			fmu.Unlock()
			return nats.ErrMaxPayload
		}
	}
	startFn := svc.Start
	if c.NoLogger {
		startFn = svc.StartNoLog
	}
	r, err := startFn(s, conn, nil)
	if err != nil {
		out.StartErr = err
		return out
	}
	listened := int64(0)
	if c.ServeTwice {
		// Serve on a running service is refused and must leave it running
		if err := s.Serve(fakeconn.New()); err == nil {
			out.StartErr = fmt.Errorf("a second Serve call on a running service returned nil")
			_ = r.Stop()
			return out
		}
	}
	for i, rq := range c.Reqs {
		if c.NoReplyDup {
			// the same message published without a reply subject is not a request: it is
			// dropped (nothing runs, nothing is published)
			rs.mu.Lock()
			rs.cur = -1
			rs.mu.Unlock()
			before := conn.LogLen()
			if n := conn.Deliver(rq.Subject, "", []byte(rq.Payload)); n > 0 {
				listened += int64(n)
				if err := r.WaitListened(listened); err != nil {
					out.WaitErr = err
					break
				}
				for _, e := range conn.LogFrom(before) {
					if e.Kind == "pub" {
						out.NoReplyPubs = append(out.NoReplyPubs, e.Subject+" "+string(e.Data))
					}
				}
			}
		}
		rs.mu.Lock()
		rs.cur = i
		rs.mu.Unlock()
		reply, n := r.Send(rq.Subject, []byte(rq.Payload))
		ob := Obs{Reply: reply, Delivered: n}
		if n > 0 {
			listened += int64(n)
			if err := r.WaitListened(listened); err != nil {
				out.WaitErr = err
				break
			}
			if _, _, _, ok := svc.SplitSubject(rq.Subject); ok {
				if err := r.WaitDone(reply, n); err != nil {
					out.WaitErr = err
					break
				}
			}
		}
		ob.Done = r.DoneCount(reply)
		ob.Pre, ob.Resp = r.Replies(reply)
		out.Obs = append(out.Obs, ob)
	}
	rs.mu.Lock()
	rs.cur = -1
	rs.mu.Unlock()
	if out.WaitErr == nil {
		conn.FailPublish = nil // (the probe itself is never the refused publish)
		probe := "get." + c.Name + ".verifprobe"
		reply, n := r.Send(probe, nil)
		if n > 0 && r.WaitDone(reply, 1) == nil {
			_, resp := r.Replies(reply)
			out.ProbeOK = len(resp) == 1 && strings.Contains(string(resp[0]), `"alive":1`)
		}
	}
	out.StopErr = r.Stop()
	out.Log = conn.Log()
	out.Errors = r.Log.Errors()
	for i := range out.Obs {
		out.Obs[i].Records = rs.records[i]
	}
	return out
}

// TagQueries makes every request with a generated object payload carry a unique
// query ("i=<n>") so that a concurrent batch may contain many requests for the same
// resource; requests without such a payload get the default reply from the handler.
func TagQueries(c *Case) {
	for i := range c.Reqs {
		rq := &c.Reqs[i]
		if rq.Fields == nil {
			continue
		}
		rq.Fields["query"] = json.RawMessage(fmt.Sprintf(`"i=%d"`, i))
		keys := make([]string, 0, len(rq.Fields))
		for k := range rq.Fields {
			keys = append(keys, k)
		}
		sort.Strings(keys)
		var sb strings.Builder
		sb.WriteByte('{')
		for j, k := range keys {
			if j > 0 {
				sb.WriteByte(',')
			}
			kb, _ := json.Marshal(k)
			sb.Write(kb)
			sb.WriteByte(':')
			sb.Write(rq.Fields[k])
		}
		sb.WriteByte('}')
		rq.Payload = sb.String()
	}
}

// RunConcurrent sends all requests at once and waits until all were processed.
// Requests are matched to their scripts by the unique query set by TagQueries.
func RunConcurrent(c *Case) *Result {
	rs := &runState{records: map[int][]Record{}, c: c, byKey: map[string]int{}, byQuery: map[string]int{}}
	for i, rq := range c.Reqs {
		if q, ok := rq.Fields["query"]; ok {
			var qs string
			_ = json.Unmarshal(q, &qs)
			rs.byQuery[qs] = i
		}
	}
	s := Build(c, rs)
	s.SetInChannelSize(len(c.Reqs) + 16)
	conn := fakeconn.New()
	out := &Result{}
	startFn := svc.Start
	if c.NoLogger {
		startFn = svc.StartNoLog
	}
	r, err := startFn(s, conn, nil)
	if err != nil {
		out.StartErr = err
		return out
	}
	obs := make([]Obs, len(c.Reqs))
	stopNoise := make(chan struct{})
	var noiseWG sync.WaitGroup
	if c.Noise > 0 {
		rids := []string{c.Name + ".a.b.c.d.e.f.g", c.Name + ".x", c.Name + ".item.1.sub"}
		for _, rq := range c.Reqs {
			if _, rn, _, ok := svc.SplitSubject(rq.Subject); ok {
				rids = append(rids, rn)
			}
		}
		for g := 0; g < c.Noise; g++ {
			noiseWG.Add(1)
			go func(g int) {
				defer noiseWG.Done()
				for k := g; ; k++ {
					select {
					case <-stopNoise:
						return
					default:
					}
					_, _ = s.Resource(rids[k%len(rids)])
				}
			}(g)
		}
	}
	for i, rq := range c.Reqs {
		reply, n := r.Send(rq.Subject, []byte(rq.Payload))
		obs[i] = Obs{Reply: reply, Delivered: n}
	}
	for i := range obs {
		if obs[i].Delivered > 0 {
			if err := r.WaitDone(obs[i].Reply, obs[i].Delivered); err != nil {
				out.WaitErr = err
				break
			}
		}
	}
	close(stopNoise)
	noiseWG.Wait()
	if out.WaitErr == nil {
		reply, n := r.Send("get."+c.Name+".verifprobe", nil)
		if n > 0 && r.WaitDone(reply, 1) == nil {
			_, resp := r.Replies(reply)
			out.ProbeOK = len(resp) == 1
		}
	}
	out.StopErr = r.Stop()
	for i := range obs {
		obs[i].Done = r.DoneCount(obs[i].Reply)
		obs[i].Pre, obs[i].Resp = r.Replies(obs[i].Reply)
		obs[i].Records = rs.records[i]
	}
	out.Obs = obs
	out.Log = conn.Log()
	out.Errors = r.Log.Errors()
	return out
}

// ---- reference dispatch ------------------------------------------------------

// Dispatch is the reference routing decision for one request.
type Dispatch struct {
	WellFormed     bool
	Type           string
	RName          string
	Method         string
	Handler        int      // index of the handler spec selected by routing, -1 if none
	Marker         string   // marker of the handler function that must run, "" if none can be invoked
	Kind           string   // access/get/call/new/auth
	NoHandlerCodes []string // acceptable error codes when nothing can be invoked
	Silent         bool     // access request on a pattern without access handler: no response expected
	Params         map[string]string
	Group          string
	PayloadOK      bool // payload empty or a JSON object that decodes into the request structure
	PayloadObj     bool
	Probe          bool // the request targets the harness's own probe resource
}

func hasStr(a []string, s string) bool {
	for _, x := range a {
		if x == s {
			return true
		}
	}
	return false
}

// Route computes the reference dispatch for a request of case c.
func Route(c *Case, rq *ReqSpec) Dispatch {
	d := Dispatch{Handler: -1}
	d.Type, d.RName, d.Method, d.WellFormed = svc.SplitSubject(rq.Subject)
	if !d.WellFormed {
		return d
	}
	var entries []refmux.Entry
	for i, h := range c.Handlers {
		full := c.Name + "." + h.Pattern
		if h.Pattern == "" {
			full = c.Name
		}
		entries = append(entries, refmux.Entry{Pattern: full, Marker: i, Group: h.Group, Parallel: h.Parallel})
	}
	entries = append(entries, refmux.Entry{Pattern: c.Name + ".verifprobe", Marker: len(c.Handlers)})
	best, _ := refmux.Route(entries, d.RName)
	d.PayloadOK, d.PayloadObj = payloadOK(rq.Payload)
	if best == nil || best.Marker >= len(c.Handlers) {
		d.NoHandlerCodes = []string{res.CodeNotFound}
		if best == nil && !d.PayloadOK {
			d.NoHandlerCodes = append(d.NoHandlerCodes, res.CodeInternalError)
		}
		if best != nil { // the probe resource
			d.Probe = true
			d.Handler = best.Marker
			if d.Type == "get" {
				d.NoHandlerCodes = nil
			} else if d.Type == "access" {
				d.Silent = true
			} else {
				d.NoHandlerCodes = []string{res.CodeMethodNotFound}
			}
			if !d.PayloadOK {
				d.NoHandlerCodes = append(d.NoHandlerCodes, res.CodeInternalError)
				d.Silent = false
			}
		}
		return d
	}
	h := c.Handlers[best.Marker]
	d.Handler = best.Marker
	d.Params = refmux.Params(best.Pattern, d.RName)
	d.Group = refmux.GroupOf(best, d.RName)
	if !d.PayloadOK {
		d.NoHandlerCodes = []string{res.CodeInternalError}
		// other "nothing can be invoked" conditions may hold at once; the property does not rank them
		switch d.Type {
		case "get":
			if !h.Get {
				d.NoHandlerCodes = append(d.NoHandlerCodes, res.CodeNotFound)
			}
		case "call":
			if !(hasStr(h.Calls, d.Method) || hasStr(h.Calls, "*") || d.Method == "new" && h.New) {
				d.NoHandlerCodes = append(d.NoHandlerCodes, res.CodeMethodNotFound)
			}
		case "auth":
			if !(hasStr(h.Auths, d.Method) || hasStr(h.Auths, "*")) {
				d.NoHandlerCodes = append(d.NoHandlerCodes, res.CodeMethodNotFound)
			}
		case "access":
			if !h.Access {
				d.Silent = true // may stay unanswered
			}
		}
		return d
	}
	switch d.Type {
	case "access":
		if h.Access {
			d.Kind, d.Marker = "access", Marker(d.Handler, "access", "")
		} else {
			d.Silent = true
		}
	case "get":
		if h.Get {
			d.Kind, d.Marker = "get", Marker(d.Handler, "get", "")
		} else {
			d.NoHandlerCodes = []string{res.CodeNotFound}
		}
	case "call":
		switch {
		case d.Method == "new" && h.New:
			d.Kind, d.Marker = "new", Marker(d.Handler, "new", "")
		case hasStr(h.Calls, d.Method):
			d.Kind, d.Marker = "call", Marker(d.Handler, "call", d.Method)
		case hasStr(h.Calls, "*"):
			d.Kind, d.Marker = "call", Marker(d.Handler, "call", "*")
		default:
			d.NoHandlerCodes = []string{res.CodeMethodNotFound}
		}
	case "auth":
		switch {
		case hasStr(h.Auths, d.Method):
			d.Kind, d.Marker = "auth", Marker(d.Handler, "auth", d.Method)
		case hasStr(h.Auths, "*"):
			d.Kind, d.Marker = "auth", Marker(d.Handler, "auth", "*")
		default:
			d.NoHandlerCodes = []string{res.CodeMethodNotFound}
		}
	}
	return d
}

// reqShape mirrors the protocol's request object member types.
type reqShape struct {
	CID        *string              `json:"cid"`
	Params     json.RawMessage      `json:"params"`
	Token      json.RawMessage      `json:"token"`
	Header     *map[string][]string `json:"header"`
	Host       *string              `json:"host"`
	RemoteAddr *string              `json:"remoteAddr"`
	URI        *string              `json:"uri"`
	Query      *string              `json:"query"`
	IsHTTP     *bool                `json:"isHttp"`
}

func payloadOK(p string) (ok, obj bool) {
	if len(p) == 0 {
		return true, false
	}
	var sh reqShape
	if err := json.Unmarshal([]byte(p), &sh); err != nil {
		return false, false
	}
	t := strings.TrimLeft(p, " \t\r\n")
	return true, strings.HasPrefix(t, "{")
}

// ---- generators ----------------------------------------------------------------

var patternPool = []string{"", "$t.$u", "model", "item.$id", "item.$id.sub", "col.>", "a.new.set", "call.get", "$x.y", "*", "item.*.other", "deep.$a.$b.c", "get", "x.new", "item.fixed"}

// GenHandlers generates 1-3 handler specs with structurally distinct patterns.
func GenHandlers() *rapid.Generator[[]HandlerSpec] {
	return rapid.Custom(func(t *rapid.T) []HandlerSpec {
		n := rapid.IntRange(1, 3).Draw(t, "nh")
		var hs []HandlerSpec
		seen := map[string]bool{}
		for len(hs) < n {
			p := rapid.SampledFrom(patternPool).Draw(t, "pattern")
			if seen[refmux.StructKey(p)] {
				if p == "" {
					p = "u" + strconv.Itoa(len(hs))
				} else {
					p = "u" + strconv.Itoa(len(hs)) + "." + p
				}
			}
			seen[refmux.StructKey(p)] = true
			h := HandlerSpec{Pattern: p}
			h.Mounted = rapid.IntRange(0, 3).Draw(t, "mounted") == 0
			h.Type = rapid.SampledFrom([]string{"", "model", "collection"}).Draw(t, "type")
			h.Access = rapid.IntRange(0, 2).Draw(t, "access") > 0
			h.Get = rapid.IntRange(0, 3).Draw(t, "get") > 0
			h.Calls = rapid.SampledFrom([][]string{nil, {"set"}, {"*"}, {"set", "*"}, {"new"}, {"foo", "bar", "new", "*"}, {"get"}}).Draw(t, "calls")
			h.New = rapid.IntRange(0, 3).Draw(t, "new") == 0
			h.Auths = rapid.SampledFrom([][]string{nil, {"login"}, {"*"}, {"login", "*"}}).Draw(t, "auths")
			h.ValueMode = rapid.SampledFrom([]string{"ok", "ok", "error", "panic", "none", "qmodel", "collection", "qcollection", "notfound", "invalidquery", "invalidquerymsg", "nested", "requirenested", "double", "timeoutmodel", "panicreserror", "errorthenpanic"}).Draw(t, "vmode")
			switch rapid.IntRange(0, 7).Draw(t, "grp") {
			case 0, 1:
				h.Group = "shared"
			case 2:
				// a group that is spelled like another resource's name (its default group)
				h.Group = rapid.SampledFrom([]string{"svc.model", "svc.get", "svc.item.fixed", "svc.item.1", "svc.x.new", "svc.item.1.sub"}).Draw(t, "namegroup")
			}
			if !h.Access && !h.Get && len(h.Calls) == 0 && !h.New && len(h.Auths) == 0 {
				h.Get = true
			}
			hs = append(hs, h)
		}
		return hs
	})
}

// ExoticNames lets generated resource names hold parts outside the protocol's character
// range (non-ASCII). Only a check that claims nothing about what is published for such a
// name sets it (C04: the request is still answered once).
var ExoticNames bool

func instantiate(t *rapid.T, name, pattern string, extra ...string) string {
	if pattern == "" {
		return name // the root resource, named like the service
	}
	var out []string
	// (extra: literal tokens of the other handlers' patterns, so that placeholders also take
	// values that lead into other branches of the mux, e.g. into a mounted sub-mux)
	pool := []string{"1", "42", "a", "new", "get", "set", "x-y", "$z", "call", "ID", "q\"x", "b\\c"}
	if ExoticNames {
		pool = append(pool, "josé", "ü")
	}
	part := rapid.SampledFrom(append(pool, extra...))
	for _, tk := range refmux.Tokens(pattern) {
		switch refmux.Kind(tk) {
		case refmux.Lit:
			out = append(out, tk)
		case refmux.Full:
			// (now and then a name of several dozen parts)
			k := rapid.SampledFrom([]int{1, 1, 2, 2, 3, 3, 3, 31, 40}).Draw(t, "nfull")
			for i := 0; i < k; i++ {
				out = append(out, part.Draw(t, "part"))
			}
		default:
			out = append(out, part.Draw(t, "part"))
		}
	}
	return name + "." + strings.Join(out, ".")
}

// GenPayload generates a request payload; it returns the raw text and, when it
// is a JSON object built by us, its members.
func GenPayload(rtype string) *rapid.Generator[ReqSpec] {
	return rapid.Custom(func(t *rapid.T) ReqSpec {
		var rq ReqSpec
		switch k := rapid.IntRange(0, 19).Draw(t, "pkind"); {
		case k == 0:
			rq.Payload = ""
			return rq
		case k == 1:
			rq.Payload = rapid.SampledFrom([]string{"{", "nope", "[1,2]", "\"str\"", "42", "{\"cid\":5}", "{\"params\":}", "\x00", "{\"isHttp\":\"yes\"}", "{\"header\":{\"a\":\"b\"}}", "null", " ",
				// a complete object followed by further bytes is not a JSON text
				"{} trailing", "{\"cid\":\"abc\"}]", "{\"params\":1}{\"params\":2}", "{\"cid\":\"abc\",\"params\":{\"a\":1}} {]", "{}}"}).Draw(t, "malformed")
			return rq
		case k == 2:
			rq.Payload = "{}"
			rq.Fields = map[string]json.RawMessage{}
			return rq
		}
		f := map[string]json.RawMessage{}
		put := func(key string, g *rapid.Generator[string], pm int) {
			if rapid.IntRange(0, 99).Draw(t, "has-"+key) < pm {
				f[key] = json.RawMessage(g.Draw(t, key))
			}
		}
		strJSON := func(g *rapid.Generator[string]) *rapid.Generator[string] {
			return rapid.Map(g, func(s string) string { b, _ := json.Marshal(s); return string(b) })
		}
		put("cid", strJSON(rapid.SampledFrom([]string{"abc123", "bmgqh3tk9g4cf9qdmv3g", "c", "", "a.b"})), 70)
		put("params", rapid.OneOf(rapid.SampledFrom([]string{"5", "null", "{\"a\":1}", "[1, 2]", "\"x\"", "{ \"spaced\" : true }",
			// payloads of more than a kilobyte
			"\"" + strings.Repeat("0123456789abcdef", 80) + "\"", "[" + strings.Repeat("1234567,", 200) + "0]"}), gen.JSONText(2)), 60)
		put("token", rapid.OneOf(rapid.SampledFrom([]string{"7", "null", "{\"user\":\"a\",\"role\":[1,2]}", "\"t\""}), gen.JSONText(2)), 50)
		put("query", strJSON(rapid.SampledFrom([]string{"", "a=b", "limit=5&from=é", "?", "x=%41&y"})), 50)
		put("isHttp", rapid.SampledFrom([]string{"true", "false"}), 45)
		if rtype == "auth" || rapid.IntRange(0, 5).Draw(t, "authfields") == 0 {
			put("header", rapid.SampledFrom([]string{`{}`, `{"Accept":["a","b"]}`, `{"X-É":["v"],"cookie":[]}`, `null`}), 60)
			put("host", strJSON(rapid.SampledFrom([]string{"example.com", "", "[::1]:8080"})), 60)
			put("remoteAddr", strJSON(rapid.SampledFrom([]string{"127.0.0.1:5555", "", "x"})), 60)
			put("uri", strJSON(rapid.SampledFrom([]string{"/ws", "", "/a?b=c"})), 60)
		}
		if rapid.IntRange(0, 9).Draw(t, "extra") == 0 {
			f["unknownMember"] = json.RawMessage(`{"x":[1,2,3]}`)
		}
		keys := make([]string, 0, len(f))
		for k := range f {
			keys = append(keys, k)
		}
		sort.Strings(keys)
		// member order drawn by rapid
		keys = rapid.Permutation(keys).Draw(t, "order")
		var sb strings.Builder
		sb.WriteByte('{')
		for i, k := range keys {
			if i > 0 {
				sb.WriteByte(',')
			}
			kb, _ := json.Marshal(k)
			sb.Write(kb)
			sb.WriteByte(':')
			sb.Write(f[k])
		}
		sb.WriteByte('}')
		rq.Payload = sb.String()
		rq.Fields = f
		return rq
	})
}

// Mismatch reports whether member key is present, non-empty and does not decode into an int.
func Mismatch(f map[string]json.RawMessage, key string) bool {
	v, ok := f[key]
	if !ok || len(v) == 0 {
		return false
	}
	// the library keeps the raw member; "null" decodes into an int without error
	var x int
	return json.Unmarshal(v, &x) != nil
}

// GenRequest generates a request against the handler set.
func GenRequest(name string, hs []HandlerSpec, uniq string) *rapid.Generator[ReqSpec] {
	return rapid.Custom(func(t *rapid.T) ReqSpec {
		rtype := rapid.SampledFrom([]string{"access", "get", "call", "call", "auth", "call", "get", "access", "auth"}).Draw(t, "rtype")
		h := hs[rapid.IntRange(0, len(hs)-1).Draw(t, "target")]
		var rname string
		switch k := rapid.IntRange(0, 11).Draw(t, "nkind"); {
		case k == 0:
			rname = name + "." + rapid.SampledFrom([]string{"nosuch", "item", "item.1.sub.x", "model.extra", "new", "item" + strings.Repeat(".a", 40), strings.Repeat("x.", 32) + "x"}).Draw(t, "nomatch")
		case k == 1:
			// (only a service that owns more than its own name space is sent these)
			rname = rapid.SampledFrom([]string{name, "other.model", name + "x.model", name + "_model", name[:len(name)-1], "s", name + "ing.1", "x" + name + ".model"}).Draw(t, "outside")
		default:
			var lits []string
			for _, o := range hs {
				for _, tk := range refmux.Tokens(o.Pattern) {
					if refmux.Kind(tk) == refmux.Lit {
						lits = append(lits, tk)
					}
				}
			}
			rname = instantiate(t, name, h.Pattern, lits...)
		}
		subj := rtype + "." + rname
		method := ""
		if rtype == "call" || rtype == "auth" {
			pool := []string{"set", "new", "foo", "login", "get", "unknownMethod", "a-b"}
			if rtype == "call" {
				pool = append(pool, h.Calls...)
			} else {
				pool = append(pool, h.Auths...)
			}
			var named []string
			for _, m := range pool {
				if m != "*" {
					named = append(named, m)
				}
			}
			method = rapid.SampledFrom(named).Draw(t, "method")
			subj += "." + method
			if rapid.IntRange(0, 29).Draw(t, "nomethod") == 0 {
				subj = rtype + "." + strings.ReplaceAll(rname, ".", "") // no method token at all
			}
		}
		rq := GenPayload(rtype).Draw(t, "payload")
		rq.Subject = subj
		c := &Case{Name: name, Handlers: hs}
		d := Route(c, &rq)
		kind := d.Kind
		if kind == "" {
			kind = rtype
		}
		isHTTP := false
		if v, ok := rq.Fields["isHttp"]; ok {
			isHTTP = string(v) == "true"
		}
		rq.Script = script.Gen(kind, isHTTP, Mismatch(rq.Fields, "params"), Mismatch(rq.Fields, "token")).Draw(t, "script")
		return rq
	})
}

// GenCase generates a sequential case.
func GenCase() *rapid.Generator[Case] {
	return rapid.Custom(func(t *rapid.T) Case {
		c := Case{Name: rapid.SampledFrom([]string{"svc", "svc", "a.b"}).Draw(t, "name"), Workers: rapid.SampledFrom([]int{1, 2, 4, 0}).Draw(t, "workers")}
		c.NoLogger = rapid.IntRange(0, 4).Draw(t, "nologger") == 0
		c.NoQueue = rapid.IntRange(0, 3).Draw(t, "noqueue") == 0
		c.WideOwnership = rapid.IntRange(0, 3).Draw(t, "wideOwnership") == 0
		c.ServeTwice = rapid.IntRange(0, 5).Draw(t, "servetwice") == 0
		c.NoReplyDup = rapid.IntRange(0, 4).Draw(t, "noreplydup") == 0
		c.Handlers = GenHandlers().Draw(t, "handlers")
		n := rapid.IntRange(1, 4).Draw(t, "nreq")
		for i := 0; i < n; i++ {
			c.Reqs = append(c.Reqs, GenRequest(c.Name, c.Handlers, "").Draw(t, "req"))
		}
		return c
	})
}

// Ctx returns the model context of a request.
func Ctx(c *Case, rq *ReqSpec, d Dispatch) script.Ctx {
	ctx := script.Ctx{}
	if v, ok := rq.Fields["isHttp"]; ok {
		ctx.IsHTTP = string(v) == "true"
	}
	if d.Handler >= 0 && d.Handler < len(c.Handlers) {
		h := c.Handlers[d.Handler]
		switch {
		case !h.Get:
			ctx.ValueErrCode, ctx.ValueErrMsg = res.CodeNotFound, "Not found"
		case h.ValueMode == "error" || h.ValueMode == "errorthenpanic":
			ctx.ValueErrCode, ctx.ValueErrMsg = "custom.valueError", "value failed"
		case h.ValueMode == "panic" || h.ValueMode == "nested" || h.ValueMode == "requirenested":
			ctx.ValueErrCode, ctx.ValueErrMsg = res.CodeInternalError, ""
		case h.ValueMode == "none":
			ctx.ValueErrCode, ctx.ValueErrMsg = res.CodeInternalError, ""
		case h.ValueMode == "notfound":
			ctx.ValueErrCode, ctx.ValueErrMsg = res.CodeNotFound, "Not found"
		case h.ValueMode == "invalidquery":
			ctx.ValueErrCode, ctx.ValueErrMsg = res.CodeInvalidQuery, "Invalid query"
		case h.ValueMode == "invalidquerymsg":
			ctx.ValueErrCode, ctx.ValueErrMsg = res.CodeInvalidQuery, "bad q"
		case h.ValueMode == "panicreserror":
			ctx.ValueErrCode, ctx.ValueErrMsg = "custom.p", "pm"
		}
	}
	return ctx
}

// Describe renders an observation for failure messages.
func Describe(ob Obs) string {
	var sb strings.Builder
	fmt.Fprintf(&sb, "delivered=%d done=%d pre=%q resp=%q records=", ob.Delivered, ob.Done, ob.Pre, ob.Resp)
	for _, r := range ob.Records {
		fmt.Fprintf(&sb, "[%s type=%s method=%s rname=%s forValue=%v]", r.Marker, r.Type, r.Method, r.RName, r.ForValue)
	}
	return sb.String()
}
