// Package natsref holds the NATS subject rules, written from the NATS protocol
// text: subjects are '.'-separated non-empty tokens without whitespace; in
// subscriptions '*' (whole token) matches one token and '>' (whole, last
// token) matches one or more tokens; publish subjects carry no wildcards.
package natsref

import "strings"

func tokens(s string) []string { return strings.Split(s, ".") }

func validToken(t string) bool {
	if t == "" {
		return false
	}
	for i := 0; i < len(t); i++ {
		switch t[i] {
		case ' ', '\t', '\r', '\n', '\f':
			return false
		}
		if t[i] == 0 {
			return false
		}
	}
	return true
}

// ValidSubscribe reports whether s is a valid subscription subject.
func ValidSubscribe(s string) bool {
	if s == "" {
		return false
	}
	toks := tokens(s)
	for i, t := range toks {
		if !validToken(t) {
			return false
		}
		if t == ">" && i != len(toks)-1 {
			return false
		}
	}
	return true
}

// ValidPublish reports whether s is a valid publish subject (literal).
func ValidPublish(s string) bool {
	if !ValidSubscribe(s) {
		return false
	}
	for _, t := range tokens(s) {
		if t == "*" || t == ">" {
			return false
		}
	}
	return true
}

// Matches reports whether a literal subject is matched by a subscription.
func Matches(sub, subject string) bool {
	st, jt := tokens(sub), tokens(subject)
	for i, t := range st {
		if t == ">" {
			if i != len(st)-1 {
				// a full wildcard followed by further tokens is no valid subscription subject:
				// the server refuses it, nothing is ever delivered to it
				return false
			}
			return len(jt) > i
		}
		if i >= len(jt) {
			return false
		}
		if t != "*" && t != jt[i] {
			return false
		}
	}
	return len(st) == len(jt)
}

// Covers reports whether every subject matched by subscription b is also
// matched by subscription a.
func Covers(a, b string) bool {
	at, bt := tokens(a), tokens(b)
	for i, t := range at {
		if t == ">" {
			return len(bt) > i
		}
		if i >= len(bt) {
			return false
		}
		if bt[i] == ">" {
			return false
		}
		if t == "*" {
			continue
		}
		if bt[i] == "*" || bt[i] != t {
			return false
		}
	}
	return len(at) == len(bt)
}
