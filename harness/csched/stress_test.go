package csched

import (
	"fmt"
	"math/rand/v2"
	"runtime"
	"strings"
	"sync"
	"sync/atomic"
	"testing"
	"testing/synctest"
	"time"

	res "github.com/jirenius/go-res"
	"pgregory.net/rapid"

	"verifharness/internal/evid"
	"verifharness/internal/fakeconn"
	"verifharness/internal/svc"
)

// stressCase is a free-running (real concurrency) case.
type stressCase struct {
	Workers   int `json:"workers"`
	Producers int `json:"producers"`
	PerProd   int `json:"perProducer"`
	Groups    int `json:"groups"`
	Yield     int `json:"yieldPermille"` // probability of a Gosched at a hook visit
	Requests  int `json:"requests"`
}

type stressResult struct {
	overlap   string
	order     string
	lost      string
	dup       string
	total     int
	contended bool
}

// runStress runs producers hammering few groups with numbered submissions.
func runStress(c stressCase) stressResult {
	var r stressResult
	s := res.NewService("svc")
	s.SetWorkerCount(c.Workers)
	s.SetInChannelSize(c.Requests + 16)
	s.SetLogger(nil)
	occ := make([]int32, c.Groups)
	var mu sync.Mutex
	seqs := make([][][2]int, c.Groups) // per group: (producer, idx)
	var ran int64
	var viol atomic.Value
	body := func(g, p, i int) {
		if atomic.AddInt32(&occ[g], 1) != 1 {
			viol.CompareAndSwap(nil, fmt.Sprintf("two callbacks of group g%d executed at the same instant (producer %d item %d)", g, p, i))
		}
		if rand.IntN(4) == 0 {
			runtime.Gosched()
		}
		mu.Lock()
		seqs[g] = append(seqs[g], [2]int{p, i})
		mu.Unlock()
		atomic.AddInt32(&occ[g], -1)
		atomic.AddInt64(&ran, 1)
	}
	// a group id put together from two tokens ("g" + number): svc.g.g.<n>.<id>
	s.Handle("g.$a.$n.$id", res.Group("${a}${n}"), res.Call("do", func(rq res.CallRequest) {
		var a struct{ G, I int }
		rq.ParseParams(&a)
		body(a.G, c.Producers, a.I)
		rq.OK(nil)
	}))
	conn := fakeconn.New()
	yield := c.Yield
	res.VerifHook = func(string, interface{}) {
		if yield > 0 && rand.IntN(1000) < yield {
			runtime.Gosched()
		}
	}
	defer func() { res.VerifHook = nil }()
	served := make(chan struct{})
	s.SetOnServe(func(*res.Service) { close(served) })
	exited := make(chan error, 1)
	go func() { exited <- s.Serve(conn) }()
	select {
	case <-served:
	case <-time.After(20 * time.Second):
		r.lost = "VERIF-INCONCLUSIVE: service did not start"
		return r
	}
	var wg sync.WaitGroup
	for p := 0; p < c.Producers; p++ {
		wg.Add(1)
		go func(p int) {
			defer wg.Done()
			for i := 0; i < c.PerProd; i++ {
				g := (p + i) % c.Groups
				if i%7 == 3 {
					g = 0
				}
				gg, ii := g, i
				switch i % 3 {
				case 0:
					_ = s.With(fmt.Sprintf("svc.g.g.%d.%d", g, p), func(res.Resource) { body(gg, p, ii) })
				case 1:
					s.WithGroup(fmt.Sprintf("g%d", g), func(*res.Service) { body(gg, p, ii) })
				default:
					rr, err := s.Resource(fmt.Sprintf("svc.g.g.%d.x", g))
					if err == nil {
						s.WithResource(rr, func() { body(gg, p, ii) })
					}
				}
			}
		}(p)
	}
	// requests, delivered in order by one goroutine
	wg.Add(1)
	go func() {
		defer wg.Done()
		for i := 0; i < c.Requests; i++ {
			g := i % c.Groups
			for conn.Deliver(fmt.Sprintf("call.svc.g.g.%d.r.do", g), fmt.Sprintf("_INBOX.s%d", i), []byte(fmt.Sprintf(`{"params":{"G":%d,"I":%d}}`, g, i))) == 0 {
				runtime.Gosched()
			}
		}
	}()
	wg.Wait()
	total := c.Producers*c.PerProd + c.Requests
	r.total = total
	// quiescence: all callbacks ran; a stall (no progress for 5s) means lost callbacks
	last, lastChange := int64(-1), time.Now()
	for {
		n := atomic.LoadInt64(&ran)
		if n >= int64(total) {
			break
		}
		if n != last {
			last, lastChange = n, time.Now()
		} else if time.Since(lastChange) > 5*time.Second {
			r.lost = fmt.Sprintf("%d of %d accepted callbacks never ran (no progress for 5s with all producers finished)", int64(total)-n, total)
			break
		}
		time.Sleep(200 * time.Microsecond)
	}
	time.Sleep(time.Millisecond)
	done := make(chan struct{})
	go func() { _ = s.Shutdown(); close(done) }()
	select {
	case <-done:
		<-exited
	case <-time.After(20 * time.Second):
		if r.lost == "" {
			r.lost = "VERIF-INCONCLUSIVE: Shutdown did not return within 20s"
		}
	}
	if v := viol.Load(); v != nil {
		r.overlap = v.(string)
	}
	mu.Lock()
	defer mu.Unlock()
	seen := map[[3]int]int{}
	for g, sq := range seqs {
		lastIdx := map[int]int{}
		if len(sq) > c.PerProd {
			r.contended = true
		}
		for _, e := range sq {
			seen[[3]int{g, e[0], e[1]}]++
			if li, ok := lastIdx[e[0]]; ok && e[1] < li && r.order == "" {
				r.order = fmt.Sprintf("group g%d: item %d of producer %d ran after its later submitted item %d", g, e[1], e[0], li)
			}
			lastIdx[e[0]] = e[1]
		}
	}
	for k, n := range seen {
		if n > 1 && r.dup == "" {
			r.dup = fmt.Sprintf("callback (group g%d producer %d item %d) ran %d times", k[0], k[1], k[2], n)
		}
	}
	if int(atomic.LoadInt64(&ran)) > total && r.dup == "" {
		r.dup = fmt.Sprintf("%d callbacks ran for %d submissions", ran, total)
	}
	return r
}

func genStress() *rapid.Generator[stressCase] {
	return rapid.Custom(func(t *rapid.T) stressCase {
		per := rapid.IntRange(50, 400).Draw(t, "perProducer")
		groups := rapid.IntRange(1, 4).Draw(t, "groups")
		if rapid.IntRange(0, 5).Draw(t, "long") == 0 {
			// a long history in one Serve cycle over many groups that keep going idle and busy
			// again (thousands of completed work items), with group 0 staying hot
			per *= 8
			groups = rapid.SampledFrom([]int{4, 48, 200}).Draw(t, "manygroups")
		}
		return stressCase{
			Workers:   rapid.SampledFrom([]int{1, 2, 3, 4, 8, 16, 32}).Draw(t, "workers"),
			Producers: rapid.IntRange(2, 8).Draw(t, "producers"),
			PerProd:   per,
			Groups:    groups,
			Yield:     rapid.SampledFrom([]int{0, 50, 250, 600}).Draw(t, "yield"),
			Requests:  rapid.IntRange(0, 200).Draw(t, "requests"),
		}
	})
}

func stressTest(t *testing.T, prop string) {
	ev := evid.For(prop)
	ev.SetRule("free-running variant: 2-8 producer goroutines plus one request deliverer submit 50-400 numbered callbacks each to 1-4 groups through With/WithGroup/WithResource/requests on 1-32 workers with hook-point yields; atomic per-group occupancy, per-producer order, exactly-once and loss (stable stall) are checked; non-trivial when some group received more callbacks than one producer made (contention)")
	rapid.Check(t, func(rt *rapid.T) {
		c := genStress().Draw(rt, "stress")
		r := runStress(c)
		ev.Case(r.contended && c.Workers > 1, evid.Hash(fmt.Sprint(c)), "stress")
		ev.Add("stress-callbacks", int64(r.total))
		var msg string
		if prop == "C01" {
			msg = r.overlap
		} else {
			for _, m := range []string{r.order, r.dup, r.lost} {
				if m != "" {
					msg = m
					break
				}
			}
		}
		if msg != "" {
			rt.Fatalf("%s\nstress case: %+v", msg, c)
		}
	})
}

func TestC01Stress(t *testing.T) { stressTest(t, "C01") }
func TestC02Stress(t *testing.T) { stressTest(t, "C02") }

// TestC03Stress: free-running shutdown storms. Producers, a request deliverer and
// foreign-goroutine API calls keep going while Shutdown runs; nothing may panic, a
// delivery must never hit a closed channel while the connection still delivers, the
// connection is closed once, no callback starts after Shutdown returned, and the
// service can be served again.
func TestC03Stress(t *testing.T) {
	ev := evid.For("C03")
	rapid.Check(t, func(rt *rapid.T) {
		workers := rapid.SampledFrom([]int{1, 2, 4, 16}).Draw(rt, "workers")
		cycles := rapid.IntRange(1, 3).Draw(rt, "cycles")
		yield := rapid.SampledFrom([]int{0, 100, 400}).Draw(rt, "yield")
		delay := rapid.IntRange(0, 300).Draw(rt, "shutdownDelayMicros")
		nshut := rapid.SampledFrom([]int{1, 1, 2, 4}).Draw(rt, "shutdownCalls")
		blocking := rapid.IntRange(0, 2).Draw(rt, "blockingConn") == 0
		s := res.NewService("svc")
		s.SetWorkerCount(workers)
		s.SetLogger(nil)
		if blocking {
			// a connection that blocks on a full in channel, and a small channel
			s.SetInChannelSize(rapid.SampledFrom([]int{1, 4, 16}).Draw(rt, "inch"))
		}
		var afterShutdown, running int64
		var stopped atomic.Bool
		body := func() {
			if stopped.Load() {
				atomic.AddInt64(&afterShutdown, 1)
			}
			atomic.AddInt64(&running, 1)
			if rand.IntN(3) == 0 {
				runtime.Gosched()
			}
			atomic.AddInt64(&running, -1)
		}
		s.Handle("g.$id", res.Call("do", func(r res.CallRequest) { body(); r.OK(nil) }), res.GetModel(func(r res.ModelRequest) { body(); r.Model(map[string]int{"a": 1}) }))
		res.VerifHook = func(string, interface{}) {
			if yield > 0 && rand.IntN(1000) < yield {
				runtime.Gosched()
			}
		}
		defer func() { res.VerifHook = nil }()
		base := fakeconn.ClosedChanSends()
		var panics atomic.Value
		guard := func(what string) {
			if v := recover(); v != nil {
				panics.CompareAndSwap(nil, fmt.Sprintf("%s panicked: %v", what, v))
			}
		}
		for c := 0; c < cycles; c++ {
			conn := fakeconn.New()
			conn.Blocking = blocking
			served := make(chan struct{})
			s.SetOnServe(func(*res.Service) { close(served) })
			exited := make(chan error, 1)
			stopped.Store(false)
			go func() { exited <- s.Serve(conn) }()
			select {
			case <-served:
			case err := <-exited:
				rt.Fatalf("cycle %d: Serve returned %v before starting (restart refused?)", c, err)
			case <-time.After(20 * time.Second):
				rt.Fatalf("VERIF-INCONCLUSIVE: service did not start")
			}
			quit := make(chan struct{})
			var wg sync.WaitGroup
			spawn := func(what string, f func(i int)) {
				wg.Add(1)
				go func() {
					defer wg.Done()
					defer guard(what)
					for i := 0; ; i++ {
						select {
						case <-quit:
							return
						default:
						}
						f(i)
					}
				}()
			}
			spawn("With", func(i int) { _ = s.With(fmt.Sprintf("svc.g.%d", i%5), func(res.Resource) { body() }) })
			spawn("deliver", func(i int) {
				conn.Deliver(fmt.Sprintf("call.svc.g.%d.do", i%5), fmt.Sprintf("_INBOX.x%d", i), nil)
				conn.Deliver(fmt.Sprintf("get.svc.g.%d", i%3), fmt.Sprintf("_INBOX.y%d", i), nil)
			})
			spawn("foreign", func(i int) {
				switch i % 4 {
				case 0:
					s.Reset([]string{"svc.g.1"}, nil)
				case 1:
					s.TokenEvent("cid", i)
				case 2:
					if r, err := s.Resource("svc.g.1"); err == nil {
						r.Event("foreign", i)
					}
				default:
					s.ResetAll()
				}
			})
			time.Sleep(time.Duration(delay) * time.Microsecond)
			done := make(chan struct{})
			// 1-4 Shutdown calls at the same instant: one of them shuts the service down, the
			// others return at once (not started); none may panic or close anything twice
			var sdwg sync.WaitGroup
			startShut := make(chan struct{})
			var aligned int32
			for j := 0; j < nshut; j++ {
				sdwg.Add(1)
				go func() {
					defer sdwg.Done()
					defer guard("Shutdown")
					<-startShut
					// spin until all callers are running, so that the calls start together
					atomic.AddInt32(&aligned, 1)
					for k := 0; k < 100000 && atomic.LoadInt32(&aligned) < int32(nshut); k++ {
					}
					_ = s.Shutdown()
				}()
			}
			close(startShut)
			go func() {
				sdwg.Wait()
				// a losing call returns early; wait until the service is really stopped
				for i := 0; i < 300000 && s.Conn() != nil; i++ {
					time.Sleep(100 * time.Microsecond)
				}
				stopped.Store(true)
				if n := atomic.LoadInt64(&running); n != 0 {
					panics.CompareAndSwap(nil, fmt.Sprintf("Shutdown returned while %d callbacks were still executing", n))
				}
				close(done)
			}()
			select {
			case <-done:
			case <-time.After(30 * time.Second):
				close(quit)
				// with the callers gone: if every goroutine inside go-res is blocked, Shutdown
				// among them, nothing will ever wake it (looked at twice)
				callersGone := make(chan struct{})
				go func() { wg.Wait(); close(callersGone) }()
				// (a caller may itself be blocked for good, e.g. a delivery into a channel that is
				// no longer read: the callers are given a moment, not waited for)
				select {
				case <-callersGone:
				case <-time.After(5 * time.Second):
				}
				st1 := svc.Stalled("Shutdown")
				time.Sleep(500 * time.Millisecond)
				st2 := svc.Stalled("Shutdown")
				select {
				case <-done:
				default:
					if st1 != "" && st2 != "" {
						rt.Fatalf("Shutdown never returns: %s", st2)
					}
				}
				rt.Fatalf("VERIF-INCONCLUSIVE: Shutdown did not return within 30s in free-running mode (the bubble variant decides hangs exactly)")
			}
			select {
			case <-exited:
			case <-time.After(30 * time.Second):
				close(quit)
				rt.Fatalf("VERIF-INCONCLUSIVE: Serve did not return within 30s after Shutdown")
			}
			// keep hammering the stopped service for a moment, then stop the callers
			time.Sleep(200 * time.Microsecond)
			close(quit)
			wg.Wait()
			if conn.Closed != 1 {
				rt.Fatalf("cycle %d: connection closed %d times, expected exactly once", c, conn.Closed)
			}
		}
		if v := panics.Load(); v != nil {
			rt.Fatalf("%s", v.(string))
		}
		if n := fakeconn.ClosedChanSends() - base; n != 0 {
			rt.Fatalf("%d deliveries hit a closed in-channel while the connection still delivered: the service closed its channel before closing the connection (a real NATS client would panic with 'send on closed channel')", n)
		}
		if n := atomic.LoadInt64(&afterShutdown); n != 0 {
			rt.Fatalf("%d callbacks started after Shutdown had returned", n)
		}
		ev.Case(cycles > 1 || delay < 50, evid.Hash("c03stress", workers, cycles, yield, delay), "stress")
	})
}

// TestC03ServeFailure (bubble): a Serve whose k-th subscription is refused by the
// connection must return (exactly: no goroutine may stay blocked), close the connection
// once and leave the service servable again.
func TestC03ServeFailure(t *testing.T) {
	ev := evid.For("C03")
	rapid.Check(t, func(rt *rapid.T) {
		workers := rapid.SampledFrom([]int{1, 2, 8}).Draw(rt, "workers")
		k := rapid.IntRange(1, 5).Draw(rt, "failNth")
		queue := rapid.SampledFrom([]string{"<default>", ""}).Draw(rt, "queue")
		var msg string
		func() {
			defer func() {
				if v := recover(); v != nil {
					msg = fmt.Sprintf("bubble ended abnormally (goroutines left blocked?): %v", v)
				}
			}()
			synctest.Test(t, func(*testing.T) {
				s := res.NewService("svc")
				s.SetWorkerCount(workers)
				s.SetLogger(nil)
				if queue != "<default>" {
					s.SetQueueGroup(queue)
				}
				ran := 0
				s.Handle("g.$id", res.Access(res.AccessGranted), res.GetModel(func(r res.ModelRequest) { r.NotFound() }), res.Call("do", func(r res.CallRequest) { r.OK(nil) }))
				bad := fakeconn.New()
				fired := false
				bad.FailSubscribe = func(subject string, n int) error {
					if n == k {
						fired = true
						return fmt.Errorf("injected subscribe failure")
					}
					return nil
				}
				ret := make(chan error, 1)
				go func() { ret <- s.Serve(bad) }()
				synctest.Wait()
				if !fired {
					// fewer subscriptions than k: the service simply runs
					_ = s.Shutdown()
					<-ret
					return
				}
				select {
				case <-ret:
				default:
					msg = fmt.Sprintf("Serve neither serves nor returns after its subscription %d was refused: every goroutine is blocked", k)
					// unblock what can be unblocked so that the bubble can end
					_ = s.Shutdown()
					return
				}
				if bad.Closed != 1 {
					msg = fmt.Sprintf("after a refused subscription the connection was closed %d times, expected once", bad.Closed)
					return
				}
				// the service must be servable again
				good := fakeconn.New()
				served := make(chan struct{})
				s.SetOnServe(func(*res.Service) { close(served) })
				go func() { ret <- s.Serve(good) }()
				synctest.Wait()
				select {
				case <-served:
				default:
					msg = "after a Serve that failed on a refused subscription the service cannot be served again"
					return
				}
				_ = s.With("svc.g.1", func(res.Resource) { ran++ })
				synctest.Wait()
				if ran != 1 {
					msg = fmt.Sprintf("a With callback on the re-served service ran %d times", ran)
				}
				_ = s.Shutdown()
				<-ret
			})
		}()
		ev.Case(true, evid.Hash("servefail", workers, k, queue), "serve-failure")
		if msg != "" {
			rt.Fatalf("%s (workers %d, queue %q)", msg, workers, queue)
		}
	})
}

// TestC03ConcurrentShutdown: nothing but Serve followed by 2-4 Shutdown calls made at the
// same instant (spin-aligned), a few hundred times: exactly one of them shuts the service
// down, nothing panics, the connection is closed once and Serve returns.
func TestC03ConcurrentShutdown(t *testing.T) {
	ev := evid.For("C03")
	cycles := evid.Pick(400, 6000)
	s := res.NewService("svc")
	s.SetLogger(nil)
	s.SetWorkerCount(2)
	s.Handle("m", res.Call("do", func(r res.CallRequest) { r.OK(nil) }))
	for c := 0; c < cycles; c++ {
		conn := fakeconn.New()
		served := make(chan struct{})
		s.SetOnServe(func(*res.Service) { close(served) })
		exited := make(chan error, 1)
		go func() { exited <- s.Serve(conn) }()
		select {
		case <-served:
		case <-time.After(20 * time.Second):
			t.Fatalf("VERIF-INCONCLUSIVE: service did not start")
		}
		n := 2 + c%3
		var aligned, won int32
		var panicked atomic.Value
		var wg sync.WaitGroup
		for j := 0; j < n; j++ {
			wg.Add(1)
			go func() {
				defer wg.Done()
				defer func() {
					if v := recover(); v != nil {
						panicked.CompareAndSwap(nil, fmt.Sprint(v))
					}
				}()
				atomic.AddInt32(&aligned, 1)
				for k := 0; k < 1000000 && atomic.LoadInt32(&aligned) < int32(n); k++ {
				}
				if s.Shutdown() == nil {
					atomic.AddInt32(&won, 1)
				}
			}()
		}
		wg.Wait()
		msg := ""
		select {
		case <-exited:
		case <-time.After(20 * time.Second):
			msg = "Serve did not return after the Shutdown calls"
		}
		switch {
		case msg != "":
		case panicked.Load() != nil:
			msg = fmt.Sprintf("a Shutdown call panicked: %v", panicked.Load())
		case won != 1:
			msg = fmt.Sprintf("%d of the %d simultaneous Shutdown calls reported that they shut the service down", won, n)
		case conn.Closed != 1:
			msg = fmt.Sprintf("the connection was closed %d times", conn.Closed)
		}
		if msg != "" {
			evid.Violation(t, "C03", "concurrent-shutdown", fmt.Sprintf("cycle %d, %d simultaneous Shutdown calls: %s", c, n, msg), map[string]int{"cycle": c, "calls": n})
			return
		}
	}
	ev.Case(true, evid.Hash("concurrent-shutdown", cycles), "concurrent-shutdown")
	ev.Add("concurrent-shutdown-cycles", int64(cycles))
}

// TestC03StartFailure: a Serve call that fails before the service has started - an event
// listener on a pattern without handler (ValidateListeners) - returns an error; a Shutdown
// call made then returns at once (not started), and once the missing handler is registered
// the service can be served: a start that failed leaves the service stopped, not stuck.
func TestC03StartFailure(t *testing.T) {
	ev := evid.For("C03")
	rapid.Check(t, func(rt *rapid.T) {
		workers := rapid.SampledFrom([]int{1, 2, 8}).Draw(rt, "workers")
		attempts := rapid.IntRange(1, 3).Draw(rt, "failedAttempts")
		shutdownBetween := rapid.Bool().Draw(rt, "shutdownBetween")
		// what is done with the service between the failed attempts: it never started, so its
		// settings may be changed and every other call is refused as not-started
		between := rapid.SampledFrom([]string{"", "setworkers", "setinch", "setqueue", "setowned", "resetall", "reset", "token", "queryevent", "event", "with"}).Draw(rt, "between")
		onError := rapid.Bool().Draw(rt, "onError")
		var msg string
		func() {
			defer func() {
				if v := recover(); v != nil {
					msg = fmt.Sprintf("bubble ended abnormally (goroutines left blocked?): %v", v)
				}
			}()
			synctest.Test(t, func(*testing.T) {
				s := res.NewService("svc")
				s.SetWorkerCount(workers)
				s.SetLogger(nil)
				if onError {
					s.SetOnError(func(*res.Service, string) {})
				}
				s.Handle("g.$id", res.Call("do", func(r res.CallRequest) { r.OK(nil) }))
				s.AddListener("late.$id", func(*res.Event) {})
				doBetween := func() {
					defer func() {
						if v := recover(); v != nil {
							msg = fmt.Sprintf("%s on the service whose Serve call failed to start panicked: %v", between, v)
						}
					}()
					switch between {
					case "setworkers":
						s.SetWorkerCount(workers + 1)
					case "setinch":
						s.SetInChannelSize(16)
					case "setqueue":
						s.SetQueueGroup("q")
					case "setowned":
						s.SetOwnedResources([]string{"svc.>"}, []string{"svc.>"})
					case "resetall":
						s.ResetAll()
					case "reset":
						s.Reset([]string{"svc.>"}, nil)
					case "token":
						s.TokenEvent("cid", nil)
						s.TokenReset("tid", "a")
					case "queryevent", "event":
						r, err := s.Resource("svc.g.1")
						if err != nil {
							msg = "Resource on a stopped service: " + err.Error()
							return
						}
						if between == "event" {
							r.Event("custom", nil)
						} else {
							called := 0
							r.QueryEvent(func(q res.QueryRequest) {
								if q != nil {
									msg = "query callback called with a request on a service that never started"
								}
								called++
							})
							if called != 1 {
								msg = fmt.Sprintf("QueryEvent on a service that is not started called its callback %d times, expected once with nil", called)
							}
						}
					case "with":
						// (With reports unknown resources only; the callback is dropped silently)
						_ = s.With("svc.g.1", func(res.Resource) { msg = "a With callback ran on a service that never started" })
						synctest.Wait()
					}
				}
				for a := 0; a < attempts; a++ {
					conn := fakeconn.New()
					ret := make(chan error, 1)
					go func() { ret <- s.Serve(conn) }()
					synctest.Wait()
					select {
					case err := <-ret:
						if err == nil {
							msg = "Serve with an event listener on a pattern without handler returned nil"
							return
						}
						if a > 0 && strings.Contains(err.Error(), "not stopped") {
							msg = fmt.Sprintf("attempt %d: Serve is refused with %q after an earlier Serve call failed to start (the service never started)", a+1, err)
							return
						}
					default:
						msg = "Serve with an event listener on a pattern without handler neither served nor returned"
						_ = s.Shutdown()
						return
					}
					if shutdownBetween {
						done := make(chan struct{})
						go func() { _ = s.Shutdown(); close(done) }()
						synctest.Wait()
						select {
						case <-done:
						default:
							msg = "Shutdown after a Serve call that failed to start does not return"
							return
						}
					}
					if doBetween(); msg != "" {
						return
					}
				}
				// the missing handler is registered: the service must be servable
				s.Handle("late.$id", res.Call("do", func(r res.CallRequest) { r.OK(nil) }))
				good := fakeconn.New()
				served := make(chan struct{})
				s.SetOnServe(func(*res.Service) { close(served) })
				ret := make(chan error, 1)
				go func() { ret <- s.Serve(good) }()
				synctest.Wait()
				select {
				case <-served:
				default:
					err := error(nil)
					select {
					case err = <-ret:
					default:
					}
					msg = fmt.Sprintf("after %d Serve calls that failed to start (listener without handler) and registering the handler, the service cannot be served: %v", attempts, err)
					return
				}
				ran := 0
				_ = s.With("svc.g.1", func(res.Resource) { ran++ })
				synctest.Wait()
				if ran != 1 {
					msg = fmt.Sprintf("a With callback on the service ran %d times", ran)
				}
				_ = s.Shutdown()
				<-ret
			})
		}()
		ev.Case(true, evid.Hash("startfail", workers, attempts, shutdownBetween, between, onError), "start-failure")
		if msg != "" {
			rt.Fatalf("%s (workers %d, failed attempts %d, Shutdown in between %v, then %q, OnError %v)", msg, workers, attempts, shutdownBetween, between, onError)
		}
	})
}

// TestC01AcrossFailedServe (bubble): a Serve whose k-th subscription is refused, with a With
// callback accepted while Serve was still subscribing and suspended mid-execution. The
// service is served again and given callbacks of the same group: the old callback excludes
// them as long as it executes (C01), and Serve does not return before it has finished (C03,
// reported under C01 here as well because that is what makes the overlap possible).
func TestC01AcrossFailedServe(t *testing.T) {
	ev := evid.For("C01")
	rapid.Check(t, func(rt *rapid.T) {
		workers := rapid.SampledFrom([]int{1, 2, 4}).Draw(rt, "workers")
		k := rapid.IntRange(1, 4).Draw(rt, "failNth")
		via := rapid.SampledFrom([]string{"with", "withgroup", "withresource"}).Draw(rt, "via")
		second := rapid.SampledFrom([]string{"with", "withgroup", "request"}).Draw(rt, "second")
		var msg string
		overlapPossible := false
		func() {
			defer func() {
				if v := recover(); v != nil {
					msg = fmt.Sprintf("bubble ended abnormally (goroutines left blocked?): %v", v)
				}
			}()
			synctest.Test(t, func(*testing.T) {
				s := res.NewService("svc")
				s.SetWorkerCount(workers)
				s.SetLogger(nil)
				occ, maxOcc := 0, 0
				var mu sync.Mutex
				enter := func() {
					mu.Lock()
					occ++
					if occ > maxOcc {
						maxOcc = occ
					}
					mu.Unlock()
				}
				leave := func() { mu.Lock(); occ--; mu.Unlock() }
				s.Handle("g.$id", res.Group("grp"), res.Access(res.AccessGranted), res.Call("do", func(r res.CallRequest) {
					enter()
					leave()
					r.OK(nil)
				}))
				bad := fakeconn.New()
				atFail := make(chan struct{})
				proceed := make(chan struct{})
				fired := false
				bad.FailSubscribe = func(subject string, n int) error {
					if n == k {
						fired = true
						close(atFail)
						<-proceed
						return fmt.Errorf("injected subscribe failure")
					}
					return nil
				}
				ret := make(chan error, 2)
				go func() { ret <- s.Serve(bad) }()
				synctest.Wait()
				if !fired {
					_ = s.Shutdown()
					<-ret
					return
				}
				release := make(chan struct{})
				firstDone := false
				cb := func() {
					enter()
					<-release
					leave()
					mu.Lock()
					firstDone = true
					mu.Unlock()
				}
				accepted := true
				switch via {
				case "with":
					accepted = s.With("svc.g.1", func(res.Resource) { cb() }) == nil
				case "withgroup":
					s.WithGroup("grp", func(*res.Service) { cb() })
				case "withresource":
					r, err := s.Resource("svc.g.2")
					if err != nil {
						accepted = false
					} else {
						s.WithResource(r, cb)
					}
				}
				synctest.Wait()
				mu.Lock()
				started := occ == 1
				mu.Unlock()
				close(proceed)
				synctest.Wait()
				if !accepted || !started {
					// refused as not started: allowed; nothing to overlap with
					close(release)
					<-ret
					return
				}
				overlapPossible = true
				select {
				case <-ret:
					msg = "Serve returned after a refused subscription while a With callback it had accepted was still executing"
				default:
				}
				if msg == "" {
					// Serve is waiting for the callback; let it finish, the rest is the plain re-serve check
					close(release)
					<-ret
				}
				// the Shutdown the failed Serve started runs on a goroutine of its own
				synctest.Wait()
				good := fakeconn.New()
				served := make(chan struct{})
				s.SetOnServe(func(*res.Service) { close(served) })
				go func() { ret <- s.Serve(good) }()
				synctest.Wait()
				select {
				case <-served:
				default:
					if msg == "" {
						msg = "after a Serve that failed on a refused subscription the service cannot be served again"
					}
					select {
					case <-release:
					default:
						close(release)
					}
					return
				}
				switch second {
				case "with":
					_ = s.With("svc.g.3", func(res.Resource) { enter(); leave() })
				case "withgroup":
					s.WithGroup("grp", func(*res.Service) { enter(); leave() })
				case "request":
					good.Deliver("call.svc.g.4.do", "_INBOX.x", []byte(`{}`))
				}
				synctest.Wait()
				mu.Lock()
				if maxOcc > 1 {
					msg = fmt.Sprintf("two callbacks of group \"grp\" executed at the same instant: one accepted during the Serve that failed, one (%s) of the next Serve", second)
				}
				mu.Unlock()
				select {
				case <-release:
				default:
					close(release)
				}
				synctest.Wait()
				_ = s.Shutdown()
				<-ret
				mu.Lock()
				if !firstDone && msg == "" {
					msg = "the callback accepted during the failed Serve never finished"
				}
				mu.Unlock()
			})
		}()
		ev.Case(overlapPossible, evid.Hash("acrossfail", workers, k, via, second), "across-failed-serve")
		if msg != "" {
			rt.Fatalf("%s (workers %d, failNth %d, via %s)", msg, workers, k, via)
		}
	})
}
