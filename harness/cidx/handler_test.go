package cidx

import (
	"encoding/json"
	"fmt"
	"net/url"
	"sort"
	"strings"
	"testing"
	"time"

	res "github.com/jirenius/go-res"
	"github.com/jirenius/go-res/store"
	"pgregory.net/rapid"

	"verifharness/internal/evid"
	"verifharness/internal/fakeconn"
	"verifharness/internal/gen"
	"verifharness/internal/svc"
)

// HCase is a handler-level case.
type HCase struct {
	Cfg   Cfg      `json:"cfg"`
	Model bool     `json:"model"` // serve query results as models (IDToRIDModelTransformer) instead of collections
	Held  []string `json:"held"`  // resource ids (with ?query for query resources) the client holds
	Ops   []Op     `json:"ops"`   // mutations
	// BogusLast: AffectedResources ends its list with a resource id that no handler serves.
	BogusLast bool `json:"bogusLast,omitempty"`
	// Builder: the QueryHandler values are put together with the With... methods.
	Builder bool `json:"builder,omitempty"`
	// During[i], if not empty, is a resource (held or not): mutation i is made (and flushed) while a
	// get request on that resource is scanning the index.
	During []string `json:"during,omitempty"`
	// Defer[i]: the client does not react to what mutation i published (resets, query events)
	// until the next mutation has been made and flushed as well.
	Defer []bool `json:"defer,omitempty"`
	// Nested: the query handlers sit in a mux that was mounted into another mux before that
	// one was mounted to the service (resources svc.n1.n2.<...>; the harness keeps talking of
	// svc.<...> and translates at the connection).
	Nested bool `json:"nested,omitempty"`
}

func (c HCase) String() string { b, _ := json.Marshal(c); return string(b) }

func validTok(s string) bool {
	if s == "" {
		return false
	}
	for i := 0; i < len(s); i++ {
		if s[i] != 'a' && s[i] != 'b' {
			return false
		}
	}
	return true
}

type hclient struct {
	cache map[string]string // rid -> canonical JSON of held result
}

func canon(b []byte) string {
	v := gen.Decode(b)
	o, _ := json.Marshal(v)
	return string(o)
}

func waitFor(f func() bool) bool {
	deadline := time.Now().Add(10 * time.Second)
	for time.Now().Before(deadline) {
		if f() {
			return true
		}
		time.Sleep(50 * time.Microsecond)
	}
	return false
}

// runHandler runs the handler-level case.
func runHandler(c HCase) (msg string, nontrivial bool) {
	m, err := newMachine(Cfg{Prefix: c.Cfg.Prefix, Indexes: []string{"ia"}, SlowKey: c.Cfg.SlowKey})
	if err != nil {
		return svc.Verdict(err), false
	}
	defer m.cleanup()
	s := res.NewService("svc")
	s.SetWorkerCount(2)
	s.SetQueryEventDuration(20 * time.Second)
	toRID := func(id string) string { return "svc.item." + id }
	var trans store.QueryTransformer = store.IDToRIDCollectionTransformer(toRID)
	typ := res.Collection
	if c.Model {
		trans = store.IDToRIDModelTransformer(toRID)
		typ = res.Model
	}
	storeQuery := func(prefix string) url.Values {
		return Query{Index: "ia", Prefix: prefix, Filter: "hook", Limit: -1}.values()
	}
	// wantOf: what a get of a held resource must return, from the query store itself
	wantOf := func(rid string) (string, bool) {
		var prefix string
		switch {
		case rid == "svc.all" || rid == "svc.search":
		case strings.HasPrefix(rid, "svc.by."):
			prefix = strings.TrimPrefix(rid, "svc.by.")
		case strings.HasPrefix(rid, "svc.search?prefix="):
			prefix = strings.TrimPrefix(rid, "svc.search?prefix=")
			if prefix != "" && !validTok(prefix) {
				return "", false
			}
		default:
			return "", false
		}
		ids, err := m.query(Query{Index: "ia", Prefix: prefix, Limit: -1})
		if err != nil {
			return "", false
		}
		var b strings.Builder
		if c.Model {
			b.WriteString("{")
			for i, id := range ids {
				if i > 0 {
					b.WriteString(",")
				}
				k, _ := json.Marshal(id)
				r, _ := json.Marshal(toRID(id))
				fmt.Fprintf(&b, `%s:{"rid":%s}`, k, r)
			}
			b.WriteString("}")
		} else {
			b.WriteString("[")
			for i, id := range ids {
				if i > 0 {
					b.WriteString(",")
				}
				r, _ := json.Marshal(toRID(id))
				fmt.Fprintf(&b, `{"rid":%s}`, r)
			}
			b.WriteString("]")
		}
		return canon([]byte(b.String())), true
	}
	// optionally the handler values are put together with the With... methods
	mk := func(qh store.QueryHandler) store.QueryHandler {
		if !c.Builder {
			return qh
		}
		b := store.QueryHandler{}.WithQueryStore(qh.QueryStore).WithTransformer(qh.Transformer)
		if qh.RequestHandler != nil {
			b = b.WithRequestHandler(qh.RequestHandler)
		}
		if qh.QueryRequestHandler != nil {
			b = b.WithQueryRequestHandler(qh.QueryRequestHandler)
		}
		if qh.AffectedResources != nil {
			b = b.WithAffectedResources(qh.AffectedResources)
		}
		return b
	}
	// ordinary resource without parameters: everything in index ia
	var reg interface {
		Handle(pattern string, hf ...res.Option)
	} = s
	var inner *res.Mux
	if c.Nested {
		inner = res.NewMux("")
		reg = inner
	}
	outName := func(n string) string { // svc.x -> the served name
		if c.Nested && n != "svc" && !strings.HasPrefix(n, "svc.item.") {
			return "svc.n1.n2." + strings.TrimPrefix(n, "svc.")
		}
		return n
	}
	inName := func(n string) string { return strings.Replace(n, "svc.n1.n2.", "svc.", 1) }
	reg.Handle("all", typ, mk(store.QueryHandler{QueryStore: m.qs, Transformer: trans,
		RequestHandler: func(rname string, pp map[string]string) (url.Values, error) { return storeQuery(""), nil }}))
	// ordinary resource with a path parameter: ids whose key starts with $p
	reg.Handle("by.$p", typ, mk(store.QueryHandler{QueryStore: m.qs, Transformer: trans,
		RequestHandler: func(rname string, pp map[string]string) (url.Values, error) { return storeQuery(pp["p"]), nil },
		AffectedResources: func(p res.Pattern, qc store.QueryChange) []string {
			set := map[string]bool{}
			for _, v := range []interface{}{qc.Before(), qc.After()} {
				if v == nil {
					continue
				}
				r := v.(Rec)
				k := keyBytes(r.A)
				for i := 1; i <= len(k); i++ {
					if validTok(string(k[:i])) {
						set[string(p.ReplaceTag("p", string(k[:i])))] = true
					}
				}
			}
			var out []string
			for k := range set {
				out = append(out, k)
			}
			sort.Strings(out)
			if c.BogusLast {
				// a resource id no handler serves, after the real ones: the earlier ones must
				// have been dealt with all the same
				out = append(out, "svc.nosuch.x")
			}
			return out
		}}))
	// query resource
	reg.Handle("search", typ, mk(store.QueryHandler{QueryStore: m.qs, Transformer: trans,
		QueryRequestHandler: func(rname string, pp map[string]string, q url.Values) (url.Values, string, error) {
			p := q.Get("prefix")
			if p != "" && !validTok(p) {
				return nil, "", &res.Error{Code: res.CodeInvalidQuery, Message: "bad prefix"}
			}
			return storeQuery(p), "prefix=" + p, nil
		}}))
	s.Handle("item.$id", res.Model, res.GetResource(func(r res.GetRequest) { r.NotFound() }))
	if c.Nested {
		// assembled bottom-up: inner into mid, then mid into the service
		mid := res.NewMux("")
		mid.Mount("n2", inner)
		s.Mount("n1", mid)
	}
	conn := fakeconn.New()
	rn, err := svc.Start(s, conn, nil)
	if err != nil {
		return "start: " + err.Error(), false
	}
	defer rn.Stop()

	get := func(rid string) (string, error) {
		name, q := rid, ""
		if i := strings.IndexByte(rid, '?'); i >= 0 {
			name, q = rid[:i], rid[i+1:]
		}
		payload, _ := json.Marshal(map[string]string{"query": q})
		reply, n := rn.Send("get."+outName(name), payload)
		if n != 1 {
			return "", fmt.Errorf("get not delivered")
		}
		if err := rn.WaitDone(reply, 1); err != nil {
			return "", err
		}
		_, resp := rn.Replies(reply)
		if len(resp) != 1 {
			return "", svc.Behaviour(fmt.Sprintf("get %s: %d responses", rid, len(resp)))
		}
		var p struct {
			Result *struct {
				Model, Collection json.RawMessage
			}
			Error *res.Error
		}
		_ = json.Unmarshal(resp[0], &p)
		if p.Error != nil {
			return "error:" + p.Error.Code, nil
		}
		if p.Result == nil {
			return "", svc.Behaviour(fmt.Sprintf("a get of %s is answered with %s", rid, resp[0]))
		}
		if c.Model {
			return canon(p.Result.Model), nil
		}
		return canon(p.Result.Collection), nil
	}
	cl := &hclient{cache: map[string]string{}}
	for _, rid := range c.Held {
		v, err := get(rid)
		if err != nil {
			return svc.Verdict(err), false
		}
		cl.cache[rid] = v
	}
	replySeq := 0
	during := false
	_ = during
	pendingMark := -1
	for i, op := range c.Ops {
		mark := conn.LogLen()
		if pendingMark >= 0 {
			mark = pendingMark // the client has not looked at what the previous mutations published yet
		}
		var merr error
		done := false
		if i < len(c.During) && c.During[i] != "" {
			m.mu.Lock()
			m.scanHook = func() {
				done = true
				if merr = m.mutate(op); merr == nil {
					m.qs.Flush()
				}
			}
			m.mu.Unlock()
			// the get raced the mutation: what it returns may be either state
			if _, err := get(c.During[i]); err != nil {
				return svc.Verdict(err), nontrivial
			}
			m.mu.Lock()
			m.scanHook = nil
			m.mu.Unlock()
			if done && merr == nil {
				during = true
			}
		}
		if !done {
			merr = m.mutate(op)
		}
		if merr != nil {
			if pendingMark < 0 || i < len(c.Ops)-1 {
				continue
			}
		}
		m.qs.Flush()
		if i < len(c.Defer) && c.Defer[i] && i < len(c.Ops)-1 {
			// the client deals with this mutation's messages together with the next one's
			pendingMark = mark
			continue
		}
		pendingMark = -1
		// what was published for this mutation
		var resets []string
		queryEvents := map[string][]string{} // rname -> subjects
		events := map[string][]fakeconn.Entry{}
		for _, e := range conn.LogFrom(mark) {
			if e.Kind != "pub" {
				continue
			}
			switch {
			case e.Subject == "system.reset":
				var p struct{ Resources []string }
				_ = json.Unmarshal(e.Data, &p)
				for _, r := range p.Resources {
					resets = append(resets, inName(r))
				}
			case strings.HasPrefix(e.Subject, "event.") && strings.HasSuffix(e.Subject, ".query"):
				var p struct{ Subject string }
				_ = json.Unmarshal(e.Data, &p)
				rname := inName(strings.TrimSuffix(strings.TrimPrefix(e.Subject, "event."), ".query"))
				queryEvents[rname] = append(queryEvents[rname], p.Subject)
			case strings.HasPrefix(e.Subject, "event."):
				rest := inName(strings.TrimPrefix(e.Subject, "event."))
				j := strings.LastIndexByte(rest, '.')
				events[rest[:j]] = append(events[rest[:j]], e)
			}
		}
		if d := duringOf(c, i); d != "" {
			// the resource whose get raced the mutation, fetched again
			fresh, err := get(d)
			if err != nil {
				return svc.Verdict(err), nontrivial
			}
			if want, ok := wantOf(d); ok && fresh != want {
				return fmt.Sprintf("mutation %d %+v was made (and flushed) during a get of %s; the next get of it returns %s, the query store holds %s", i, op, d, fresh, want), true
			}
		}
		for _, rid := range c.Held {
			name, q := rid, ""
			if j := strings.IndexByte(rid, '?'); j >= 0 {
				name, q = rid[:j], rid[j+1:]
			}
			fresh, err := get(rid)
			if err != nil {
				return svc.Verdict(err), nontrivial
			}
			if want, ok := wantOf(rid); ok && fresh != want {
				return fmt.Sprintf("after mutation %d %+v (flushed; made during a get of %q) a get of %s returns %s, the query store holds %s", i, op, duringOf(c, i), rid, fresh, want), true
			}
			told := false
			for _, r := range resets {
				if res.Pattern(r).Matches(name) {
					told = true
					cl.cache[rid] = fresh // a reset makes the client refetch
				}
			}
			if len(events[name]) > 0 {
				told = true
				cl.cache[rid] = fresh // (badgerstore never emits fine-grained events; a mock would need applying them)
			}
			if q != "" || name == "svc.search" {
				for _, subj := range queryEvents[name] {
					told = true
					replySeq++
					reply := fmt.Sprintf("_INBOX.hq%d", replySeq)
					payload, _ := json.Marshal(map[string]string{"query": q})
					if q == "" {
						payload, _ = json.Marshal(map[string]string{"query": "prefix="})
					}
					resps, err := rn.QueryResponse(outName(name), subj, reply, payload)
					if err != nil {
						return err.Error(), nontrivial
					}
					if len(resps) != 1 {
						return fmt.Sprintf("mutation %d %+v: the query request %s on the query event of %s got %d responses (a callback queued behind it on the resource has run): %q", i, op, payload, name, len(resps), resps), true
					}
					data := resps[0]
					var p struct {
						Result *struct {
							Events            []json.RawMessage
							Model, Collection json.RawMessage
						}
						Error *res.Error
					}
					_ = json.Unmarshal(data, &p)
					switch {
					case p.Result != nil && p.Result.Collection != nil:
						cl.cache[rid] = canon(p.Result.Collection)
					case p.Result != nil && p.Result.Model != nil:
						cl.cache[rid] = canon(p.Result.Model)
					case p.Result != nil && len(p.Result.Events) == 0:
						// nothing changed for this query
					default:
						return fmt.Sprintf("query response %s for %s is neither a result nor an empty event list", data, rid), nontrivial
					}
				}
			}
			if fresh != cl.cache[rid] {
				nontrivial = true
				if !told {
					return fmt.Sprintf("mutation %d %+v changed what a fresh get of %s returns (client holds %s, fresh get %s) but neither a reset, an event nor a query event reached the client", i, op, rid, cl.cache[rid], fresh), nontrivial
				}
				return fmt.Sprintf("mutation %d %+v: after applying what the client was given for %s it holds %s, a fresh get returns %s", i, op, rid, cl.cache[rid], fresh), nontrivial
			}
			if told {
				nontrivial = true
			}
		}
	}
	return "", nontrivial
}

func duringOf(c HCase, i int) string {
	if i < len(c.During) {
		return c.During[i]
	}
	return ""
}

func TestC14Handler(t *testing.T) {
	ev := evid.For("C14")
	ev.SetRule("handler-level cases: a service with store.QueryHandler resources over a real badgerstore QueryStore (ordinary resource, ordinary resource with a path parameter and an AffectedResources callback, query resource; served as collections or as models through the IDToRID transformers), a client holding 1-4 results, 1-25 mutations; after every mutation + Flush the client applies the resets / events / query-event responses it received and must equal a fresh get; non-trivial when some mutation changed or touched a held result")
	rapid.Check(t, func(rt *rapid.T) {
		c := HCase{Model: rapid.Bool().Draw(rt, "model"), BogusLast: rapid.IntRange(0, 3).Draw(rt, "bogus") == 0, Builder: rapid.Bool().Draw(rt, "builder")}
		c.Cfg.Prefix = rapid.SampledFrom([]string{"", "pfx"}).Draw(rt, "prefix")
		c.Cfg.SlowKey = rapid.SampledFrom([]int{0, 0, 1}).Draw(rt, "slow")
		pool := []string{"svc.all", "svc.by.a", "svc.by.b", "svc.by.ab", "svc.search?prefix=a", "svc.search?prefix=", "svc.search?prefix=ab", "svc.search"}
		c.Held = rapid.SliceOfNDistinct(rapid.SampledFrom(pool), 1, 4, rapid.ID[string]).Draw(rt, "held")
		n := rapid.IntRange(1, 25).Draw(rt, "nops")
		for i := 0; i < n; i++ {
			k := rapid.SampledFrom([]string{"create", "create", "update", "update", "delete"}).Draw(rt, "k")
			c.Ops = append(c.Ops, Op{K: k, ID: rapid.SampledFrom(idAlpha).Draw(rt, "id"), A: rapid.SampledFrom([]string{"a", "b", "ab", "aa", "ba", "~nil", "", "a:", "b~"}).Draw(rt, "a")})
			d := ""
			if rapid.IntRange(0, 3).Draw(rt, "during") == 0 {
				d = rapid.SampledFrom(pool).Draw(rt, "duringRID")
			}
			c.During = append(c.During, d)
			c.Defer = append(c.Defer, rapid.IntRange(0, 3).Draw(rt, "defer") == 0)
		}
		c.Nested = rapid.IntRange(0, 2).Draw(rt, "nested") == 0
		msg, nt := runHandler(c)
		ev.Case(nt, evid.Hash("handler", c.String()), "handler")
		if msg != "" {
			rt.Fatalf("%s\ncase: %s", msg, c)
		}
		if nt {
			ev.Sample("handler", 2, func() interface{} { return c })
		}
	})
}
