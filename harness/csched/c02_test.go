package csched

import (
	"fmt"
	"testing"

	"pgregory.net/rapid"

	"verifharness/internal/evid"
)

func TestC02OrderExactlyOnce(t *testing.T) {
	ev := evid.For("C02")
	ev.SetRule("cases = the schedules of C01 (same machine); every submission X has an interval [begin,end] in controller steps (With*: call started / call returned; request: pushed on the connection / listener done); for X.end < Y.begin in one group, or two requests in delivery order, X's callback must start first; at every quiescence reached while started every accepted submission has run exactly once, always at most once; With errs exactly when the reference router finds no handler; a schedule is non-trivial when it has >=1 ordered pair of submissions of one group coming from >=2 different sources and reached quiescence at least once; distinct = hash of the case")
	ev.Assume("overlapping submission intervals impose no order (only happens-before order is demanded)")
	rapid.Check(t, func(rt *rapid.T) {
		c := genCase("excl").Draw(rt, "case")
		out := runInBubble(t, c)
		kinds := map[string]bool{}
		for _, sb := range out.Subs {
			if len(sb.Starts) > 0 {
				kinds[sb.Kind] = true
			}
		}
		nt := out.OrderedPairs > 0 && len(kinds) >= 2 && out.Quiesced > 0
		ev.Case(nt, evid.Hash(c.String()), fmt.Sprintf("workers-%d", c.Cfg.Workers))
		ev.Add("ordered-pairs", int64(out.OrderedPairs))
		ev.Add("quiescences", int64(out.Quiesced))
		ev.Add("submissions", int64(len(out.Subs)))
		if len(out.Viol["C02"]) > 0 {
			rt.Fatalf("%s\ncase: %s\ntrace: %v", out.Viol["C02"][0], c, out.Trace)
		}
		if nt {
			ev.Sample("ordered", 2, func() interface{} { return map[string]interface{}{"case": c, "trace": out.Trace} })
		}
	})
}

func TestC03Shutdown(t *testing.T) {
	ev := evid.For("C03")
	ev.SetRule("cases = schedules with all close/shutdown/runWith/publish gates active and programs that mix Shutdown and restart (1-3 cycles on fresh connections) with With*/request submissions, foreign-goroutine Reset/ResetAll/TokenEvent/TokenEventWithID/TokenReset/resource events and query events; after Shutdown is invoked and a fair drain finished, synctest.Wait() must find the Shutdown and Serve goroutines finished (a goroutine still blocked is blocked forever), no harness goroutine recovered a panic, every started callback finished before Shutdown returned, none started after, the connection was closed once, and the bubble ends with no goroutine left; a schedule is non-trivial when close was entered while another goroutine was parked between a started-check and its use of the queue/connection, or a callback was mid-execution; distinct = hash of the case")
	ev.Assume("liveness is exact inside the bubble: blocked after a fair drain means blocked forever")
	rapid.Check(t, func(rt *rapid.T) {
		c := genCase("shutdown").Draw(rt, "case")
		out := runInBubble(t, c)
		ev.Case(out.ShutdownDuringActivity, evid.Hash(c.String()), fmt.Sprintf("cycles-%d", out.Cycles))
		ev.Add("early-restarts-accepted", int64(out.EarlyRestarts))
		if len(out.Viol["C03"]) > 0 {
			rt.Fatalf("%s\ncase: %s\ntrace: %v", out.Viol["C03"][0], c, out.Trace)
		}
		if out.ShutdownDuringActivity {
			ev.Sample("shutdown-during-activity", 2, func() interface{} { return map[string]interface{}{"case": c, "trace": out.Trace} })
		}
	})
}
