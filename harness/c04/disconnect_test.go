package c04

import (
	"fmt"
	"sync"
	"testing"
	"time"

	res "github.com/jirenius/go-res"
	nats "github.com/nats-io/nats.go"
	"pgregory.net/rapid"

	"verifharness/internal/evid"
	"verifharness/internal/natsrv"
)

// TestPropDisconnect: a real service on a real client connection that reaches the embedded
// NATS server through a proxy. Requests are sent by a client connected directly. While k of
// the handlers are running, the service's connection is cut; the handlers reply during the
// outage (some only after it); the connection comes back. Every request must still be
// answered exactly once.
func TestPropDisconnect(t *testing.T) {
	ev := evid.For("C04")
	rapid.Check(t, func(rt *rapid.T) {
		n := rapid.IntRange(1, 6).Draw(rt, "requests")
		// (every request must have reached the service before the cut - a request lost in transit
		// is NATS's at-most-once delivery, not the service's doing - so all handlers run at once)
		workers := n + rapid.IntRange(0, 2).Draw(rt, "spare")
		// per request: reply while cut off (true) or after the connection is back (false)
		during := make([]bool, n)
		for i := range during {
			during[i] = rapid.IntRange(0, 3).Draw(rt, "during") > 0
		}
		kinds := make([]string, n)
		for i := range kinds {
			kinds[i] = rapid.SampledFrom([]string{"get", "call", "access", "auth"}).Draw(rt, "kind")
		}
		srv, err := natsrv.Start()
		if err != nil {
			rt.Fatalf("VERIF-INCONCLUSIVE: %v", err)
		}
		defer srv.Stop()
		px, err := srv.Proxy()
		if err != nil {
			rt.Fatalf("VERIF-INCONCLUSIVE: %v", err)
		}
		defer px.Close()
		var running, replied sync.WaitGroup
		running.Add(n)
		replied.Add(n)
		replyNow, replyLate := make(chan struct{}), make(chan struct{})
		wait := func(r res.Resource) {
			i := 0
			_, _ = fmt.Sscanf(r.PathParam("id"), "%d", &i)
			running.Done()
			if i < n && during[i] {
				<-replyNow
			} else {
				<-replyLate
			}
		}
		s := res.NewService("svc")
		s.SetLogger(nil)
		s.SetWorkerCount(workers)
		s.Handle("m.$id",
			res.Access(func(r res.AccessRequest) { defer replied.Done(); wait(r); r.AccessGranted() }),
			res.GetModel(func(r res.ModelRequest) {
				defer replied.Done()
				wait(r)
				r.Model(map[string]string{"id": r.PathParam("id")})
			}),
			res.Call("do", func(r res.CallRequest) { defer replied.Done(); wait(r); r.OK(r.PathParam("id")) }),
			res.Auth("do", func(r res.AuthRequest) { defer replied.Done(); wait(r); r.OK(r.PathParam("id")) }),
		)
		// answered at once: a probe sent after every handler has replied
		s.Handle("probe", res.GetModel(func(r res.ModelRequest) { r.Model(map[string]int{"probe": 1}) }))
		started := make(chan struct{})
		s.SetOnServe(func(*res.Service) { close(started) })
		disc, reconn := make(chan struct{}, 4), make(chan struct{}, 4)
		s.SetOnDisconnect(func(*res.Service) { disc <- struct{}{} })
		s.SetOnReconnect(func(*res.Service) { reconn <- struct{}{} })
		exited := make(chan error, 1)
		go func() { exited <- s.ListenAndServe(px.URL, nats.ReconnectWait(10*time.Millisecond)) }()
		stop := func() {
			_ = s.Shutdown()
			select {
			case <-exited:
			case <-time.After(10 * time.Second):
			}
		}
		select {
		case <-started:
		case err := <-exited:
			rt.Fatalf("VERIF-INCONCLUSIVE: ListenAndServe: %v", err)
		case <-time.After(20 * time.Second):
			rt.Fatalf("VERIF-INCONCLUSIVE: ListenAndServe did not start")
		}
		// (OnServe is called once the subscriptions have been handed to the client library, not
		// once the server has them: a ping round trip on the service's connection comes first)
		if snc, ok := s.Conn().(*nats.Conn); !ok || snc.FlushTimeout(60*time.Second) != nil {
			stop()
			rt.Fatalf("VERIF-INCONCLUSIVE: the service's connection could not be flushed after the start")
		}
		client, err := srv.Connect()
		if err != nil {
			stop()
			rt.Fatalf("VERIF-INCONCLUSIVE: %v", err)
		}
		defer client.Close()
		subs := make([]*nats.Subscription, n)
		for i := 0; i < n; i++ {
			inbox := nats.NewInbox()
			sub, err := client.SubscribeSync(inbox)
			if err != nil {
				stop()
				rt.Fatalf("VERIF-INCONCLUSIVE: %v", err)
			}
			subs[i] = sub
			subj := fmt.Sprintf("%s.svc.m.%d", kinds[i], i)
			if kinds[i] == "call" || kinds[i] == "auth" {
				subj += ".do"
			}
			if err := client.PublishRequest(subj, inbox, nil); err != nil {
				stop()
				rt.Fatalf("VERIF-INCONCLUSIVE: %v", err)
			}
		}
		_ = client.Flush()
		okc := make(chan struct{})
		go func() { running.Wait(); close(okc) }()
		select {
		case <-okc:
		case <-time.After(60 * time.Second):
			close(replyNow)
			close(replyLate)
			stop()
			rt.Fatalf("VERIF-INCONCLUSIVE: the handlers did not start")
		}
		px.Cut()
		select {
		case <-disc:
		case <-time.After(10 * time.Second):
			close(replyNow)
			close(replyLate)
			stop()
			rt.Fatalf("VERIF-INCONCLUSIVE: the service did not notice the outage")
		}
		close(replyNow) // replies given while cut off
		time.Sleep(5 * time.Millisecond)
		px.Restore()
		select {
		case <-reconn:
		case <-time.After(10 * time.Second):
			close(replyLate)
			stop()
			rt.Fatalf("VERIF-INCONCLUSIVE: the service did not reconnect")
		}
		close(replyLate)
		// Every handler has handed its reply to the connection; then a probe request is sent
		// and answered. Messages of one connection arrive in order, so once the probe's response
		// is here, every reply that was not lost is here as well (no wall-clock verdict).
		allReplied := make(chan struct{})
		go func() { replied.Wait(); close(allReplied) }()
		select {
		case <-allReplied:
		case <-time.After(60 * time.Second):
			stop()
			rt.Fatalf("VERIF-INCONCLUSIVE: the handlers did not finish within 60s")
		}
		// (the client library reports the reconnect before the server has necessarily processed
		// the re-sent subscriptions: a ping round trip on the service's connection comes first)
		if snc, ok := s.Conn().(*nats.Conn); !ok || snc.FlushTimeout(60*time.Second) != nil {
			stop()
			rt.Fatalf("VERIF-INCONCLUSIVE: the service's connection could not be flushed after the reconnect")
		}
		if _, err := client.Request("get.svc.probe", nil, 60*time.Second); err != nil {
			stop()
			rt.Fatalf("VERIF-INCONCLUSIVE: the probe request was not answered within 60s: %v", err)
		}
		msg := ""
		for i, sub := range subs {
			m, err := sub.NextMsg(200 * time.Millisecond)
			if err != nil {
				msg = fmt.Sprintf("request %d (%s, replied %s) got no response although a later request on the same connection has been answered", i, kinds[i], map[bool]string{true: "while the service was cut off", false: "after the reconnect"}[during[i]])
				break
			}
			if len(m.Data) == 0 || m.Data[0] != '{' {
				msg = fmt.Sprintf("request %d (%s) got %q", i, kinds[i], m.Data)
				break
			}
		}
		if msg == "" {
			time.Sleep(20 * time.Millisecond)
			for i, sub := range subs {
				if m, err := sub.NextMsg(time.Millisecond); err == nil {
					msg = fmt.Sprintf("request %d (%s) got a second response %q", i, kinds[i], m.Data)
					break
				}
			}
		}
		stop()
		nd := 0
		for _, d := range during {
			if d {
				nd++
			}
		}
		ev.Case(nd > 0, evid.Hash("disconnect", n, workers, fmt.Sprint(during), fmt.Sprint(kinds)), "real-nats-disconnect")
		if msg != "" {
			rt.Fatalf("%s (requests %v, replies during the outage %v, %d workers)", msg, kinds, during, workers)
		}
	})
}
