package c07

import (
	"encoding/json"
	"fmt"
	"os"
	"reflect"
	"strings"
	"testing"

	res "github.com/jirenius/go-res"
	"pgregory.net/rapid"

	"verifharness/internal/evid"
	"verifharness/internal/fakeconn"
	"verifharness/internal/gen"
	"verifharness/internal/protoval"
	"verifharness/internal/refmux"
	"verifharness/internal/reqcase"
	"verifharness/internal/script"
	"verifharness/internal/svc"
)

const prop = "C07"

func TestMain(m *testing.M) { os.Exit(evid.Main(m)) }

var ev = evid.For(prop)

func init() {
	ev.SetRule("cases = (a) request-pipeline cases (generated handler sets, requests, behaviour scripts with reply/meta/timeout/event/panic actions and values incl. unmarshalable ones) and (b) service-level cases (TokenEvent, TokenEventWithID, TokenReset, Reset, ResetAll and resource events from With callbacks with resource names, event names and connection ids drawn from the full legal character set); every message on the connection is validated against the RES service protocol by an independent validator, responses additionally against the predicted meta/pre-responses/unmarshalable outcome; a case is non-trivial when it published a message whose payload has an escaped string, nested data value or meta, or involved an unmarshalable value; distinct = hash of the case Also (c) concurrent batches whose scripts are prefixed with 0-4 extra Timeout calls (non-trivial when >=4 pre-responses were published or a message is non-trivial as above) and (d) query-request cases: 1-3 query events with 1-6 query requests each, answered by default/custom InvalidQuery, NotFound, Error, events, model/collection values, panics, nothing, or sent with malformed/query-less payloads (non-trivial when a default InvalidQuery follows an earlier query request of the same event).")
	ev.Assume("request payloads carry protocol-conformant connection ids where an auth handler emits a token event on the request's connection")
}

func hasEscapes(b []byte) bool {
	return strings.Contains(string(b), `\`) || strings.Contains(string(b), `{"data":`) || strings.Contains(string(b), `"meta"`)
}

func validateLog(log []fakeconn.Entry, replies map[string]protoval.ReqInfo) (string, bool) {
	nt := false
	for _, e := range log {
		if e.Kind != "pub" {
			continue
		}
		if msg := protoval.Msg(e.Subject, e.Data, replies); msg != "" {
			return fmt.Sprintf("published %s %q: %s", e.Subject, e.Data, msg), nt
		}
		if hasEscapes(e.Data) {
			nt = true
		}
	}
	return "", nt
}

func cidOK(rq *reqcase.ReqSpec) bool {
	var cid string
	if v, ok := rq.Fields["cid"]; ok {
		_ = json.Unmarshal(v, &cid)
	}
	return refmux.ValidPart(cid)
}

func TestPropRequests(t *testing.T) {
	rapid.Check(t, func(t *rapid.T) {
		c := reqcase.GenCase().Draw(t, "case")
		// token events on the requester's connection need a conformant cid (a gateway always sends one)
		for i := range c.Reqs {
			if !cidOK(&c.Reqs[i]) {
				var s script.Script
				for _, a := range c.Reqs[i].Script {
					if a.Op != "tokenevent" {
						s = append(s, a)
					}
				}
				c.Reqs[i].Script = s
			}
		}
		r := reqcase.Run(&c)
		if r.StartErr != nil || r.WaitErr != nil {
			t.Fatalf("run: %v %v", r.StartErr, r.WaitErr)
		}
		replies := map[string]protoval.ReqInfo{}
		unm := false
		for i, ob := range r.Obs {
			replies[ob.Reply] = protoval.ReqInfo{IsHTTP: string(c.Reqs[i].Fields["isHttp"]) == "true"}
		}
		// the probe's reply subject
		for _, e := range r.Log {
			if e.Kind == "pub" && strings.HasPrefix(e.Subject, "_INBOX.reply.") {
				if _, ok := replies[e.Subject]; !ok {
					replies[e.Subject] = protoval.ReqInfo{}
				}
			}
		}
		msg, nt := validateLog(r.Log, replies)
		if msg != "" {
			t.Fatalf("%s\ncase: %s", msg, c)
		}
		if len(r.NoReplyPubs) > 0 {
			t.Fatalf("a message without reply subject made the service publish %q\ncase: %s", r.NoReplyPubs, c)
		}
		// per-request: predicted meta, pre-responses, unmarshalable -> internalError
		for i, ob := range r.Obs {
			m, u := checkReq(&c, &c.Reqs[i], ob)
			unm = unm || u
			if m != "" {
				t.Fatalf("%s", m)
			}
		}
		ev.Case(nt || unm, evid.Hash(c.String()), "request-case")
		if nt || unm {
			ev.Sample("request-case", 3, func() interface{} {
				var pubs []string
				for _, e := range r.Log {
					if e.Kind == "pub" {
						pubs = append(pubs, e.Subject+" "+string(e.Data))
					}
				}
				return map[string]interface{}{"case": c, "published": pubs}
			})
		}
	})
}

// checkReq compares one request's response meta, pre-responses and marshal-failure
// mapping with the script model; it returns a violation and whether the case had an
// unmarshalable value.
func checkReq(c *reqcase.Case, rq *reqcase.ReqSpec, ob reqcase.Obs) (string, bool) {
	unm := false
	d := reqcase.Route(c, rq)
	if d.Probe || d.Marker == "" || ob.Delivered != 1 {
		return "", false
	}
	o := script.Predict(rq.Script, reqcase.Ctx(c, rq, d))
	if len(ob.Resp) == 0 && !d.Silent {
		// "a value that cannot be marshalled produces a system.internalError response rather
		// than a malformed or missing message"
		for _, a := range rq.Script {
			if a.V != nil && (a.V.Unmarshalable() || a.V.MarshalPanics()) && o.Class == "error" && o.Code == res.CodeInternalError {
				return fmt.Sprintf("request %s script %s: a handler value that cannot be marshalled left the request without any response", rq.Subject, rq.Script), true
			}
		}
	}
	if len(ob.Resp) != 1 {
		return "", false
	}
	var p struct {
		Error *struct{ Code string } `json:"error"`
		Meta  *struct {
			Status int                 `json:"status"`
			Header map[string][]string `json:"header"`
		} `json:"meta"`
	}
	_ = json.Unmarshal(ob.Resp[0], &p)
	if o.Unmarshalable {
		unm = true
		if p.Error == nil || p.Error.Code != res.CodeInternalError {
			return fmt.Sprintf("request %s script %s: unmarshalable handler value must give system.internalError, got %s", rq.Subject, rq.Script, ob.Resp[0]), unm
		}
	}
	wantMeta := o.Status != 0 || len(o.Header) > 0
	if wantMeta != (p.Meta != nil) {
		return fmt.Sprintf("request %s script %s: meta present=%v, expected %v (status %d header %v): %s", rq.Subject, rq.Script, p.Meta != nil, wantMeta, o.Status, o.Header, ob.Resp[0]), unm
	}
	if wantMeta {
		if p.Meta.Status != o.Status || (len(o.Header) > 0 || len(p.Meta.Header) > 0) && !reflect.DeepEqual(p.Meta.Header, o.Header) {
			return fmt.Sprintf("request %s script %s: meta %+v, expected status %d header %v", rq.Subject, rq.Script, *p.Meta, o.Status, o.Header), unm
		}
	}
	var pre []string
	for _, b := range ob.Pre {
		pre = append(pre, string(b))
	}
	if fmt.Sprint(pre) != fmt.Sprint(o.PreResponses) {
		return fmt.Sprintf("request %s script %s: pre-responses %q, expected %q", rq.Subject, rq.Script, pre, o.PreResponses), unm
	}
	return "", unm
}

// TestPropConcurrentRequests: the same message validator and per-request model on a
// concurrent batch (several workers, handlers running in parallel on different
// resources); scripts are prefixed with extra Timeout calls of different durations so
// that pre-responses of different requests are published at the same time.
func TestPropConcurrentRequests(t *testing.T) {
	rapid.Check(t, func(t *rapid.T) {
		c := reqcase.Case{Name: "svc", Workers: rapid.SampledFrom([]int{2, 4, 16}).Draw(t, "workers")}
		c.Handlers = reqcase.GenHandlers().Draw(t, "handlers")
		for i := range c.Handlers {
			c.Handlers[i].Group = ""
		}
		nshape := rapid.IntRange(2, 8).Draw(t, "nshape")
		var shapes []reqcase.ReqSpec
		for i := 0; i < nshape; i++ {
			rq := reqcase.GenRequest(c.Name, c.Handlers, "").Draw(t, "shape")
			if !cidOK(&rq) {
				var s script.Script
				for _, a := range rq.Script {
					if a.Op != "tokenevent" {
						s = append(s, a)
					}
				}
				rq.Script = s
			}
			nto := rapid.IntRange(0, 4).Draw(t, "ntimeouts")
			var pre script.Script
			for k := 0; k < nto; k++ {
				pre = append(pre, script.Act{Op: "timeout", N: rapid.SampledFrom([]int{0, 7, 45, 300, 1234, 56789, 86400000}).Draw(t, "ms")})
			}
			rq.Script = append(pre, rq.Script...)
			shapes = append(shapes, rq)
		}
		n := rapid.IntRange(8, 150).Draw(t, "nreq")
		for i := 0; i < n; i++ {
			rq := shapes[rapid.IntRange(0, nshape-1).Draw(t, "which")]
			if rq.Fields == nil {
				continue
			}
			cp := map[string]json.RawMessage{}
			for k, v := range rq.Fields {
				cp[k] = v
			}
			rq.Fields = cp
			c.Reqs = append(c.Reqs, rq)
		}
		if len(c.Reqs) == 0 {
			return
		}
		reqcase.TagQueries(&c)
		r := reqcase.RunConcurrent(&c)
		if r.StartErr != nil || r.WaitErr != nil {
			t.Fatalf("run: %v %v", r.StartErr, r.WaitErr)
		}
		replies := map[string]protoval.ReqInfo{}
		for i, ob := range r.Obs {
			replies[ob.Reply] = protoval.ReqInfo{IsHTTP: string(c.Reqs[i].Fields["isHttp"]) == "true"}
		}
		for _, e := range r.Log {
			if e.Kind == "pub" && strings.HasPrefix(e.Subject, "_INBOX.reply.") {
				if _, ok := replies[e.Subject]; !ok {
					replies[e.Subject] = protoval.ReqInfo{}
				}
			}
		}
		msg, nt := validateLog(r.Log, replies)
		if msg != "" {
			t.Fatalf("%s\nhandlers: %+v", msg, c.Handlers)
		}
		npre := 0
		for i, ob := range r.Obs {
			m, _ := checkReq(&c, &c.Reqs[i], ob)
			if m != "" {
				t.Fatalf("concurrent batch of %d (workers %d): %s", len(c.Reqs), c.Workers, m)
			}
			npre += len(ob.Pre)
		}
		ev.Case(nt || npre >= 4, evid.Hash(c.String()), "concurrent-batch")
		ev.Add("concurrent-pre-responses", int64(npre))
	})
}

var partRunes = func() []rune {
	var v []rune
	for c := rune(33); c <= 126; c++ {
		if c != '.' && c != '*' && c != '>' && c != '?' {
			v = append(v, c)
		}
	}
	return v
}()

func genPart() *rapid.Generator[string] {
	return rapid.OneOf(rapid.SampledFrom([]string{"a", "abc123", "$x", "\"", "\\", "{}", "~!@#%^&()", "A-_", "a$b"}), rapid.StringOfN(rapid.RuneFrom(partRunes), 1, 10, -1))
}

type svcOp struct {
	Op    string     `json:"op"`
	CID   string     `json:"cid,omitempty"`
	TID   string     `json:"tid,omitempty"`
	TIDs  []string   `json:"tids,omitempty"`
	Subj  string     `json:"subj,omitempty"`
	V     *gen.Val   `json:"v,omitempty"`
	Res   []string   `json:"res,omitempty"`
	Acc   []string   `json:"acc,omitempty"`
	RName string     `json:"rname,omitempty"`
	Q     string     `json:"q,omitempty"`
	Ev    script.Act `json:"ev,omitempty"`
}

func TestPropServiceLevel(t *testing.T) {
	rapid.Check(t, func(t *rapid.T) {
		n := rapid.IntRange(1, 6).Draw(t, "nops")
		var ops []svcOp
		for i := 0; i < n; i++ {
			o := svcOp{Op: rapid.SampledFrom([]string{"token", "tokenid", "tokenreset", "reset", "resetall", "event", "event"}).Draw(t, "op")}
			switch o.Op {
			case "token", "tokenid":
				o.CID = rapid.OneOf(genPart(), rapid.SampledFrom([]string{"", "a.b", "a b", "x*", "é", "a?"})).Draw(t, "cid")
				v := gen.AnyVal(100).Draw(t, "token")
				o.V = &v
				o.TID = rapid.OneOf(rapid.SampledFrom([]string{"", "tid1"}), gen.StringTricky()).Draw(t, "tid")
			case "tokenreset":
				o.Subj = rapid.SampledFrom([]string{"auth.svc.renew", "a", "", "a..b", "a.*", "svc.x.y.z", "a b"}).Draw(t, "subj")
				o.TIDs = rapid.SliceOfN(rapid.OneOf(rapid.SampledFrom([]string{"t1", "t2", ""}), gen.StringTricky()), 0, 3).Draw(t, "tids")
			case "reset":
				o.Res = rapid.SliceOfN(rapid.SampledFrom([]string{"svc.>", "svc.a", "svc.*.b", ">", "x.y"}), 0, 3).Draw(t, "res")
				o.Acc = rapid.SliceOfN(rapid.SampledFrom([]string{"svc.>", "svc.a", ">"}), 0, 2).Draw(t, "acc")
			case "event":
				k := rapid.IntRange(1, 3).Draw(t, "ntok")
				toks := make([]string, k)
				for j := range toks {
					toks[j] = genPart().Draw(t, "tok")
				}
				o.RName = "svc." + strings.Join(toks, ".")
				o.Ev = genEventAct(t)
				// the resource id given to With may carry a query; events go to the resource name
				o.Q = rapid.SampledFrom([]string{"", "", "?q=1", "?", "?a=b&c=d"}).Draw(t, "ridquery")
			}
			ops = append(ops, o)
		}
		s := res.NewService("svc")
		s.SetWorkerCount(2)
		s.Handle(">", res.GetResource(func(r res.GetRequest) { r.NotFound() }), res.Access(res.AccessGranted))
		conn := fakeconn.New()
		r, err := svc.Start(s, conn, nil)
		if err != nil {
			t.Fatalf("%v", err)
		}
		unm := false
		for _, o := range ops {
			before := conn.LogLen()
			var pan interface{}
			func() {
				defer func() { pan = recover() }()
				switch o.Op {
				case "token":
					s.TokenEvent(o.CID, o.V.Go())
				case "tokenid":
					s.TokenEventWithID(o.CID, o.TID, o.V.Go())
				case "tokenreset":
					s.TokenReset(o.Subj, o.TIDs...)
				case "reset":
					s.Reset(o.Res, o.Acc)
				case "resetall":
					s.ResetAll()
				case "event":
					done := make(chan interface{}, 1)
					if err := s.With(o.RName+o.Q, func(rr res.Resource) {
						defer func() { done <- recover() }()
						script.ExecEvent(o.Ev, rr)
					}); err != nil {
						t.Fatalf("With(%q): %v", o.RName+o.Q, err)
					}
					<-done
					for _, e := range conn.LogFrom(before) {
						if e.Kind == "pub" && strings.HasPrefix(e.Subject, "event.") && !strings.HasPrefix(e.Subject, "event."+o.RName+".") {
							t.Fatalf("an event emitted in With(%q) was published on %q, expected event.%s.<name>", o.RName+o.Q, e.Subject, o.RName)
						}
					}
				}
			}()
			pubs := conn.LogFrom(before)
			switch o.Op {
			case "token", "tokenid":
				validCID := refmux.ValidPart(o.CID)
				if !validCID {
					if pan == nil || len(pubs) != 0 {
						t.Fatalf("TokenEvent with invalid cid %q: panicked=%v published=%v; must be rejected and publish nothing", o.CID, pan, pubs)
					}
					continue
				}
				if pan != nil {
					t.Fatalf("TokenEvent(%q) panicked: %v", o.CID, pan)
				}
				if o.V.Unmarshalable() {
					unm = true
					if len(pubs) != 0 {
						t.Fatalf("TokenEvent with unmarshalable token published %v", pubs)
					}
					continue
				}
				if len(pubs) != 1 || pubs[0].Subject != "conn."+o.CID+".token" {
					t.Fatalf("TokenEvent(%q): published %v", o.CID, pubs)
				}
				var p struct {
					Token json.RawMessage `json:"token"`
					TID   *string         `json:"tid"`
				}
				_ = json.Unmarshal(pubs[0].Data, &p)
				if !gen.JSONEqual(p.Token, o.V.Wire()) {
					t.Fatalf("TokenEvent token %s, supplied %s", p.Token, o.V.Wire())
				}
				if o.Op == "tokenid" && o.TID != "" && (p.TID == nil || *p.TID != o.TID) {
					t.Fatalf("TokenEventWithID tid %v, supplied %q: %s", p.TID, o.TID, pubs[0].Data)
				}
			case "tokenreset":
				okSubj := o.Subj != "" && refmux.PatternValidity(o.Subj) == refmux.Valid && refmux.IndexWildcard(o.Subj) == -1
				if !okSubj {
					if pan == nil || len(pubs) != 0 {
						t.Fatalf("TokenReset with invalid subject %q: panicked=%v published=%v", o.Subj, pan, pubs)
					}
					continue
				}
				if pan != nil {
					t.Fatalf("TokenReset(%q) panicked: %v", o.Subj, pan)
				}
				if len(o.TIDs) == 0 {
					if len(pubs) != 0 {
						t.Fatalf("TokenReset without token ids published %v", pubs)
					}
					continue
				}
				var p struct {
					TIDs    []string `json:"tids"`
					Subject string   `json:"subject"`
				}
				if len(pubs) != 1 || pubs[0].Subject != "system.tokenReset" || json.Unmarshal(pubs[0].Data, &p) != nil || !reflect.DeepEqual(p.TIDs, o.TIDs) || p.Subject != o.Subj {
					t.Fatalf("TokenReset(%q, %q): published %v", o.Subj, o.TIDs, pubs)
				}
			case "reset":
				if len(o.Res) == 0 && len(o.Acc) == 0 {
					if len(pubs) != 0 {
						t.Fatalf("Reset with nothing to reset published %v", pubs)
					}
					continue
				}
				var p struct {
					Resources []string `json:"resources"`
					Access    []string `json:"access"`
				}
				if len(pubs) != 1 || pubs[0].Subject != "system.reset" || json.Unmarshal(pubs[0].Data, &p) != nil || fmt.Sprint(p.Resources) != fmt.Sprint(o.Res) || fmt.Sprint(p.Access) != fmt.Sprint(o.Acc) {
					t.Fatalf("Reset(%v,%v): published %v", o.Res, o.Acc, pubs)
				}
			}
		}
		_ = r.Stop()
		msg, nt := validateLog(conn.Log(), map[string]protoval.ReqInfo{})
		if msg != "" {
			b, _ := json.Marshal(ops)
			t.Fatalf("%s\nops: %s", msg, b)
		}
		b, _ := json.Marshal(ops)
		ev.Case(nt || unm, evid.Hash(string(b)), "service-level")
		if nt {
			ev.Sample("service-level", 2, func() interface{} { return json.RawMessage(b) })
		}
	})
}

func genEventAct(t *rapid.T) script.Act {
	s := script.Gen("call", false, false, false).Draw(t, "evscript")
	for _, a := range s {
		if strings.HasPrefix(a.Op, "ev-") && a.Op != "ev-reset" {
			return a
		}
	}
	v := gen.ResValue(false).Draw(t, "v")
	return script.Act{Op: "ev-custom", S: genPart().Draw(t, "evname"), V: &v}
}
