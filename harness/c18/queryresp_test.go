package c18

import (
	"encoding/json"
	"fmt"
	"reflect"
	"testing"
	"time"

	res "github.com/jirenius/go-res"
	"github.com/jirenius/go-res/resprot"
	"pgregory.net/rapid"

	"verifharness/internal/evid"
	"verifharness/internal/fakeconn"
	"verifharness/internal/gen"
	"verifharness/internal/svc"
)

// qrStep is what the query event callback does for one query request.
type qrStep struct {
	Events []int  `json:"events"` // values of the events added first (models: change a=<n>; collections: add <n> at 0)
	Then   string `json:"then"`   // "" (events are the answer), model, collection, notfound, invalidquery, error, panic
}

// TestPropQueryResponses: several query requests on ONE query event. The response to each,
// parsed by the client package, is a result holding exactly the events that request's callback
// added, or the model / collection / error it answered with instead - never anything of an
// earlier request on the same query event.
func TestPropQueryResponses(t *testing.T) {
	rapid.Check(t, func(rt *rapid.T) {
		coll := rapid.Bool().Draw(rt, "collection")
		n := rapid.IntRange(1, 6).Draw(rt, "requests")
		steps := make([]qrStep, n)
		for i := range steps {
			k := rapid.IntRange(0, 3).Draw(rt, "nevents")
			for j := 0; j < k; j++ {
				steps[i].Events = append(steps[i].Events, 10*i+j+1)
			}
			steps[i].Then = rapid.SampledFrom([]string{"", "", "", "model", "collection", "notfound", "invalidquery", "error", "panic"}).Draw(rt, "then")
		}
		cur := make(chan qrStep, 1)
		s := res.NewService("svc")
		s.SetWorkerCount(1)
		s.SetLogger(nil)
		s.SetQueryEventDuration(time.Hour)
		typ := res.Model
		if coll {
			typ = res.Collection
		}
		s.Handle("m", typ, res.Call("qe", func(r res.CallRequest) {
			r.QueryEvent(func(qr res.QueryRequest) {
				if qr == nil {
					return
				}
				st := <-cur
				for _, v := range st.Events {
					if coll {
						qr.AddEvent(v, 0)
					} else {
						qr.ChangeEvent(map[string]interface{}{"a": v})
					}
				}
				switch st.Then {
				case "model":
					qr.Model(map[string]int{"fresh": 1})
				case "collection":
					qr.Collection([]int{7, 8})
				case "notfound":
					qr.NotFound()
				case "invalidquery":
					qr.InvalidQuery("bad")
				case "error":
					qr.Error(&res.Error{Code: "custom.q", Message: "m"})
				case "panic":
					panic("after events")
				}
			})
			r.OK(nil)
		}))
		conn := fakeconn.New()
		qsubj := ""
		conn.OnPublish = func(e fakeconn.Entry) {
			if e.Subject == "event.svc.m.query" {
				var p struct{ Subject string }
				_ = json.Unmarshal(e.Data, &p)
				qsubj = p.Subject
			}
		}
		rn, err := svc.Start(s, conn, nil)
		if err != nil {
			rt.Fatalf("%v", err)
		}
		defer rn.Stop()
		reply, _ := rn.Send("call.svc.m.qe", nil)
		_ = rn.WaitDone(reply, 1)
		if qsubj == "" {
			rt.Fatalf("no query event")
		}
		explicit := 0
		for i, st := range steps {
			cur <- st
			reply := rn.NewReply()
			conn.Deliver(qsubj, reply, []byte(fmt.Sprintf(`{"query":"i=%d"}`, i)))
			var resp [][]byte
			deadline := time.Now().Add(20 * time.Second)
			for len(resp) == 0 && time.Now().Before(deadline) {
				_, resp = rn.Replies(reply)
				if len(resp) == 0 {
					time.Sleep(20 * time.Microsecond)
				}
			}
			if len(resp) != 1 {
				rt.Fatalf("VERIF-INCONCLUSIVE: request %d %+v: %d responses within 20s", i, st, len(resp))
			}
			p := resprot.ParseResponse(resp[0])
			fail := func(want string) {
				b, _ := json.Marshal(steps[:i+1])
				rt.Fatalf("query request %d of %d on one query event (%s; callback: %+v): expected %s, the response is %s\nrequests so far: %s", i, n, map[bool]string{true: "collection", false: "model"}[coll], st, want, resp[0], b)
			}
			wantErr := func(code string) {
				if !p.HasError() || p.Error.Code != code {
					fail("error " + code)
				}
			}
			then := st.Then
			if (then == "model" && coll) || (then == "collection" && !coll) {
				then = "wrongtype"
			}
			if then != "" {
				explicit++
			}
			switch then {
			case "":
				var r struct {
					Events []struct {
						Event string          `json:"event"`
						Data  json.RawMessage `json:"data"`
					} `json:"events"`
				}
				if !p.HasResult() || json.Unmarshal(p.Result, &r) != nil || len(r.Events) != len(st.Events) {
					fail(fmt.Sprintf("a result with the %d events of this request", len(st.Events)))
				}
				for j, e := range r.Events {
					want := fmt.Sprintf(`{"values":{"a":%d}}`, st.Events[j])
					if coll {
						want = fmt.Sprintf(`{"value":%d,"idx":0}`, st.Events[j])
					}
					if !gen.JSONEqual(e.Data, []byte(want)) {
						fail("event " + want + " at position " + fmt.Sprint(j))
					}
				}
			case "model":
				var r struct{ Model json.RawMessage }
				if !p.HasResult() || json.Unmarshal(p.Result, &r) != nil || !gen.JSONEqual(r.Model, []byte(`{"fresh":1}`)) {
					fail(`the model {"fresh":1}`)
				}
			case "collection":
				var r struct{ Collection json.RawMessage }
				if !p.HasResult() || json.Unmarshal(p.Result, &r) != nil || !gen.JSONEqual(r.Collection, []byte(`[7,8]`)) {
					fail("the collection [7,8]")
				}
			case "notfound":
				wantErr(res.CodeNotFound)
			case "invalidquery":
				wantErr(res.CodeInvalidQuery)
			case "error":
				wantErr("custom.q")
			default: // panic, or a model on a collection / a collection on a model
				wantErr(res.CodeInternalError)
			}
		}
		b, _ := json.Marshal(steps)
		ev.Case(n >= 2 && explicit > 0, evid.Hash("queryresp", coll, string(b)), "query-responses")
	})
}

// TestPropParseResultReuse: a client that polls keeps one destination variable and parses
// every response's result into it. After each ParseResult the destination is what decoding
// the same results, one after the other, with the standard decoder gives - a null result
// sets a pointer destination to nil like any other null. (Map destinations are left out: the
// library leaves a map as it is on a null result, see DESIGN.)
func TestPropParseResultReuse(t *testing.T) {
	type item struct {
		A int      `json:"a"`
		B string   `json:"b"`
		C []string `json:"c"`
	}
	rapid.Check(t, func(rt *rapid.T) {
		n := rapid.IntRange(2, 8).Draw(rt, "responses")
		var dst, ref *item
		nulls := 0
		for i := 0; i < n; i++ {
			text := rapid.SampledFrom([]string{`null`, `null`, `{"a":1}`, `{"a":2,"b":"x"}`, `{"c":["p","q"]}`, `{}`, `{"b":"y","c":[]}`}).Draw(rt, "result")
			if text == "null" {
				nulls++
			}
			p := resprot.ParseResponse([]byte(`{"result":` + text + `}`))
			if !p.HasResult() {
				rt.Fatalf("response %d with result %s is not classified as a result: %+v", i, text, p)
			}
			e1 := p.ParseResult(&dst)
			e2 := json.Unmarshal([]byte(text), &ref)
			if (e1 == nil) != (e2 == nil) || !reflect.DeepEqual(dst, ref) {
				rt.Fatalf("response %d: ParseResult of the result %s into a reused *item gives %+v (error %v); decoding the same results in turn gives %+v (error %v)", i, text, dst, e1, ref, e2)
			}
		}
		ev.Case(nulls > 0 && nulls < n, evid.Hash("parseresultreuse", n, nulls), "parse-result-reuse")
	})
}
