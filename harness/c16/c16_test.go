package c16

import (
	"encoding/json"
	"fmt"
	"math/rand/v2"
	"net/url"
	"os"
	"path/filepath"
	"regexp"
	"runtime"
	"sort"
	"strconv"
	"strings"
	"sync"
	"sync/atomic"
	"testing"
	"time"

	res "github.com/jirenius/go-res"
	"github.com/jirenius/go-res/logger"
	"github.com/jirenius/go-res/store"
	"github.com/jirenius/go-res/store/badgerstore"
	"github.com/jirenius/go-res/store/mockstore"
	"pgregory.net/rapid"

	"verifharness/internal/bdb"
	"verifharness/internal/evid"
	"verifharness/internal/fakeconn"
)

const prop = "C16"

func TestMain(m *testing.M) { os.Exit(evid.Main(m)) }

var ev = evid.For(prop)

func init() {
	ev.SetRule("cases = generated concurrent client programs: 2-16 goroutines each running a list of public-API operations within the documented threading rules (deliver get/call/access requests for many resources, With/WithResource/WithGroup, Reset/ResetAll/TokenEvent/TokenReset, mockstore and badgerstore transactions whose change callbacks emit events through store.Handler / QueryHandler from the caller's goroutine, QueryEvent + query requests, index queries + Flush, logger reads, Shutdown and restart), handlers touching unsynchronised per-group scratch memory, with a drawn perturbation profile (yield/sleep probabilities at the verif hook points); the binary is built with -race and every race report is parsed; a program is non-trivial when >=2 goroutines used >=2 API families concurrently and the service processed >=50 callbacks; distinct = hash of the program")
	ev.Assume("dynamic race detection: only races on executed paths under observed schedules are seen; absence is not established")
	ev.Assume("a report counts against go-res when the top frame of either access is go-res source or the harness scratch memory; reports with both accesses inside third-party packages are logged as dependency_races")
}

// Op is one API operation.
type Op struct {
	K   string `json:"k"`
	RID string `json:"rid,omitempty"`
	N   int    `json:"n,omitempty"`
}

// Program is a concurrent client program.
type Program struct {
	Workers  int    `json:"workers"`
	Yield    int    `json:"yield"` // permille of hook visits that yield
	Sleep    int    `json:"sleep"` // permille of hook visits that sleep a few microseconds
	Threads  [][]Op `json:"threads"`
	Restarts int    `json:"restarts"`
	// Epilogue: emit query events, shut down before they expire, let them expire while
	// stopped, serve again and run callbacks on the same groups.
	Epilogue bool `json:"epilogue,omitempty"`
	// StdLog: the service logs (with trace on) to a logger.StdLogger instead of the MemLogger.
	StdLog bool `json:"stdLog,omitempty"`
}

func (p Program) String() string { b, _ := json.Marshal(p); return string(b) }

// one unsynchronised word per worker group; the map is built before any service starts and only read afterwards
var scratch = func() map[string]*int {
	m := map[string]*int{}
	for _, g := range []string{"shared", "gx", "svc.bq", "tg.a", "tg.b"} {
		m[g] = new(int)
	}
	for _, p := range []string{"svc.r.", "svc.ms.", "svc.bs.", "svc.us.", "svc.s.", "svc.p."} {
		for i := 0; i < 10; i++ {
			m[p+strconv.Itoa(i)] = new(int)
		}
		m[p+"x"] = new(int)
	}
	return m
}()

//go:noinline
func scratchTouch(g string) {
	if p := scratch[g]; p != nil {
		*p++
	}
}

// one unsynchronised slot per worker group holding the resource/request object of the
// group's previous callback; a later callback of the same group reads its accessors
var kept = func() map[string]*res.Resource {
	m := map[string]*res.Resource{}
	for g := range scratch {
		m[g] = new(res.Resource)
	}
	return m
}()

//go:noinline
func scratchTouchKeep(g string, r res.Resource) int {
	p := kept[g]
	if p == nil {
		return 0
	}
	n := 0
	if old := *p; old != nil {
		n = len(old.ResourceName()) + len(old.PathParams()) + len(old.Group())
	}
	*p = r
	return n
}

//go:noinline
func scratchRead(g string) int {
	if p := scratch[g]; p != nil {
		return *p
	}
	return 0
}

type rec struct {
	A string `json:"a"`
	N int    `json:"n"`
}

type world struct {
	s       *res.Service
	conn    atomic.Pointer[fakeconn.Conn]
	mst     *mockstore.Store
	bst     *badgerstore.Store
	ust     *badgerstore.Store // untyped store: no SetType, values are map[string]interface{}
	cst     *badgerstore.Store // collections: values are []string
	std     *logger.StdLogger  // writes to the null device
	// sharedErr: an error value without code that several handlers, on different workers, pass
	// to Error at the same time (read-only use, like the library's predefined errors)
	sharedErr atomic.Pointer[res.Error]
	qs      *badgerstore.QueryStore
	log     *logger.MemLogger
	cbs     int64
	cleanup func()
	qsubj   sync.Map
	serveMu sync.Mutex
	exited  chan error
}

func newWorld(p Program) (*world, error) {
	w := &world{}
	w.sharedErr.Store(&res.Error{Message: "shared error without a code"})
	db, _, cleanup, err := bdb.OpenTemp("c16")
	if err != nil {
		return nil, err
	}
	w.cleanup = cleanup
	w.log = logger.NewMemLogger().SetTrace(true)
	// a StdLogger whose output goes to the null device (it captures os.Stderr when it is
	// made; nothing else runs yet). The race detector writes its reports to fd 2 itself.
	if null, err := os.OpenFile(os.DevNull, os.O_WRONLY, 0); err == nil {
		old := os.Stderr
		os.Stderr = null
		w.std = logger.NewStdLogger().SetTrace(true)
		os.Stderr = old
	}
	s := res.NewService("svc")
	if p.StdLog && w.std != nil {
		s.SetLogger(w.std)
	} else {
		s.SetLogger(w.log)
	}
	s.SetWorkerCount(p.Workers)
	s.SetQueryEventDuration(20 * time.Millisecond)
	touch := func(r res.Resource) {
		atomic.AddInt64(&w.cbs, 1)
		g := r.Group()
		if g == "" {
			return // parallel resources give no exclusion
		}
		scratchTouch(g)
		scratchTouchKeep(g, r)
	}
	s.Handle("r.$id", res.Access(res.AccessGranted),
		res.GetModel(func(r res.ModelRequest) { touch(r); r.Model(map[string]int{"v": scratchRead(r.Group())}) }),
		res.Call("do", func(r res.CallRequest) {
			touch(r)
			r.Timeout(time.Duration(1000+len(r.ResourceName())+len(r.CID())) * time.Millisecond)
			r.ChangeEvent(map[string]interface{}{"n": len(r.ResourceName())})
			r.OK(nil)
		}),
		res.Call("query", func(r res.CallRequest) {
			touch(r)
			g := r.Group()
			r.QueryEvent(func(qr res.QueryRequest) {
				if qr == nil {
					// the final call belongs to the group's callbacks as well
					scratchTouch(g)
					return
				}
				touch(qr)
				qr.Timeout(time.Duration(2000+len(qr.Query())) * time.Millisecond)
				qr.NotFound()
			})
			r.OK(nil)
		}))
	s.Handle("s.$id", res.Group("shared"), res.GetModel(func(r res.ModelRequest) { touch(r); r.Model(map[string]int{"v": 1}) }),
		res.Call("do", func(r res.CallRequest) { touch(r); r.Event("ping", nil); r.OK(nil) }))
	s.Handle("t.$tag.$id", res.Group("tg.${tag}"), res.GetModel(func(r res.ModelRequest) { touch(r); r.Model(map[string]int{"v": 1}) }),
		res.Call("do", func(r res.CallRequest) { touch(r); r.OK(nil) }),
		// catch-all methods: many method names, each seen for the first time on some resource
		res.Call("*", func(r res.CallRequest) { touch(r); r.OK(r.Method()) }),
		res.Auth("*", func(r res.AuthRequest) { touch(r); r.OK(r.Method()) }))
	s.Handle("e.$id", res.Call("fail", func(r res.CallRequest) {
		// a package-level error value without code, shared by all handlers like the library's own
		// predefined errors
		touch(r)
		r.Error(w.sharedErr.Load())
	}))
	s.Handle("w.$id", res.GetModel(func(r res.ModelRequest) { touch(r); r.Model(map[string]int{"v": 1}) }),
		res.Call("*", func(r res.CallRequest) { touch(r); r.OK(r.Method()) }),
		res.Auth("*", func(r res.AuthRequest) { touch(r); r.OK(r.Method()) }))
	s.Handle("p.$id", res.Parallel(true), res.GetModel(func(r res.ModelRequest) { atomic.AddInt64(&w.cbs, 1); r.Model(map[string]int{"v": 1}) }),
		res.Call("do", func(r res.CallRequest) {
			atomic.AddInt64(&w.cbs, 1)
			r.Timeout(time.Duration(3000+len(r.ResourceName())) * time.Millisecond)
			r.OK(nil)
		}),
		res.Call("query", func(r res.CallRequest) {
			// a query event on a Parallel resource: its query requests are served concurrently
			atomic.AddInt64(&w.cbs, 1)
			r.QueryEvent(func(qr res.QueryRequest) {
				if qr == nil {
					return
				}
				atomic.AddInt64(&w.cbs, 1)
				if len(qr.Query())%2 == 0 {
					qr.NotFound()
				} else {
					qr.Model(map[string]string{"q": qr.Query()})
				}
			})
			r.OK(nil)
		}))
	// store backed resources
	w.mst = mockstore.NewStore()
	s.Handle("ms.$id", res.Model, store.Handler{Store: w.mst, Transformer: store.IDTransformer("id", nil)})
	w.bst = badgerstore.NewStore(db).SetType(rec{}).SetPrefix("b")
	// the index queries are prepared once per prefix and handed out again (read-only use)
	var prepMu sync.Mutex
	prepared := map[string]*badgerstore.IndexQuery{}
	w.qs = badgerstore.NewQueryStore(w.bst, func(qs *badgerstore.QueryStore, q url.Values) (*badgerstore.IndexQuery, error) {
		prepMu.Lock()
		defer prepMu.Unlock()
		iq := prepared[q.Get("p")]
		if iq == nil {
			iq = &badgerstore.IndexQuery{Index: qs.Index("ia"), KeyPrefix: []byte(q.Get("p")), Limit: -1}
			prepared[q.Get("p")] = iq
		}
		return iq, nil
	})
	w.qs.AddIndex(badgerstore.Index{Name: "ia", Key: func(v interface{}) []byte { return []byte(v.(rec).A) }})
	s.Handle("bs.$id", res.Model, store.Handler{Store: w.bst, Transformer: store.IDTransformer("id", nil)})
	w.ust = badgerstore.NewStore(db).SetPrefix("u")
	s.Handle("us.$id", res.Model, store.Handler{Store: w.ust, Transformer: store.IDTransformer("id", nil)})
	// a parameterised query resource: every change affects two of its resources, whose query
	// requests are then served at the same time by different workers
	s.Handle("bp.$p", res.Collection, store.QueryHandler{QueryStore: w.qs,
		QueryRequestHandler: func(rname string, pp map[string]string, q url.Values) (url.Values, string, error) {
			return url.Values{"p": {q.Get("p")}}, "p=" + q.Get("p"), nil
		},
		AffectedResources: func(p res.Pattern, qc store.QueryChange) []string {
			return []string{string(p.ReplaceTag("p", "a")), string(p.ReplaceTag("p", "b"))}
		},
		Transformer: store.IDToRIDCollectionTransformer(func(id string) string { return "svc.bs." + id })})
	w.cst = badgerstore.NewStore(db).SetType([]string{}).SetPrefix("c")
	s.Handle("cs.$id", res.Collection, store.Handler{Store: w.cst, Transformer: store.IDTransformer("id", nil)})
	s.Handle("bq", res.Collection, store.QueryHandler{QueryStore: w.qs,
		QueryRequestHandler: func(rname string, pp map[string]string, q url.Values) (url.Values, string, error) {
			return url.Values{"p": {q.Get("p")}}, "p=" + q.Get("p"), nil
		},
		Transformer: store.IDToRIDCollectionTransformer(func(id string) string { return "svc.bs." + id })})
	w.s = s
	return w, nil
}

func (w *world) serve() error {
	w.serveMu.Lock()
	defer w.serveMu.Unlock()
	conn := fakeconn.New()
	conn.OnPublish = func(e fakeconn.Entry) {
		if strings.HasSuffix(e.Subject, ".query") {
			var p struct{ Subject string }
			if json.Unmarshal(e.Data, &p) == nil {
				w.qsubj.Store(p.Subject, true)
			}
		}
	}
	served := make(chan struct{})
	w.s.SetOnServe(func(*res.Service) { close(served) })
	exited := make(chan error, 1)
	w.exited = exited
	w.conn.Store(conn)
	go func() { exited <- w.s.Serve(conn) }()
	select {
	case <-served:
		return nil
	case err := <-exited:
		return fmt.Errorf("serve returned: %v", err)
	case <-time.After(20 * time.Second):
		return fmt.Errorf("VERIF-INCONCLUSIVE: service did not start")
	}
}

func (w *world) shutdown() {
	w.serveMu.Lock()
	defer w.serveMu.Unlock()
	if w.exited == nil {
		return
	}
	_ = w.s.Shutdown()
	select {
	case <-w.exited:
	case <-time.After(20 * time.Second):
	}
	w.exited = nil
}

var replySeq int64

func (w *world) exec(op Op, family map[string]bool, mu *sync.Mutex) {
	note := func(f string) {
		mu.Lock()
		family[f] = true
		mu.Unlock()
	}
	defer func() { _ = recover() }()
	conn := w.conn.Load()
	reply := func() string { return "_INBOX.c16." + strconv.FormatInt(atomic.AddInt64(&replySeq, 1), 10) }
	switch op.K {
	case "get":
		note("request")
		conn.Deliver("get."+op.RID, reply(), nil)
	case "call":
		note("request")
		conn.Deliver("call."+op.RID+".do", reply(), []byte(`{"cid":"c1"}`))
	case "sharederr":
		note("request")
		// a fresh error value, then four handlers on different resources use it at once
		w.sharedErr.Store(&res.Error{Message: "shared error without a code " + strconv.Itoa(op.N)})
		for k := 0; k < 4; k++ {
			conn.Deliver("call.svc.e."+strconv.Itoa(k)+".fail", reply(), []byte(`{"cid":"c1"}`))
		}
	case "callstar":
		// a method served by the catch-all handler; the names vary
		note("request")
		rid := []string{"svc.w.1", "svc.w.2", "svc.w.3", "svc.t.a.1", "svc.t.b.1"}[op.N%5]
		typ := []string{"call", "auth"}[(op.N/5)%2]
		conn.Deliver(typ+"."+rid+".m"+strconv.Itoa(op.N%17), reply(), []byte(`{"cid":"c1"}`))
	case "access":
		note("request")
		conn.Deliver("access."+op.RID, reply(), []byte(`{"cid":"c1","token":{"a":1}}`))
	case "callquery":
		note("query")
		conn.Deliver("call."+op.RID+".query", reply(), nil)
	case "qreq":
		note("query")
		w.qsubj.Range(func(k, _ interface{}) bool {
			conn.Deliver(k.(string), reply(), []byte(`{"query":"p=a"}`))
			conn.Deliver(k.(string), reply(), []byte(`{"query":"p=ab"}`))
			return op.N%2 == 0
		})
	case "with":
		note("with")
		_ = w.s.With(op.RID, func(r res.Resource) {
			atomic.AddInt64(&w.cbs, 1)
			if g := r.Group(); g != "" {
				scratchTouch(g)
			}
			if op.N%3 == 0 {
				r.Event("fromwith", op.N)
			}
		})
	case "withgroup":
		note("with")
		g := []string{"shared", "svc.r.1", "gx"}[op.N%3]
		w.s.WithGroup(g, func(*res.Service) { atomic.AddInt64(&w.cbs, 1); scratchTouch(g) })
	case "withres":
		note("with")
		if r, err := w.s.Resource(op.RID); err == nil {
			w.s.WithResource(r, func() {
				atomic.AddInt64(&w.cbs, 1)
				if g := r.Group(); g != "" {
					scratchTouch(g)
				}
			})
		}
	case "reset":
		note("service")
		w.s.Reset([]string{"svc.r.>"}, nil)
	case "resetall":
		note("service")
		w.s.ResetAll()
	case "token":
		note("service")
		w.s.TokenEvent("c1", map[string]int{"n": op.N})
	case "tokenreset":
		note("service")
		w.s.TokenReset("auth.svc.login", "tid1")
	case "mstore":
		note("store")
		id := strconv.Itoa(op.N % 4)
		tx := w.mst.Write(id)
		switch op.N % 3 {
		case 0:
			_ = tx.Create(map[string]interface{}{"n": op.N})
		case 1:
			_ = tx.Update(map[string]interface{}{"n": op.N})
		default:
			_ = tx.Delete()
		}
		_ = tx.Close()
	case "bstore":
		note("store")
		id := strconv.Itoa(op.N % 4)
		tx := w.bst.Write(id)
		switch op.N % 3 {
		case 0:
			_ = tx.Create(rec{A: "a" + id, N: op.N})
		case 1:
			_ = tx.Update(rec{A: []string{"a", "b"}[op.N%2] + id, N: op.N})
		default:
			_ = tx.Delete()
		}
		_ = tx.Close()
	case "ustore":
		note("store")
		id := strconv.Itoa(op.N % 4)
		tx := w.ust.Write(id)
		switch op.N % 3 {
		case 0:
			_ = tx.Create(map[string]interface{}{"n": op.N})
		case 1:
			_ = tx.Update(map[string]interface{}{"n": op.N, "a": "x"})
		default:
			_ = tx.Delete()
		}
		_ = tx.Close()
	case "cstore":
		// collections of one store.Handler changed from several goroutines at once
		note("store")
		id := strconv.Itoa(op.N % 4)
		tx := w.cst.Write(id)
		// (the collection is made sure to exist, then changed twice: two diffs per operation)
		base := make([]string, 0, 48)
		for i := 0; i < 40; i++ {
			base = append(base, "e"+strconv.Itoa(i))
		}
		_ = tx.Create(base)
		v1 := append(append([]string{"x" + strconv.Itoa(op.N)}, base[op.N%7:]...), "tail")
		_ = tx.Update(v1)
		v2 := append([]string{}, base[:20+op.N%15]...)
		_ = tx.Update(append(v2, strconv.Itoa(op.N)))
		if op.N%5 == 0 {
			_ = tx.Delete()
		}
		_ = tx.Close()
	case "stdlog":
		note("logger")
		if w.std != nil {
			switch op.N % 3 {
			case 0:
				w.std.Infof("info %d from %s", op.N, op.RID)
			case 1:
				w.std.Errorf("error %d", op.N)
			default:
				w.std.Tracef("trace %s %d", op.RID, op.N)
			}
		}
	case "uread":
		note("store")
		tx := w.ust.Read(strconv.Itoa(op.N % 4))
		_, _ = tx.Value()
		_ = tx.Close()
		_, _ = w.ust.Get(strconv.Itoa(op.N % 4))
	case "bread":
		note("store")
		tx := w.bst.Read(strconv.Itoa(op.N % 4))
		_, _ = tx.Value()
		_ = tx.Exists()
		_ = tx.Close()
	case "bquery":
		note("index")
		_, _ = w.qs.Query(url.Values{"p": {[]string{"", "a", "b"}[op.N%3]}})
	case "bflush":
		note("index")
		w.qs.Flush()
	case "logread":
		note("logger")
		_ = w.log.String()
	case "restart":
		note("lifecycle")
		w.shutdown()
		_ = w.serve()
	case "sleep":
		time.Sleep(time.Duration(op.N%200) * time.Microsecond)
	}
}

// ---- race report parsing ------------------------------------------------------------

type report struct {
	Text  string
	Tops  []string // top frame function of each access
	Files []string
	Kind  string // gores harness dependency
	Key   string
}

// altRepo: (experiments only) the checkout of go-res that the harness was built against
// instead of /repo, see VERIF_REPO in bin/check.
var altRepo = func() string {
	if d := os.Getenv("VERIF_REPO"); d != "" {
		return strings.TrimSuffix(d, "/") + "/"
	}
	return ""
}()

var frameRe = regexp.MustCompile(`(?m)^  (\S+)\(.*\)\n\s+(\S+):\d+`)

func parseReports(text string) []report {
	var out []report
	for _, chunk := range strings.Split(text, "==================") {
		if !strings.Contains(chunk, "WARNING: DATA RACE") {
			continue
		}
		r := report{Text: strings.TrimSpace(chunk)}
		// access stacks: blocks starting with "Read at"/"Write at"/"Previous read at"/"Previous write at"
		blocks := regexp.MustCompile(`(?m)^(Previous )?(?i:read|write|atomic read|atomic write) at .*$`).FindAllStringIndex(chunk, -1)
		for _, b := range blocks {
			rest := chunk[b[1]:]
			if end := strings.Index(rest, "\n\n"); end >= 0 {
				rest = rest[:end]
			}
			// first frame outside the Go runtime / standard library
			for _, m := range frameRe.FindAllStringSubmatch(rest, -1) {
				if strings.HasPrefix(m[2], "/opt/veriftools/go") || strings.HasPrefix(m[2], "/usr/local/go") {
					continue
				}
				r.Tops = append(r.Tops, m[1])
				r.Files = append(r.Files, m[2])
				break
			}
		}
		r.Kind = "dependency"
		for i, f := range r.Files {
			switch {
			case (strings.HasPrefix(f, "/repo/") || altRepo != "" && strings.HasPrefix(f, altRepo)) && !strings.HasSuffix(f, "_test.go"):
				r.Kind = "gores"
			case strings.Contains(r.Tops[i], "scratchTouch") || strings.Contains(r.Tops[i], "scratchRead"):
				r.Kind = "gores"
			case strings.Contains(f, "/verif/harness"):
				if r.Kind == "dependency" {
					r.Kind = "harness"
				}
			}
		}
		tops := append([]string(nil), r.Tops...)
		sort.Strings(tops)
		r.Key = strings.Join(tops, " <-> ")
		out = append(out, r)
	}
	return out
}

var raceOffset int64

var (
	hookOnce             sync.Once
	hookYield, hookSleep int64
)

func newRaceReports() []report {
	dir := os.Getenv("VERIF_WORK")
	if dir == "" {
		return nil
	}
	files, _ := filepath.Glob(filepath.Join(dir, "race.*"))
	var all string
	for _, f := range files {
		b, _ := os.ReadFile(f)
		all += string(b)
	}
	if int64(len(all)) <= raceOffset {
		return nil
	}
	n := all[raceOffset:]
	raceOffset = int64(len(all))
	return parseReports(n)
}

// runProgram executes one program; returns the reports that appeared, number of callbacks and families used.
func runProgram(p Program) (reports []report, cbs int64, families int, err error) {
	w, err := newWorld(p)
	if err != nil {
		return nil, 0, 0, err
	}
	defer w.cleanup()
	atomic.StoreInt64(&hookYield, int64(p.Yield))
	atomic.StoreInt64(&hookSleep, int64(p.Sleep))
	hookOnce.Do(func() {
		hook := func(string, interface{}) {
			x := int64(rand.IntN(1000))
			y, sl := atomic.LoadInt64(&hookYield), atomic.LoadInt64(&hookSleep)
			if x < y {
				runtime.Gosched()
			} else if x < y+sl {
				time.Sleep(time.Duration(1+rand.IntN(20)) * time.Microsecond)
			}
		}
		res.VerifHook = hook
		badgerstore.VerifHook = hook
	})
	if err := w.serve(); err != nil {
		return nil, 0, 0, err
	}
	fam := map[string]bool{}
	var fmu sync.Mutex
	var wg sync.WaitGroup
	for _, th := range p.Threads {
		wg.Add(1)
		go func(ops []Op) {
			defer wg.Done()
			for _, op := range ops {
				w.exec(op, fam, &fmu)
			}
		}(th)
	}
	wg.Wait()
	w.qs.Flush()
	if p.Epilogue {
		// query events that expire while the service is stopped, then a second cycle using the same groups
		for _, rid := range []string{"svc.r.1", "svc.r.2", "svc.r.3"} {
			w.exec(Op{K: "callquery", RID: rid}, fam, &fmu)
		}
		time.Sleep(2 * time.Millisecond)
		w.shutdown()
		time.Sleep(25 * time.Millisecond)
		if err := w.serve(); err != nil {
			return nil, 0, 0, err
		}
		for i := 0; i < 3; i++ {
			for _, rid := range []string{"svc.r.1", "svc.r.2", "svc.r.3"} {
				w.exec(Op{K: "call", RID: rid}, fam, &fmu)
				w.exec(Op{K: "with", RID: rid, N: 1}, fam, &fmu)
			}
		}
		time.Sleep(2 * time.Millisecond)
	}
	time.Sleep(25 * time.Millisecond) // let query events expire
	w.shutdown()
	time.Sleep(2 * time.Millisecond)
	return newRaceReports(), atomic.LoadInt64(&w.cbs), len(fam), nil
}

var rids = []string{"svc.r.1", "svc.r.2", "svc.r.3", "svc.s.1", "svc.s.2", "svc.p.1", "svc.ms.1", "svc.bs.1", "svc.us.1", "svc.bq", "svc.nosuch.1", "svc.nosuch.2", "svc.r.1", "svc.r.2", "svc.t.a.1", "svc.t.b.1", "svc.t.a.2", "svc.p.1", "svc.p.2"}

func genProgram() *rapid.Generator[Program] {
	return rapid.Custom(func(t *rapid.T) Program {
		p := Program{Workers: rapid.SampledFrom([]int{1, 2, 4, 8, 32}).Draw(t, "workers")}
		p.Epilogue = rapid.IntRange(0, 3).Draw(t, "epilogue") == 0
		p.StdLog = rapid.IntRange(0, 3).Draw(t, "stdlog") == 0
		p.Yield = rapid.SampledFrom([]int{0, 50, 200, 500}).Draw(t, "yield")
		p.Sleep = rapid.SampledFrom([]int{0, 10, 100}).Draw(t, "sleep")
		nt := rapid.IntRange(2, 16).Draw(t, "threads")
		kinds := []string{"get", "get", "call", "call", "access", "callquery", "qreq", "with", "with", "withgroup", "withres", "reset", "resetall", "token", "tokenreset", "mstore", "mstore", "bstore", "bstore", "bread", "ustore", "ustore", "uread", "bquery", "bflush", "logread", "sleep", "cstore", "cstore", "stdlog", "callstar", "callstar", "qreq", "sharederr", "sharederr"}
		restartThread := -1
		if rapid.IntRange(0, 2).Draw(t, "withrestart") == 0 {
			restartThread = rapid.IntRange(0, nt-1).Draw(t, "rthread")
		}
		for i := 0; i < nt; i++ {
			n := rapid.IntRange(5, 60).Draw(t, "nops")
			var ops []Op
			for j := 0; j < n; j++ {
				op := Op{K: rapid.SampledFrom(kinds).Draw(t, "k"), RID: rapid.SampledFrom(rids).Draw(t, "rid"), N: rapid.IntRange(0, 99).Draw(t, "n")}
				if i == restartThread && j == n/2 {
					op = Op{K: "restart"}
					p.Restarts++
				}
				ops = append(ops, op)
			}
			p.Threads = append(p.Threads, ops)
		}
		return p
	})
}

func knownRace(key string) (string, bool) {
	for _, f := range evid.Findings() {
		if f.Property == prop && f.Status == "known" && strings.Contains(key, f.Key) {
			return f.Key, true
		}
	}
	return "", false
}

func TestPropRaces(t *testing.T) {
	if os.Getenv("VERIF_WORK") == "" {
		t.Skip("needs bin/check (race log directory)")
	}
	_ = newRaceReports()
	dep := 0
	rapid.Check(t, func(rt *rapid.T) {
		p := genProgram().Draw(rt, "program")
		reports, cbs, fams, err := runProgram(p)
		if err != nil {
			rt.Fatalf("VERIF-INCONCLUSIVE: %v", err)
		}
		ev.Case(fams >= 2 && cbs >= 50 && len(p.Threads) >= 2, evid.Hash(p.String()), "program")
		ev.Add("callbacks", cbs)
		if p.Restarts > 0 {
			ev.Label("with-restart")
		}
		for _, r := range reports {
			switch r.Kind {
			case "gores":
				if k, ok := knownRace(r.Key); ok {
					fmt.Printf("KNOWN-FINDING: property=%s data race %s [%s]\n", prop, r.Key, k)
					ev.Exclude(k)
					continue
				}
				evid.Violation(t, prop, "race", "data race involving go-res: "+r.Key, map[string]interface{}{"program": p, "report": r.Text})
				rt.Fatalf("data race involving go-res: %s\n%s", r.Key, r.Text)
			case "harness":
				rt.Fatalf("VERIF-INCONCLUSIVE: data race inside the harness itself: %s\n%s", r.Key, r.Text)
			default:
				dep++
				ev.Label("dependency_race")
			}
		}
		ev.Sample("program", 1, func() interface{} { return p })
	})
	if !t.Failed() {
		// the testing package fails a -race binary on any report, also on those that only involve
		// third-party code; bin/check accepts the run when this line is present
		fmt.Printf("VERIF-RACE-SUMMARY gores=0 harness=0 dependency=%d\n", dep)
	}
}
