package cidx

import (
	"fmt"
	"net/url"
	"runtime"
	"strings"
	"sync"
	"testing"
	"time"

	"github.com/jirenius/go-res/store"
	"github.com/jirenius/go-res/store/badgerstore"
	"pgregory.net/rapid"

	"verifharness/internal/bdb"
	"verifharness/internal/evid"
)

// indexQueueStuck looks at the goroutines of the process: goroutines that wait for room in
// the query store's index queue, and whether the queue's worker goroutine exists. Waiters
// without a worker will never be woken: the store calls blocked there never return, and the
// index updates of their (committed) mutations are never made.
func indexQueueStuck() (waiting int, workerAlive bool) {
	buf := make([]byte, 1<<22)
	buf = buf[:runtime.Stack(buf, true)]
	for _, g := range strings.Split(string(buf), "\n\n") {
		if strings.Contains(g, "taskqueue.(*TaskQueue).processQueue") {
			workerAlive = true
		}
		if strings.Contains(g, "taskqueue.(*TaskQueue).Do") && strings.Contains(g, "sync.(*Cond).Wait") {
			waiting++
		}
	}
	return
}

// runBulkWriters: k goroutines each make m key-changing updates to records of their own, on
// a query store whose index updates are slow, so that the index queue (256 entries) fills up
// and the writers have to wait for room. When every writer has returned and Flush has
// returned, the index agrees with the values (C13) and the query-change callbacks have run
// once per mutation, in mutation order per id (C14).
func runBulkWriters(k, m, slowMicros int, prefix string) (c13, c14 string, full bool) {
	db, _, cleanup, err := bdb.OpenTemp("cidxbulk")
	if err != nil {
		return "VERIF-INCONCLUSIVE: " + err.Error(), "", false
	}
	st := badgerstore.NewStore(db).SetType(Rec{}).SetPrefix(prefix)
	qs := badgerstore.NewQueryStore(st, func(qs *badgerstore.QueryStore, q url.Values) (*badgerstore.IndexQuery, error) {
		return &badgerstore.IndexQuery{Index: qs.Index("ia"), KeyPrefix: []byte(q.Get("p")), Limit: -1}, nil
	})
	qs.AddIndex(badgerstore.Index{Name: "ia", Key: func(v interface{}) []byte {
		r, _ := v.(Rec)
		if r.A == "" {
			return nil
		}
		return []byte(r.A)
	}})
	var cbMu sync.Mutex
	cbLog := map[string][]string{}
	qs.OnQueryChange(func(qc store.QueryChange) {
		if slowMicros > 0 {
			time.Sleep(time.Duration(slowMicros) * time.Microsecond) // a listener that takes its time
		}
		a, _ := qc.After().(Rec)
		cbMu.Lock()
		cbLog[qc.ID()] = append(cbLog[qc.ID()], a.A)
		cbMu.Unlock()
	})
	for i := 0; i < k; i++ {
		tx := st.Write(fmt.Sprintf("w%d", i))
		err := tx.Create(Rec{A: "k0"})
		_ = tx.Close()
		if err != nil {
			cleanup()
			return "create: " + err.Error(), "", false
		}
	}
	qs.Flush()
	cbMu.Lock()
	cbLog = map[string][]string{}
	cbMu.Unlock()
	var wg sync.WaitGroup
	errs := make([]error, k)
	for i := 0; i < k; i++ {
		wg.Add(1)
		go func(i int) {
			defer wg.Done()
			id := fmt.Sprintf("w%d", i)
			for n := 1; n <= m; n++ {
				tx := st.Write(id)
				err := tx.Update(Rec{A: fmt.Sprintf("k%d", n)})
				_ = tx.Close()
				if err != nil {
					errs[i] = err
					return
				}
			}
		}(i)
	}
	done := make(chan struct{})
	go func() { wg.Wait(); close(done) }()
	// No verdict by the clock: the writers are given time, and if they have not returned the
	// reason is looked up in the goroutines. Waiters on the index queue without a queue worker
	// are stuck for good; anything else is an inconclusive run.
	limit := time.After(120 * time.Second)
	tick := time.NewTicker(500 * time.Millisecond)
	defer tick.Stop()
	for finished := false; !finished; {
		select {
		case <-done:
			finished = true
		case <-tick.C:
			if waiting, worker := indexQueueStuck(); waiting > 0 && !worker {
				// look twice: the worker goroutine ends and is started again all the time
				time.Sleep(200 * time.Millisecond)
				if w2, worker2 := indexQueueStuck(); w2 > 0 && !worker2 {
					select {
					case <-done:
						finished = true
						continue
					default:
					}
					// (the database and the stuck goroutines are left behind: nothing can end them)
					return fmt.Sprintf("%d of %d writers never return from Update: they wait for room in the index queue of the query store, which is empty and has no worker goroutine any more; the index updates of their committed mutations are never made (each writer makes %d updates, the queue holds 256)", w2, k, m), "", true
				}
			}
		case <-limit:
			return "VERIF-INCONCLUSIVE: the writers did not finish within 120s", "", false
		}
	}
	defer cleanup()
	for i, err := range errs {
		if err != nil {
			return fmt.Sprintf("writer %d: %v", i, err), "", false
		}
	}
	qs.Flush()
	want := fmt.Sprintf("k%d", m)
	res, err := qs.Query(url.Values{"p": {want}})
	got, _ := res.([]string)
	if err != nil || len(got) != k {
		c13 = fmt.Sprintf("%d writers made %d updates each, all returned, Flush returned: the query for the final key %q returns %q (%v), expected all %d records", k, m, want, got, err, k)
	}
	cbMu.Lock()
	defer cbMu.Unlock()
	for i := 0; i < k && c14 == ""; i++ {
		id := fmt.Sprintf("w%d", i)
		l := cbLog[id]
		if len(l) != m {
			c14 = fmt.Sprintf("record %s had %d key-changing updates, the query-change callbacks ran %d times for it (after Flush)", id, m, len(l))
			break
		}
		for n, a := range l {
			if a != fmt.Sprintf("k%d", n+1) {
				c14 = fmt.Sprintf("record %s: query-change callback %d carries the key %q, expected k%d (mutation order per id)", id, n, a, n+1)
				break
			}
		}
	}
	return c13, c14, k*m > 256
}

func bulkWritersProp(prop string, t *testing.T) {
	ev := evid.For(prop)
	rapid.Check(t, func(rt *rapid.T) {
		k := rapid.IntRange(2, 8).Draw(rt, "writers")
		m := rapid.IntRange(40, 200).Draw(rt, "updates")
		slow := rapid.SampledFrom([]int{0, 20, 100}).Draw(rt, "slowMicros")
		prefix := rapid.SampledFrom([]string{"", "pfx"}).Draw(rt, "prefix")
		c13, c14, full := runBulkWriters(k, m, slow, prefix)
		ev.Case(full, evid.Hash("bulkwriters", k, m, slow, prefix), "bulk-writers")
		msg := c13
		if prop == "C14" && msg == "" {
			msg = c14
		}
		if msg != "" {
			rt.Fatalf("%s (writers %d, updates each %d, listener delay %dµs, prefix %q)", msg, k, m, slow, prefix)
		}
	})
}

// TestC13BulkWriters / TestC14BulkWriters: several goroutines writing faster than the index
// is updated.
func TestC13BulkWriters(t *testing.T) { bulkWritersProp("C13", t) }
func TestC14BulkWriters(t *testing.T) { bulkWritersProp("C14", t) }

// TestRegressIndexQueueWakeup: eight writers, forty key-changing updates each, a listener
// that takes 20µs: more index updates are pending than the queue holds, several writers
// wait for room at the same time.
func TestRegressIndexQueueWakeup(t *testing.T) {
	msg := ""
	for i := 0; i < 6 && msg == ""; i++ {
		c13, c14, _ := runBulkWriters(8, 40, 20, "")
		if msg = c13; msg == "" {
			msg = c14
		}
	}
	evid.ReportKnown(t, "C13", "C13-index-queue-lost-wakeup", msg != "", msg, map[string]int{"writers": 8, "updates": 40, "listenerMicros": 20})
	evid.For("C13").Case(true, evid.Hash("regress-indexqueue"), "regress")
}
