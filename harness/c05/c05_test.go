package c05

import (
	"bytes"
	"encoding/json"
	"fmt"
	"os"
	"reflect"
	"strings"
	"testing"

	res "github.com/jirenius/go-res"
	"pgregory.net/rapid"

	"verifharness/internal/evid"
	"verifharness/internal/gen"
	"verifharness/internal/refmux"
	"verifharness/internal/reqcase"
	"verifharness/internal/script"
)

const prop = "C05"

func TestMain(m *testing.M) { os.Exit(evid.Main(m)) }

var ev = evid.For(prop)

func init() {
	ev.SetRule("cases as in C04 (generated handler sets, requests, payload member combinations, behaviour scripts) with recording handlers; the reference dispatch model (subject split at first/last dot, brute-force routing, named method else * with new preferring the New handler) predicts which handler runs, what it must see and the response class/code; a request is non-trivial when its resource name has >=3 tokens or contains a token equal to a request type or method name, or the method falls back to */new, or the outcome is an error mapping (panic, Error, missing reply, nothing invocable); distinct = hash of (handler set, subject, payload, script) Concurrent batches (few request shapes repeated up to 120 times, requests tagged through their query, groups spelled like other resources' names, 0-3 goroutines calling Service.Resource) count as non-trivial when some group received >=3 requests of the batch and a request is non-trivial by the rule above.")
	ev.Assume("when several nothing-can-be-invoked conditions hold at once the property does not rank them: any applicable code is accepted")
	ev.Assume("member names in request payloads are generated in the protocol's exact case")
}

type parsed struct {
	Result   json.RawMessage `json:"result"`
	Resource json.RawMessage `json:"resource"`
	Error    *struct {
		Code    *string         `json:"code"`
		Message *string         `json:"message"`
		Data    json.RawMessage `json:"data"`
	} `json:"error"`
	Meta json.RawMessage `json:"meta"`
}

func parse(b []byte) (*parsed, string) {
	var raw map[string]json.RawMessage
	if err := json.Unmarshal(b, &raw); err != nil {
		return nil, "response is not a JSON object: " + err.Error()
	}
	var p parsed
	if err := json.Unmarshal(b, &p); err != nil {
		return nil, "response does not fit the response shape: " + err.Error()
	}
	n := 0
	for _, k := range []string{"result", "resource", "error"} {
		if _, ok := raw[k]; ok {
			n++
		}
	}
	if n != 1 {
		return nil, fmt.Sprintf("response has %d of result/resource/error", n)
	}
	return &p, ""
}

func strField(f map[string]json.RawMessage, k string) string {
	var s string
	if v, ok := f[k]; ok {
		_ = json.Unmarshal(v, &s)
	}
	return s
}

func rawEqual(got json.RawMessage, f map[string]json.RawMessage, k string) bool {
	want, ok := f[k]
	if !ok {
		return len(got) == 0
	}
	if string(want) == "null" {
		return len(got) == 0 || string(got) == "null"
	}
	return bytes.Equal(got, want)
}

func check(c *reqcase.Case, rq *reqcase.ReqSpec, ob reqcase.Obs) (string, bool) {
	d := reqcase.Route(c, rq)
	if d.Probe {
		return "", false
	}
	if ob.Delivered > 1 && d.WellFormed {
		// one request, several subscriptions of the service: the handler runs once per delivery
		return fmt.Sprintf("request %s was delivered on %d subscriptions of the service (the handler is invoked for each)", rq.Subject, ob.Delivered), true
	}
	if ob.Delivered != 1 || !d.WellFormed {
		return "", false
	}
	var recs []reqcase.Record
	for _, r := range ob.Records {
		if r.Drift != "" {
			return fmt.Sprintf("request %s payload %s script %s: handler %s: %s", rq.Subject, rq.Payload, rq.Script, r.Marker, r.Drift), true
		}
		if !r.ForValue {
			recs = append(recs, r)
		}
	}
	nt := false
	toks := refmux.Tokens(d.RName)
	if len(toks) >= 3 {
		nt = true
	}
	for _, tk := range toks {
		switch tk {
		case "get", "call", "auth", "access", "new", "set":
			nt = true
		}
	}
	if d.Marker == "" {
		nt = true
		if len(recs) != 0 {
			return fmt.Sprintf("request %s: no handler should be invoked, but %s ran", rq.Subject, recs[0].Marker), nt
		}
		if d.Silent {
			return "", nt
		}
		if len(ob.Resp) != 1 {
			return "", nt // response count is C04's business
		}
		p, msg := parse(ob.Resp[0])
		if msg != "" {
			return msg, nt
		}
		if p.Error == nil || p.Error.Code == nil {
			return fmt.Sprintf("request %s (payload %q): nothing can be invoked, expected an error with code in %v, got %s", rq.Subject, rq.Payload, d.NoHandlerCodes, ob.Resp[0]), nt
		}
		for _, code := range d.NoHandlerCodes {
			if *p.Error.Code == code {
				return "", nt
			}
		}
		return fmt.Sprintf("request %s (payload %q): nothing can be invoked, expected code in %v, got %s", rq.Subject, rq.Payload, d.NoHandlerCodes, ob.Resp[0]), nt
	}
	if strings.HasSuffix(d.Marker, "/*") || d.Kind == "new" {
		nt = true
	}
	if len(recs) != 1 {
		return fmt.Sprintf("request %s: expected exactly handler %s to run once, got %d invocations [%s]", rq.Subject, d.Marker, len(recs), reqcase.Describe(ob)), nt
	}
	r := recs[0]
	if r.Marker != d.Marker {
		return fmt.Sprintf("request %s: handler %s ran, expected %s", rq.Subject, r.Marker, d.Marker), nt
	}
	f := rq.Fields
	wantHTTP := string(f["isHttp"]) == "true"
	var wantHeader map[string][]string
	if v, ok := f["header"]; ok {
		_ = json.Unmarshal(v, &wantHeader)
	}
	type cmp struct {
		name      string
		got, want interface{}
	}
	for _, x := range []cmp{
		{"Type", r.Type, d.Type}, {"Method", r.Method, d.Method}, {"ResourceName", r.RName, d.RName},
		{"Query", r.Query, strField(f, "query")}, {"CID", r.CID, strField(f, "cid")}, {"Host", r.Host, strField(f, "host")},
		{"RemoteAddr", r.RemoteAddr, strField(f, "remoteAddr")}, {"URI", r.URI, strField(f, "uri")}, {"IsHTTP", r.IsHTTP, wantHTTP},
		{"Group", r.Group, d.Group},
	} {
		if !reflect.DeepEqual(x.got, x.want) {
			return fmt.Sprintf("request %s payload %s: handler saw %s=%#v, sent %#v", rq.Subject, rq.Payload, x.name, x.got, x.want), nt
		}
	}
	if len(r.PathParams) != len(d.Params) {
		return fmt.Sprintf("request %s: handler saw path params %v, expected %v", rq.Subject, r.PathParams, d.Params), nt
	}
	for k, v := range d.Params {
		if r.PathParams[k] != v {
			return fmt.Sprintf("request %s: handler saw path params %v, expected %v", rq.Subject, r.PathParams, d.Params), nt
		}
	}
	if !rawEqual(r.RawParams, f, "params") {
		return fmt.Sprintf("request %s payload %s: handler saw params %q", rq.Subject, rq.Payload, r.RawParams), nt
	}
	if !rawEqual(r.RawToken, f, "token") {
		return fmt.Sprintf("request %s payload %s: handler saw token %q", rq.Subject, rq.Payload, r.RawToken), nt
	}
	if len(wantHeader) != len(r.Header) || (len(wantHeader) > 0 && !reflect.DeepEqual(wantHeader, r.Header)) {
		return fmt.Sprintf("request %s payload %s: handler saw header %v, sent %v", rq.Subject, rq.Payload, r.Header, wantHeader), nt
	}
	// outcome mapping
	if len(ob.Resp) == 0 {
		// every handler outcome maps to a response (a missing reply becomes system.internalError)
		return fmt.Sprintf("request %s script %s: handler %s ran but the request got no response at all", rq.Subject, rq.Script, d.Marker), true
	}
	if len(ob.Resp) != 1 {
		return "", nt
	}
	o := script.Predict(rq.Script, reqcase.Ctx(c, rq, d))
	p, msg := parse(ob.Resp[0])
	if msg != "" {
		return msg, nt
	}
	if o.Class == "error" {
		nt = true
	}
	fail := func(why string) (string, bool) {
		return fmt.Sprintf("request %s script %s: %s; response %s", rq.Subject, rq.Script, why, ob.Resp[0]), nt
	}
	switch o.Class {
	case "error":
		if p.Error == nil || p.Error.Code == nil || p.Error.Message == nil {
			return fail(fmt.Sprintf("expected error %s", o.Code))
		}
		if *p.Error.Code != o.Code {
			return fail(fmt.Sprintf("expected error code %q", o.Code))
		}
		if o.MessageExact && *p.Error.Message != o.Message {
			return fail(fmt.Sprintf("expected error message %q", o.Message))
		}
		if o.Supplied {
			if isNull(o.ErrData) {
				o.ErrData = nil
			}
			if isNull(p.Error.Data) {
				p.Error.Data = nil
			}
			if o.ErrData == nil && len(p.Error.Data) != 0 {
				return fail("error returned with data that the handler did not supply")
			}
			if o.ErrData != nil && !gen.JSONEqual(p.Error.Data, o.ErrData) {
				return fail(fmt.Sprintf("expected error data %s", o.ErrData))
			}
		}
	case "result":
		if p.Error != nil || p.Resource != nil {
			return fail("expected a result response")
		}
	case "resource":
		if p.Resource == nil {
			return fail("expected a resource response")
		}
	}
	return "", nt
}

func TestPropDispatch(t *testing.T) {
	rapid.Check(t, func(t *rapid.T) {
		c := reqcase.GenCase().Draw(t, "case")
		if rapid.IntRange(0, 7).Draw(t, "failpub") == 0 {
			// the connection refuses one publish of the case (as a server does with an oversized
			// message): if that was a handler's answer, nothing else may be sent in its place
			c.FailPub = rapid.IntRange(2, 2+3*len(c.Reqs)).Draw(t, "failpubN")
		}
		r := reqcase.Run(&c)
		if r.StartErr != nil {
			t.Fatalf("service did not start: %v", r.StartErr)
		}
		if r.WaitErr != nil {
			t.Fatalf("%v\ncase: %s", r.WaitErr, c)
		}
		for i := range r.Obs {
			rq := c.Reqs[i]
			if r.FailedPub != "" && r.FailedPub == r.Obs[i].Reply && len(r.Obs[i].Resp) == 0 {
				continue // its answer is what the connection refused; nothing was sent in its place
			}
			msg, nt := check(&c, &rq, r.Obs[i])
			ev.Case(nt, evid.Hash(fmt.Sprint(c.Handlers), rq.Subject, rq.Payload, rq.Script.String()), "request")
			if msg != "" {
				t.Fatalf("%s\ncase: %s", msg, c)
			}
			if nt {
				ev.Sample("nontrivial", 4, func() interface{} {
					return map[string]interface{}{"handlers": c.Handlers, "request": rq, "response": fmt.Sprintf("%s", r.Obs[i].Resp)}
				})
			}
		}
	})
}

// TestDocCodes anchors the documented error codes for the nothing-can-be-invoked cases.
func TestDocCodes(t *testing.T) {
	c := reqcase.Case{Name: "svc", Workers: 1, Handlers: []reqcase.HandlerSpec{{Pattern: "model", Calls: []string{"set"}, Access: true}, {Pattern: "a.new.set", Get: true, Calls: []string{"*"}}}}
	type tc struct{ subj, payload, code string }
	for _, x := range []tc{
		{"get.svc.nosuch", "", res.CodeNotFound},
		{"get.svc.model", "", res.CodeNotFound},
		{"call.svc.model.unknown", "", res.CodeMethodNotFound},
		{"auth.svc.model.login", "", res.CodeMethodNotFound},
		{"call.svc.model.set", "{", res.CodeInternalError},
		{"call.svc.nosuch.set", "", res.CodeNotFound},
	} {
		c.Reqs = append(c.Reqs, reqcase.ReqSpec{Subject: x.subj, Payload: x.payload, Script: script.Script{{Op: "ok", V: &gen.Val{Kind: "json", JSON: "1"}}}})
	}
	r := reqcase.Run(&c)
	if r.StartErr != nil || r.WaitErr != nil {
		t.Fatalf("%v %v", r.StartErr, r.WaitErr)
	}
	codes := []string{res.CodeNotFound, res.CodeNotFound, res.CodeMethodNotFound, res.CodeMethodNotFound, res.CodeInternalError, res.CodeNotFound}
	for i, ob := range r.Obs {
		if len(ob.Resp) != 1 || !strings.Contains(string(ob.Resp[0]), `"code":"`+codes[i]+`"`) {
			evid.Violation(t, prop, "doccodes", fmt.Sprintf("%s payload %q: want %s got %q", c.Reqs[i].Subject, c.Reqs[i].Payload, codes[i], ob.Resp), c.Reqs[i])
		}
		if msg, _ := check(&c, &c.Reqs[i], ob); msg != "" {
			evid.Violation(t, prop, "doccodes", msg, c.Reqs[i])
		}
	}
	// resource name with dots and method-like tokens: a.new.set with method get
	c2 := reqcase.Case{Name: "svc", Workers: 1, Handlers: c.Handlers, Reqs: []reqcase.ReqSpec{{Subject: "call.svc.a.new.set.get", Script: script.Script{{Op: "ok", V: &gen.Val{Kind: "json", JSON: "1"}}}}}}
	r2 := reqcase.Run(&c2)
	if len(r2.Obs) == 1 {
		if msg, _ := check(&c2, &c2.Reqs[0], r2.Obs[0]); msg != "" {
			evid.Violation(t, prop, "doccodes", msg, c2.Reqs[0])
		}
	}
	ev.CountDistinct(7, 7)
}

func isNull(b []byte) bool { return strings.TrimSpace(string(b)) == "null" }

// TestPropConcurrentDispatch: the same dispatch oracle on a concurrent batch in
// which a few request shapes repeat many times (so requests queue up behind each
// other on their groups, including groups spelled like another resource's name),
// while other goroutines resolve resource names through Service.Resource.
func TestPropConcurrentDispatch(t *testing.T) {
	rapid.Check(t, func(t *rapid.T) {
		c := reqcase.Case{Name: "svc", Workers: rapid.SampledFrom([]int{1, 2, 4, 16}).Draw(t, "workers")}
		c.Handlers = reqcase.GenHandlers().Draw(t, "handlers")
		c.Noise = rapid.SampledFrom([]int{0, 1, 3}).Draw(t, "noise")
		nshape := rapid.IntRange(1, 6).Draw(t, "nshape")
		var shapes []reqcase.ReqSpec
		for i := 0; i < nshape; i++ {
			shapes = append(shapes, reqcase.GenRequest(c.Name, c.Handlers, "").Draw(t, "shape"))
		}
		n := rapid.IntRange(2, 120).Draw(t, "nreq")
		for i := 0; i < n; i++ {
			rq := shapes[rapid.IntRange(0, nshape-1).Draw(t, "which")]
			if rq.Fields != nil {
				cp := map[string]json.RawMessage{}
				for k, v := range rq.Fields {
					cp[k] = v
				}
				rq.Fields = cp
			}
			c.Reqs = append(c.Reqs, rq)
		}
		reqcase.TagQueries(&c)
		r := reqcase.RunConcurrent(&c)
		if r.StartErr != nil {
			t.Fatalf("service did not start: %v", r.StartErr)
		}
		if r.WaitErr != nil {
			t.Fatalf("%v", r.WaitErr)
		}
		ntc, tagged := 0, 0
		groups := map[string]int{}
		for i := range r.Obs {
			rq := c.Reqs[i]
			if rq.Fields == nil {
				continue // an untagged request cannot be told apart from its duplicates
			}
			tagged++
			if d := reqcase.Route(&c, &rq); d.Marker != "" {
				groups[d.Group]++
			}
			msg, nt := check(&c, &rq, r.Obs[i])
			if nt {
				ntc++
			}
			if msg != "" {
				t.Fatalf("concurrent batch of %d (workers %d, %d lookup goroutines): %s\nhandlers: %+v", len(c.Reqs), c.Workers, c.Noise, msg, c.Handlers)
			}
		}
		queued := false
		for _, k := range groups {
			if k >= 3 {
				queued = true
			}
		}
		ev.Case(queued && ntc > 0, evid.Hash(c.String()), "concurrent-batch")
		ev.Add("concurrent-requests-checked", int64(tagged))
		if c.Noise > 0 {
			ev.Label("with-concurrent-resource-lookups")
		}
	})
}
