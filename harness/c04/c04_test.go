package c04

import (
	"encoding/json"
	"fmt"
	"os"
	"strings"
	"testing"

	"pgregory.net/rapid"

	"verifharness/internal/evid"
	"verifharness/internal/reqcase"
	"verifharness/internal/svc"
)

const prop = "C04"

func TestMain(m *testing.M) { os.Exit(evid.Main(m)) }

var ev = evid.For(prop)

func init() {
	reqcase.ExoticNames = true // resource names may hold non-ASCII parts: still one response each
	ev.SetRule("cases = (service with 1-3 generated handler sets, 1-4 sequential requests or a concurrent batch of up to 200 requests, each request = type x resource name x method x payload x handler behaviour script of reply/event/timeout/meta/panic/nested-Value actions); responses are counted on each request's private reply subject (timeout pre-responses aside); a request is non-trivial when its script contains a panic, a double reply, no reply, a nested Value, an unmarshalable value or a meta call, or the request is unroutable, has a non-JSON payload, or targets a method that does not exist; distinct = hash of (handler set, subject, payload, script) Further case families: concurrent batches with a hot request shape, trickle runs (one group hovering around one queued element with WithGroup noise; non-trivial always), and backlog/restart cases (in-channel size 1-16, handlers blocked on a gate while more distinct resources wait than the work buffer holds, Shutdown with queued work and restart; non-trivial when the backlog exceeds in-channel size + workers or the case has >1 Serve cycle).")
	ev.Assume("panic(nil) reaches recover as *runtime.PanicNilError because the harness main module is Go >= 1.21")
	ev.Assume("absence of a further response is final once the request.done hook fired: handlers are synchronous")
}

// check evaluates the C04 oracle on one observation. It returns (violation, nontrivial).
func check(c *reqcase.Case, rq *reqcase.ReqSpec, ob reqcase.Obs) (string, bool) {
	d := reqcase.Route(c, rq)
	if d.Probe {
		return "", false
	}
	nt := rq.Script.NonTrivial() || d.Marker == "" || !d.PayloadOK
	if ob.Delivered == 0 {
		if c.WideOwnership && ownedByAll(rq.Subject) {
			return fmt.Sprintf("the service owns every resource (SetOwnedResources with \">\") but no subscription of it receives the request %s: it stays unanswered", rq.Subject), nt
		}
		if !c.WideOwnership && d.WellFormed && ownedByAll(rq.Subject) && ownedByDefault(c, d.Type, d.RName) {
			return fmt.Sprintf("the service has a handler for %s requests and owns, by default, its name and everything below it, but no subscription of it receives the request %s: it stays unanswered (handlers %+v)", d.Type, rq.Subject, c.Handlers), nt
		}
		// no subscription of the service matches this subject: not a request to this service
		return "", false
	}
	if ob.Delivered > 1 {
		return fmt.Sprintf("request %s was delivered %d times", rq.Subject, ob.Delivered), nt
	}
	if !d.WellFormed {
		// a subject without resource/method part: nothing is specified beyond "no crash"
		return "", nt
	}
	n := len(ob.Resp)
	switch {
	case d.Silent && d.PayloadOK:
		if n != 0 {
			return fmt.Sprintf("access request %s on a pattern without access handler was answered %d times: %q", rq.Subject, n, ob.Resp), nt
		}
	case d.Silent:
		if n > 1 {
			return fmt.Sprintf("access request %s (malformed payload, no access handler) was answered %d times: %q", rq.Subject, n, ob.Resp), nt
		}
	default:
		if n != 1 {
			return fmt.Sprintf("request %s payload %q script %s got %d responses (want exactly 1): %q [%s]", rq.Subject, rq.Payload, rq.Script, n, ob.Resp, reqcase.Describe(ob)), nt
		}
	}
	return "", nt
}

// ownedByAll: a request subject (type and at least one more token, none empty) that a service
// owning ">" for resources and access must be subscribed to.
func ownedByAll(subject string) bool {
	toks := strings.Split(subject, ".")
	if len(toks) < 2 {
		return false
	}
	for _, t := range toks {
		if t == "" || t == ">" || t == "*" || strings.ContainsAny(t, " \t\r\n") {
			return false
		}
	}
	switch toks[0] {
	case "get", "call", "auth", "access":
		return true
	}
	return false
}

// ownedByDefault: the default ownership covers the service name and everything below it, for
// access requests when some handler has an access handler and for get/call/auth requests
// when some handler has a get, call, auth or new handler - wherever in the pattern tree.
func ownedByDefault(c *reqcase.Case, typ, rname string) bool {
	if c.Name == "" || !(rname == c.Name || strings.HasPrefix(rname, c.Name+".")) {
		return false
	}
	for _, h := range c.Handlers {
		switch typ {
		case "access":
			if h.Access {
				return true
			}
		case "get", "call", "auth":
			if h.Get || len(h.Calls) > 0 || len(h.Auths) > 0 || h.New {
				return true
			}
		}
	}
	return false
}

func TestPropSequential(t *testing.T) {
	rapid.Check(t, func(t *rapid.T) {
		c := reqcase.GenCase().Draw(t, "case")
		if rapid.IntRange(0, 7).Draw(t, "failpub") == 0 {
			// one publish somewhere in the case is refused by the connection (the first one is
			// the system.reset of the start)
			c.FailPub = rapid.IntRange(2, 2+3*len(c.Reqs)).Draw(t, "failpubN")
		}
		r := reqcase.Run(&c)
		if r.StartErr != nil {
			t.Fatalf("service did not start: %v", r.StartErr)
		}
		if r.WaitErr != nil {
			t.Fatalf("%v\ncase: %s", r.WaitErr, c)
		}
		for i := range r.Obs {
			if r.FailedPub != "" && r.FailedPub == r.Obs[i].Reply {
				// the response (or a pre-response) of this request is what the connection
				// refused: whether it counts as answered is the connection's business
				continue
			}
			msg, nt := check(&c, &c.Reqs[i], r.Obs[i])
			rq := c.Reqs[i]
			ty, _, _, _ := svc.SplitSubject(rq.Subject)
			ev.Case(nt, evid.Hash(fmt.Sprint(c.Handlers), rq.Subject, rq.Payload, rq.Script.String()), "seq-request", "type-"+ty)
			if msg != "" {
				t.Fatalf("%s\ncase: %s", msg, c)
			}
			if nt {
				ev.Sample("seq-nontrivial", 4, func() interface{} {
					return map[string]interface{}{"handlers": c.Handlers, "request": rq, "responses": strs(r.Obs[i].Resp)}
				})
			}
		}
		if len(r.NoReplyPubs) > 0 {
			t.Fatalf("a message without reply subject (not a request) made the service publish %q\ncase: %s", r.NoReplyPubs, c)
		}
		if !r.ProbeOK {
			t.Fatalf("service no longer answers a plain get after the case (a handler took it down?)\ncase: %s\nerrors: %v", c, r.Errors)
		}
		if r.StopErr != nil {
			t.Fatalf("%v", r.StopErr)
		}
	})
}

func strs(b [][]byte) []string {
	var s []string
	for _, x := range b {
		s = append(s, string(x))
	}
	return s
}

func TestPropConcurrent(t *testing.T) {
	rapid.Check(t, func(t *rapid.T) {
		c := reqcase.Case{Name: "svc", Workers: rapid.SampledFrom([]int{1, 3, 8, 32}).Draw(t, "workers")}
		c.Handlers = reqcase.GenHandlers().Draw(t, "handlers")
		n := rapid.IntRange(2, 200).Draw(t, "nreq")
		// a hot request shape that most of the batch repeats, so that one group gets a long queue
		hot := reqcase.GenRequest(c.Name, c.Handlers, "").Draw(t, "hot")
		for i := 0; i < n; i++ {
			rq := reqcase.GenRequest(c.Name, c.Handlers, "").Draw(t, "req")
			if rapid.IntRange(0, 9).Draw(t, "usehot") < 6 {
				rq.Subject = hot.Subject
			}
			if _, _, _, ok := svc.SplitSubject(rq.Subject); !ok {
				continue
			}
			if rq.Fields != nil {
				cp := map[string]json.RawMessage{}
				for k, v := range rq.Fields {
					cp[k] = v
				}
				rq.Fields = cp
			}
			c.Reqs = append(c.Reqs, rq)
		}
		reqcase.TagQueries(&c)
		// scripts were generated for the request's own routing; regenerate nothing: the count oracle does not depend on them
		r := reqcase.RunConcurrent(&c)
		if r.StartErr != nil {
			t.Fatalf("service did not start: %v", r.StartErr)
		}
		if r.WaitErr != nil {
			t.Fatalf("%v", r.WaitErr)
		}
		ntc := 0
		for i := range r.Obs {
			msg, nt := check(&c, &c.Reqs[i], r.Obs[i])
			if nt {
				ntc++
			}
			if msg != "" {
				t.Fatalf("concurrent batch of %d: %s", len(c.Reqs), msg)
			}
		}
		if !r.ProbeOK {
			t.Fatalf("service no longer answers after a concurrent batch of %d requests; errors: %v", len(c.Reqs), r.Errors)
		}
		ev.Case(ntc > 0 && len(c.Reqs) >= 10, evid.Hash(c.String()), "concurrent-batch")
		ev.Add("concurrent-requests", int64(len(c.Reqs)))
	})
}

// ---- regression tier --------------------------------------------------------

func TestRegressNewHandlerWithoutReply(t *testing.T) {
	c := reqcase.Case{Name: "svc", Workers: 1, Handlers: []reqcase.HandlerSpec{{Pattern: "model", New: true}}, Reqs: []reqcase.ReqSpec{{Subject: "call.svc.model.new", Payload: ""}}}
	r := reqcase.Run(&c)
	msg := ""
	if r.StartErr != nil || r.WaitErr != nil || len(r.Obs) != 1 {
		msg = fmt.Sprintf("could not run: %v %v", r.StartErr, r.WaitErr)
	} else {
		msg, _ = check(&c, &c.Reqs[0], r.Obs[0])
	}
	evid.ReportKnown(t, prop, "C04-new-handler-no-reply", msg != "", msg, c)
	ev.Case(true, evid.Hash("regress-new"), "regress")
}

// TestPropTrickle: a few requests in flight on ONE group (so the group's queue keeps
// hovering around one element) while other goroutines submit no-op WithGroup callbacks
// to the same group; every request must still get exactly one response.
func TestPropTrickle(t *testing.T) {
	rapid.Check(t, func(rt *rapid.T) {
		workers := rapid.SampledFrom([]int{1, 2, 4, 8}).Draw(rt, "workers")
		window := rapid.IntRange(1, 3).Draw(rt, "window")
		noise := rapid.IntRange(1, 4).Draw(rt, "noise")
		total := evid.Pick(20000, 60000)
		msg := trickle(workers, window, noise, total)
		ev.Case(true, evid.Hash("trickle", workers, window, noise), "trickle")
		ev.Add("trickle-requests", int64(total))
		if msg != "" {
			rt.Fatalf("%s (workers %d, window %d, noise goroutines %d)", msg, workers, window, noise)
		}
	})
}
