// Package sched owns the schedule of a real res.Service inside a
// testing/synctest bubble. The verif hook parks every goroutine that reaches an
// active gate point on a private channel; a controller running on the bubble's
// root goroutine releases exactly one parked goroutine (or performs exactly one
// harness action) per step and calls synctest.Wait() after each, so the
// interleaving is a pure function of the drawn choices.
package sched

import (
	"fmt"
	"sort"
	"sync"
	"sync/atomic"
	"testing/synctest"

	nats "github.com/nats-io/nats.go"
)

// Parked is a goroutine waiting at a gate.
type Parked struct {
	Point string
	Arg   string
	Seq   int
	ch    chan struct{}
}

func (p *Parked) String() string { return p.Point + "(" + p.Arg + ")" }

// Ctl is the schedule controller.
type Ctl struct {
	mu     sync.Mutex
	parked []*Parked
	seq    int
	gates  map[string]bool
	free   bool // after Free(), gates no longer park
	// Observe, if set, sees every hook point (gate or not) before parking. It must not block.
	Observe func(point string, arg interface{})
	Trace   []string
	tick    int64
	step    int64
}

// New creates a controller with the given active gate points.
func New(gates []string) *Ctl {
	c := &Ctl{gates: map[string]bool{}}
	for _, g := range gates {
		c.gates[g] = true
	}
	return c
}

// Tick returns the next value of the global logical clock.
func (c *Ctl) Tick() int64 { return atomic.AddInt64(&c.tick, 1) }

// Step returns the current controller step.
func (c *Ctl) Step() int64 { return atomic.LoadInt64(&c.step) }

// ArgString renders a hook argument.
func ArgString(arg interface{}) string {
	switch v := arg.(type) {
	case nil:
		return ""
	case string:
		return v
	case *nats.Msg:
		return v.Subject + ">" + v.Reply
	default:
		return fmt.Sprint(v)
	}
}

// Hook is to be assigned to res.VerifHook (and the badgerstore one).
func (c *Ctl) Hook(point string, arg interface{}) {
	if o := c.Observe; o != nil {
		o(point, arg)
	}
	c.Gate(point, ArgString(arg))
}

// Gate parks the calling goroutine if the point is an active gate.
func (c *Ctl) Gate(point, arg string) {
	c.mu.Lock()
	if c.free || !c.gates[point] {
		c.mu.Unlock()
		return
	}
	p := &Parked{Point: point, Arg: arg, Seq: c.seq, ch: make(chan struct{})}
	c.seq++
	c.parked = append(c.parked, p)
	c.mu.Unlock()
	<-p.ch
}

// Wait is synctest.Wait plus a step increment.
func (c *Ctl) Wait() {
	synctest.Wait()
	atomic.AddInt64(&c.step, 1)
}

// Snapshot returns the parked goroutines in canonical order. Call after Wait.
func (c *Ctl) Snapshot() []*Parked {
	c.mu.Lock()
	out := append([]*Parked(nil), c.parked...)
	c.mu.Unlock()
	sort.SliceStable(out, func(i, j int) bool {
		if out[i].Point != out[j].Point {
			return out[i].Point < out[j].Point
		}
		if out[i].Arg != out[j].Arg {
			return out[i].Arg < out[j].Arg
		}
		return out[i].Seq < out[j].Seq
	})
	return out
}

// NParked returns the number of parked goroutines.
func (c *Ctl) NParked() int {
	c.mu.Lock()
	defer c.mu.Unlock()
	return len(c.parked)
}

// ParkedAt reports whether a goroutine is parked at one of the points.
func (c *Ctl) ParkedAt(points ...string) int {
	c.mu.Lock()
	defer c.mu.Unlock()
	n := 0
	for _, p := range c.parked {
		for _, q := range points {
			if p.Point == q {
				n++
			}
		}
	}
	return n
}

// Release lets one parked goroutine continue and waits for the bubble to settle.
func (c *Ctl) Release(p *Parked) {
	c.mu.Lock()
	for i, q := range c.parked {
		if q == p {
			c.parked = append(c.parked[:i:i], c.parked[i+1:]...)
			break
		}
	}
	c.Trace = append(c.Trace, "release "+p.String())
	c.mu.Unlock()
	close(p.ch)
	c.Wait()
}

// Do performs one harness action and waits for the bubble to settle.
func (c *Ctl) Do(name string, f func()) {
	c.mu.Lock()
	c.Trace = append(c.Trace, name)
	c.mu.Unlock()
	f()
	c.Wait()
}

// Drain releases parked goroutines in arrival order until none remain or max
// releases were made; it returns the number of releases.
func (c *Ctl) Drain(max int) int {
	n := 0
	for n < max {
		c.mu.Lock()
		if len(c.parked) == 0 {
			c.mu.Unlock()
			return n
		}
		p := c.parked[0]
		for _, q := range c.parked {
			if q.Seq < p.Seq {
				p = q
			}
		}
		c.mu.Unlock()
		c.Release(p)
		n++
	}
	return n
}

// Free disables all gates and releases everything parked (used at the end of a
// case so that no goroutine stays parked in the harness).
func (c *Ctl) Free() {
	c.mu.Lock()
	c.free = true
	ps := c.parked
	c.parked = nil
	c.mu.Unlock()
	for _, p := range ps {
		close(p.ch)
	}
	synctest.Wait()
}

// TraceCopy returns a copy of the action trace.
func (c *Ctl) TraceCopy() []string {
	c.mu.Lock()
	defer c.mu.Unlock()
	return append([]string(nil), c.Trace...)
}
