// Package protoval validates messages published by a service against the RES
// service protocol (written from the protocol text, independent of go-res).
package protoval

import (
	"bytes"
	"encoding/json"
	"fmt"
	"regexp"
	"strings"

	"verifharness/internal/natsref"
	"verifharness/internal/refmux"
)

var preRe = regexp.MustCompile(`^timeout:"[0-9]+"$`)

// ReqInfo is what the validator knows about a request whose reply subject it sees.
type ReqInfo struct {
	IsHTTP bool
}

// Msg validates one published message. replies maps known reply subjects.
// It returns "" when conformant.
func Msg(subject string, data []byte, replies map[string]ReqInfo) string {
	if !natsref.ValidPublish(subject) {
		return fmt.Sprintf("subject %q is not a valid NATS publish subject", subject)
	}
	if ri, ok := replies[subject]; ok {
		return Response(data, ri.IsHTTP)
	}
	switch {
	case subject == "system.reset":
		return strictObject(data, map[string]func(json.RawMessage) string{"resources": stringList, "access": stringList}, nil)
	case subject == "system.tokenReset":
		return strictObject(data, map[string]func(json.RawMessage) string{"tids": stringList, "subject": isSubject}, []string{"tids", "subject"})
	case strings.HasPrefix(subject, "conn."):
		toks := strings.Split(subject, ".")
		if len(toks) != 3 || toks[2] != "token" || !refmux.ValidPart(toks[1]) {
			return fmt.Sprintf("subject %q is not of the form conn.<cid>.token", subject)
		}
		return strictObject(data, map[string]func(json.RawMessage) string{"token": anyJSON, "tid": isString}, []string{"token"})
	case strings.HasPrefix(subject, "event."):
		rest := subject[len("event."):]
		i := strings.LastIndexByte(rest, '.')
		if i <= 0 {
			return fmt.Sprintf("subject %q is not of the form event.<resource>.<name>", subject)
		}
		rname, name := rest[:i], rest[i+1:]
		if !refmux.ValidName(rname) || !refmux.ValidPart(name) {
			return fmt.Sprintf("subject %q: invalid resource name or event name", subject)
		}
		return Event(name, data)
	}
	return fmt.Sprintf("subject %q is none of the documented forms (reply subject, event.<resource>.<name>, system.reset, system.tokenReset, conn.<cid>.token)", subject)
}

// Event validates an event payload.
func Event(name string, data []byte) string {
	switch name {
	case "change":
		return strictObject(data, map[string]func(json.RawMessage) string{"values": func(b json.RawMessage) string {
			var m map[string]json.RawMessage
			if err := json.Unmarshal(b, &m); err != nil || m == nil {
				return "values is not an object"
			}
			if len(m) == 0 {
				return "values is empty"
			}
			return ""
		}}, []string{"values"})
	case "add":
		return strictObject(data, map[string]func(json.RawMessage) string{"value": anyJSON, "idx": nonNegInt}, []string{"value", "idx"})
	case "remove":
		return strictObject(data, map[string]func(json.RawMessage) string{"idx": nonNegInt}, []string{"idx"})
	case "query":
		return strictObject(data, map[string]func(json.RawMessage) string{"subject": isSubject}, []string{"subject"})
	case "create", "delete", "reaccess":
		if len(data) != 0 {
			return fmt.Sprintf("%s event must have no payload, got %q", name, data)
		}
		return ""
	case "patch", "unsubscribe":
		return fmt.Sprintf("reserved event name %q used", name)
	}
	if len(data) == 0 {
		return ""
	}
	if !json.Valid(data) {
		return fmt.Sprintf("custom event payload is not JSON: %q", data)
	}
	return ""
}

// Response validates a response or pre-response.
func Response(data []byte, isHTTP bool) string {
	if len(data) > 0 && (data[0]|32) >= 'a' && (data[0]|32) <= 'z' {
		if !preRe.Match(data) {
			return fmt.Sprintf("pre-response %q is not of the form timeout:\"<ms>\"", data)
		}
		return ""
	}
	var raw map[string]json.RawMessage
	if err := strictDecode(data, &raw); err != nil || raw == nil {
		return fmt.Sprintf("response %q is not a JSON object", data)
	}
	n := 0
	for k, v := range raw {
		switch k {
		case "result":
			n++
		case "resource":
			n++
			if msg := strictObject(v, map[string]func(json.RawMessage) string{"rid": isRID}, []string{"rid"}); msg != "" {
				return "resource member: " + msg
			}
		case "error":
			n++
			if msg := strictObject(v, map[string]func(json.RawMessage) string{"code": isNonEmptyStringOrAny, "message": isString, "data": anyJSON}, []string{"code", "message"}); msg != "" {
				return "error member: " + msg
			}
		case "meta":
			if !isHTTP {
				return fmt.Sprintf("meta present on the response to a request not flagged as HTTP: %s", data)
			}
			if msg := strictObject(v, map[string]func(json.RawMessage) string{"status": isInt, "header": func(b json.RawMessage) string {
				var h map[string][]string
				if err := json.Unmarshal(b, &h); err != nil || h == nil {
					return "header is not an object of string lists"
				}
				return ""
			}}, nil); msg != "" {
				return "meta member: " + msg
			}
		default:
			return fmt.Sprintf("response has unknown member %q: %s", k, data)
		}
	}
	if n != 1 {
		return fmt.Sprintf("response has %d of result/resource/error: %s", n, data)
	}
	return ""
}

func strictDecode(b []byte, v interface{}) error {
	d := json.NewDecoder(bytes.NewReader(b))
	if err := d.Decode(v); err != nil {
		return err
	}
	if d.More() {
		return fmt.Errorf("trailing data")
	}
	return nil
}

func strictObject(data []byte, members map[string]func(json.RawMessage) string, required []string) string {
	var raw map[string]json.RawMessage
	if err := strictDecode(data, &raw); err != nil || raw == nil {
		return fmt.Sprintf("payload %q is not a JSON object", data)
	}
	for k, v := range raw {
		f, ok := members[k]
		if !ok {
			return fmt.Sprintf("unknown member %q in %s", k, data)
		}
		if msg := f(v); msg != "" {
			return fmt.Sprintf("member %q: %s in %s", k, msg, data)
		}
	}
	for _, k := range required {
		if _, ok := raw[k]; !ok {
			return fmt.Sprintf("member %q missing in %s", k, data)
		}
	}
	return ""
}

func anyJSON(b json.RawMessage) string {
	if !json.Valid(b) {
		return "not JSON"
	}
	return ""
}

func isString(b json.RawMessage) string {
	var s *string
	if err := json.Unmarshal(b, &s); err != nil || s == nil {
		return "not a string"
	}
	return ""
}

func isNonEmptyStringOrAny(b json.RawMessage) string { return isString(b) }

func isInt(b json.RawMessage) string {
	var n *int64
	if err := json.Unmarshal(b, &n); err != nil || n == nil {
		return "not an integer"
	}
	return ""
}

func nonNegInt(b json.RawMessage) string {
	var n *int64
	if err := json.Unmarshal(b, &n); err != nil || n == nil {
		return "not an integer"
	}
	if *n < 0 {
		return "negative"
	}
	return ""
}

func stringList(b json.RawMessage) string {
	var l []string
	if err := json.Unmarshal(b, &l); err != nil || l == nil {
		return "not a list of strings"
	}
	return ""
}

func isSubject(b json.RawMessage) string {
	var s *string
	if err := json.Unmarshal(b, &s); err != nil || s == nil {
		return "not a string"
	}
	if !natsref.ValidPublish(*s) {
		return fmt.Sprintf("%q is not a valid subject", *s)
	}
	return ""
}

func isRID(b json.RawMessage) string {
	var s *string
	if err := json.Unmarshal(b, &s); err != nil || s == nil {
		return "not a string"
	}
	if !refmux.ValidRID(*s) {
		return fmt.Sprintf("%q is not a valid resource id", *s)
	}
	return ""
}
