package c15

import (
	"encoding/json"
	"errors"
	"fmt"
	"os"
	"strconv"
	"strings"
	"sync"
	"testing"
	"testing/synctest"
	"time"

	res "github.com/jirenius/go-res"
	nats "github.com/nats-io/nats.go"
	"pgregory.net/rapid"

	"verifharness/internal/evid"
	"verifharness/internal/fakeconn"
	"verifharness/internal/gen"
	"verifharness/internal/protoval"
	"verifharness/internal/sched"
)

const prop = "C15"

func TestMain(m *testing.M) { os.Exit(evid.Main(m)) }

var ev = evid.For(prop)

func init() {
	ev.SetRule("cases = scenarios in a synctest bubble with virtual time: 1-4 query events on 1-3 resources (own group or a shared group; model or collection), duration 1-5 virtual seconds, query requests (valid / empty query / no payload / malformed JSON) delivered at drawn instants relative to expiry including after qexpire.enter and after qexpire.drained, callback behaviours (model, collection, events, error, not-found, invalid-query, timeout+reply, panics, nothing, reply twice), injected inbox subscription failures, schedules drawn over the gates qexpire.*, qlistener.msg, runWith.checked, cb.mid; a scenario is non-trivial when >=1 query request was delivered after qexpire.enter or within the last virtual millisecond before expiry, or >=2 query events were alive on one group; distinct = hash of the scenario. A free-running variant on an embedded nats-server checks subscription and goroutine release. One of the resources is Parallel (serialization and nil-last not claimed). Restart scenarios (second test): 0-3 query events in a first Serve cycle, Shutdown after 0-4 s, 0-5 s stopped, optional duration change, second cycle with 0-3 query events and requests; non-trivial when a query event was still active at Shutdown or the duration changed.")
	ev.Assume("a query request delivered after expiry was requested may be answered or ignored, but its callback must never run after the nil call")
}

// QBehav is the behaviour of a query callback for one request.
type QBehav struct {
	Op string   `json:"op"` // model collection events nothing error notfound invalidquery timeoutreply panic twice
	V  *gen.Val `json:"v,omitempty"`
	S  string   `json:"s,omitempty"`
	N  int      `json:"n,omitempty"`
}

// Op is one scenario step.
type Op struct {
	K       string `json:"k"` // emit qreq advance release failnext
	RID     string `json:"rid,omitempty"`
	Pick    int    `json:"pick,omitempty"`
	Payload string `json:"payload,omitempty"` // valid empty none malformed
	D       int    `json:"d,omitempty"`       // ms
	B       QBehav `json:"b,omitempty"`
}

// Case is a scenario.
type Case struct {
	Workers int      `json:"workers"`
	DurMs   int      `json:"dur"`
	Gates   []string `json:"gates"`
	Prog    []Op     `json:"prog"`
}

func (c Case) String() string { b, _ := json.Marshal(c); return string(b) }

type qevent struct {
	id             int
	rid            string
	group          string
	typ            string
	subject        string
	failed         bool
	emitTime       time.Time
	nilCalls       int
	nilTick        int64
	cbTicks        []int64
	expireReq      bool // qexpire.enter observed
	drained        bool
	listenerExited bool
}

type qrequest struct {
	id             int
	ev             *qevent
	payload        string
	behav          QBehav
	reply          string
	afterExpireReq bool
	nearExpiry     bool
	delivered      bool
	cbRuns         int
}

type machine struct {
	c                             Case
	ctl                           *sched.Ctl
	s                             *res.Service
	conn                          *fakeconn.Conn
	mu                            sync.Mutex
	evs                           []*qevent
	reqs                          []*qrequest
	occ                           map[string]int
	viol                          []string
	failNext                      bool
	listenerStarts, listenerExits int
}

func (m *machine) violf(f string, a ...interface{}) {
	m.mu.Lock()
	m.viol = append(m.viol, fmt.Sprintf(f, a...))
	m.mu.Unlock()
}

var rids = map[string][2]string{ // rid -> group, type
	"svc.q.1":  {"svc.q.1", "model"},
	"svc.q.2":  {"svc.q.2", "model"},
	"svc.qs.1": {"shared", "collection"},
	"svc.qs.2": {"shared", "collection"},
	// a Parallel resource: no group, its callbacks may overlap (serialization and
	// nil-comes-last are not claimed for it; one response per request and release are)
	"svc.qp.1": {"", "model"},
}

func (m *machine) enter(group string) {
	if group == "" {
		return
	}
	m.mu.Lock()
	m.occ[group]++
	if m.occ[group] > 1 {
		m.viol = append(m.viol, fmt.Sprintf("two callbacks of group %q execute at the same instant (query callbacks must be serialized in the resource's group)", group))
	}
	m.mu.Unlock()
}

func (m *machine) leave(group string) {
	if group == "" {
		return
	}
	m.mu.Lock()
	m.occ[group]--
	m.mu.Unlock()
}

func (m *machine) queryCallback(qe *qevent) func(res.QueryRequest) {
	return func(qr res.QueryRequest) {
		tick := m.ctl.Tick()
		if qr == nil {
			m.mu.Lock()
			qe.nilCalls++
			qe.nilTick = tick
			failed := qe.failed
			m.mu.Unlock()
			if !failed {
				m.enter(qe.group)
				m.ctl.Gate("cb.mid", "nil"+strconv.Itoa(qe.id))
				m.leave(qe.group)
			}
			return
		}
		m.enter(qe.group)
		defer m.leave(qe.group)
		m.mu.Lock()
		qe.cbTicks = append(qe.cbTicks, tick)
		if qe.nilCalls > 0 && qe.group != "" {
			m.viol = append(m.viol, fmt.Sprintf("query event %d on %s: callback invoked with a request after it was invoked with nil", qe.id, qe.rid))
		}
		id, err := strconv.Atoi(strings.TrimPrefix(qr.Query(), "id="))
		var rq *qrequest
		if err == nil && id >= 0 && id < len(m.reqs) {
			rq = m.reqs[id]
			rq.cbRuns++
		}
		m.mu.Unlock()
		m.ctl.Gate("cb.mid", "q"+strconv.Itoa(id))
		if rq == nil {
			return
		}
		b := rq.behav
		switch b.Op {
		case "model":
			qr.Model(b.V.Go())
		case "collection":
			qr.Collection(b.V.Go())
		case "events", "eventsnotfound", "eventspanic":
			type eventer interface {
				ChangeEvent(map[string]interface{})
				AddEvent(interface{}, int)
				RemoveEvent(int)
			}
			e := qr.(eventer)
			if qe.typ == "model" {
				e.ChangeEvent(map[string]interface{}{"a": b.N, "b": res.DeleteAction})
				e.ChangeEvent(map[string]interface{}{})
			} else {
				e.RemoveEvent(b.N)
				e.AddEvent(res.Ref("svc.q.1"), b.N)
			}
			// events collected for this request, then an explicit answer instead: nothing of
			// them may show up in the answer to this or to a later request
			if b.Op == "eventsnotfound" {
				qr.NotFound()
			} else if b.Op == "eventspanic" {
				panic("after events")
			}
		case "nothing":
		case "error":
			qr.Error(&res.Error{Code: "custom.q", Message: b.S})
		case "errorplain":
			qr.Error(errors.New(b.S))
		case "notfound":
			qr.NotFound()
		case "invalidquery":
			qr.InvalidQuery(b.S)
		case "timeoutreply":
			qr.Timeout(time.Duration(b.N) * time.Millisecond)
			qr.NotFound()
		case "panic":
			switch b.S {
			case "reserror":
				panic(&res.Error{Code: "custom.panic", Message: "p"})
			case "error":
				panic(errors.New("boom"))
			case "int":
				panic(b.N)
			default:
				panic("boom")
			}
		case "panicafter":
			qr.NotFound()
			panic("late")
		case "twice":
			qr.NotFound()
			qr.InvalidQuery("second")
		case "replytimeout":
			// a timeout announced after the answer was given changes nothing about the answer
			qr.NotFound()
			qr.Timeout(time.Duration(b.N) * time.Millisecond)
		}
	}
}

func (m *machine) observe(point string, arg interface{}) {
	switch point {
	case "qexpire.enter", "qexpire.drained":
		rid := sched.ArgString(arg)
		m.mu.Lock()
		// expiry is in emission order per timer queue
		for _, qe := range m.evs {
			if qe.failed {
				continue
			}
			if point == "qexpire.enter" && !qe.expireReq && qe.rid == rid {
				qe.expireReq = true
				break
			}
			if point == "qexpire.drained" && qe.expireReq && !qe.drained && qe.rid == rid {
				qe.drained = true
				break
			}
		}
		m.mu.Unlock()
	case "qlistener.exit":
		m.mu.Lock()
		m.listenerExits++
		m.mu.Unlock()
	}
}

func payloadFor(kind string, id int) []byte {
	switch kind {
	case "valid":
		return []byte(fmt.Sprintf(`{"query":"id=%d"}`, id))
	case "empty":
		return []byte(`{"query":""}`)
	case "none":
		return nil
	case "trailing":
		// a complete object followed by further bytes is not a JSON text
		return []byte(fmt.Sprintf(`{"query":"id=%d"} ]`, id))
	default:
		return []byte(`{"query":`)
	}
}

func (m *machine) exec(op Op) {
	switch op.K {
	case "release":
		ps := m.ctl.Snapshot()
		if len(ps) > 0 {
			m.ctl.Release(ps[op.Pick%len(ps)])
		}
	case "failnext":
		m.mu.Lock()
		m.failNext = true
		m.mu.Unlock()
	case "emit":
		info := rids[op.RID]
		m.mu.Lock()
		qe := &qevent{id: len(m.evs), rid: op.RID, group: info[0], typ: info[1], failed: m.failNext}
		m.failNext = false
		m.evs = append(m.evs, qe)
		m.mu.Unlock()
		before := m.conn.LogLen()
		m.ctl.Do("emit "+op.RID, func() {
			go func() {
				_ = m.s.With(op.RID, func(r res.Resource) {
					m.enter(qe.group)
					defer m.leave(qe.group)
					if qe.failed {
						m.conn.FailSubscribe = func(subject string, n int) error {
							if strings.HasPrefix(subject, "_INBOX.") {
								return errors.New("injected subscribe failure")
							}
							return nil
						}
						defer func() { m.conn.FailSubscribe = nil }()
					}
					qe.emitTime = time.Now()
					r.QueryEvent(m.queryCallback(qe))
					if qe.failed {
						m.mu.Lock()
						if qe.nilCalls != 1 {
							m.viol = append(m.viol, fmt.Sprintf("failed inbox subscription: callback invoked with nil %d times during QueryEvent, expected once", qe.nilCalls))
						}
						m.mu.Unlock()
					}
				})
			}()
		})
		_ = before
	case "qreq":
		m.mu.Lock()
		var live []*qevent
		for _, qe := range m.evs {
			if qe.subject != "" {
				live = append(live, qe)
			}
		}
		if len(live) == 0 {
			m.mu.Unlock()
			return
		}
		qe := live[op.Pick%len(live)]
		rq := &qrequest{id: len(m.reqs), ev: qe, payload: op.Payload, behav: op.B, afterExpireReq: qe.expireReq}
		rq.reply = fmt.Sprintf("_INBOX.qr%d", rq.id)
		if !qe.emitTime.IsZero() {
			left := qe.emitTime.Add(time.Duration(m.c.DurMs) * time.Millisecond).Sub(time.Now())
			rq.nearExpiry = left >= 0 && left <= time.Millisecond
		}
		m.reqs = append(m.reqs, rq)
		m.mu.Unlock()
		m.ctl.Do(fmt.Sprintf("qreq %d %s", qe.id, op.Payload), func() {
			n := m.conn.Deliver(qe.subject, rq.reply, payloadFor(op.Payload, rq.id))
			rq.delivered = n > 0
		})
	case "advance":
		m.ctl.Do(fmt.Sprintf("advance %dms", op.D), func() { time.Sleep(time.Duration(op.D) * time.Millisecond) })
	case "advanceToExpiry":
		// jump to 1ns (or op.D ns) before the earliest pending expiry
		m.mu.Lock()
		var target time.Time
		for _, qe := range m.evs {
			if !qe.failed && !qe.expireReq && !qe.emitTime.IsZero() {
				target = qe.emitTime.Add(time.Duration(m.c.DurMs) * time.Millisecond)
				break
			}
		}
		m.mu.Unlock()
		if target.IsZero() {
			return
		}
		d := target.Sub(time.Now()) - time.Duration(op.D)
		if d > 0 {
			m.ctl.Do(fmt.Sprintf("advance to %dns before expiry", op.D), func() { time.Sleep(d) })
		}
	}
}

type result struct {
	viol       []string
	nontrivial bool
	nEvents    int
	nReqs      int
	trace      []string
}

func run(c Case) (out result) {
	m := &machine{c: c, occ: map[string]int{}}
	closedSends := fakeconn.ClosedChanSends()
	m.ctl = sched.New(c.Gates)
	m.ctl.Observe = m.observe
	res.VerifHook = m.ctl.Hook
	defer func() { res.VerifHook = nil }()
	s := res.NewService("svc")
	s.SetWorkerCount(c.Workers)
	s.SetLogger(nil)
	s.SetQueryEventDuration(time.Duration(c.DurMs) * time.Millisecond)
	get := res.GetResource(func(r res.GetRequest) { r.NotFound() })
	s.Handle("q.$id", res.Model, get)
	s.Handle("qs.$id", res.Collection, get, res.Group("shared"))
	s.Handle("qp.$id", res.Model, get, res.Parallel(true))
	m.s = s
	m.conn = fakeconn.New()
	m.conn.OnPublish = func(e fakeconn.Entry) {
		if strings.HasPrefix(e.Subject, "event.") && strings.HasSuffix(e.Subject, ".query") {
			var p struct{ Subject string }
			_ = json.Unmarshal(e.Data, &p)
			rid := strings.TrimSuffix(strings.TrimPrefix(e.Subject, "event."), ".query")
			m.mu.Lock()
			found := false
			for _, qe := range m.evs {
				if qe.rid == rid && qe.subject == "" && !qe.failed {
					qe.subject = p.Subject
					m.listenerStarts++
					found = true
					break
				}
			}
			if !found {
				m.viol = append(m.viol, fmt.Sprintf("unexpected query event published on %s (%s)", e.Subject, e.Data))
			}
			m.mu.Unlock()
		}
	}
	served := make(chan struct{})
	s.SetOnServe(func(*res.Service) { close(served) })
	exited := make(chan struct{})
	go func() { _ = s.Serve(m.conn); close(exited) }()
	m.ctl.Wait()
	for _, op := range c.Prog {
		m.exec(op)
	}
	// end game: drain, pass every expiry, drain again
	m.ctl.Drain(5000)
	m.ctl.Do("advance past all expiries", func() { time.Sleep(time.Duration(c.DurMs)*time.Millisecond + time.Second) })
	m.ctl.Drain(5000)
	m.ctl.Wait()

	m.mu.Lock()
	// oracle
	subjects := map[string]bool{}
	for _, qe := range m.evs {
		if qe.failed {
			if qe.subject != "" {
				m.viol = append(m.viol, fmt.Sprintf("query event %d: inbox subscription failed but a query event was published", qe.id))
			}
			if qe.nilCalls != 1 {
				m.viol = append(m.viol, fmt.Sprintf("query event %d (failed subscription): callback invoked with nil %d times, expected once", qe.id, qe.nilCalls))
			}
			continue
		}
		if qe.subject == "" {
			m.viol = append(m.viol, fmt.Sprintf("query event %d on %s: no event.%s.query was published", qe.id, qe.rid, qe.rid))
			continue
		}
		if subjects[qe.subject] {
			m.viol = append(m.viol, fmt.Sprintf("query event %d: subject %s is not fresh", qe.id, qe.subject))
		}
		subjects[qe.subject] = true
		if qe.nilCalls != 1 {
			m.viol = append(m.viol, fmt.Sprintf("query event %d on %s: callback invoked with nil %d times after expiry, expected exactly once", qe.id, qe.rid, qe.nilCalls))
		}
		for _, tk := range qe.cbTicks {
			if qe.nilCalls > 0 && tk > qe.nilTick && qe.group != "" {
				m.viol = append(m.viol, fmt.Sprintf("query event %d: a request callback ran after the nil call", qe.id))
			}
		}
	}
	replies := map[string]protoval.ReqInfo{}
	for _, rq := range m.reqs {
		replies[rq.reply] = protoval.ReqInfo{}
		if !rq.delivered {
			continue
		}
		var resp, pre [][]byte
		for _, e := range m.conn.Published(rq.reply) {
			if len(e.Data) > 0 && (e.Data[0]|32) >= 'a' && (e.Data[0]|32) <= 'z' {
				pre = append(pre, e.Data)
			} else {
				resp = append(resp, e.Data)
			}
		}
		if rq.afterExpireReq {
			out.nontrivial = true
			if len(resp) > 1 {
				m.viol = append(m.viol, fmt.Sprintf("query request %d (delivered after expiry was requested) got %d responses", rq.id, len(resp)))
			}
			continue
		}
		if rq.nearExpiry {
			out.nontrivial = true
		}
		if len(resp) != 1 {
			m.viol = append(m.viol, fmt.Sprintf("query request %d on query event %d (payload %s, behaviour %s) delivered while active got %d responses, expected exactly one: %q", rq.id, rq.ev.id, rq.payload, rq.behav.Op, len(resp), resp))
			continue
		}
		if msg := checkResponse(rq, resp[0], pre); msg != "" {
			m.viol = append(m.viol, msg)
		}
	}
	for _, e := range m.conn.Log() {
		if e.Kind == "pub" {
			if msg := protoval.Msg(e.Subject, e.Data, replies); msg != "" {
				m.viol = append(m.viol, fmt.Sprintf("published %s %q: %s", e.Subject, e.Data, msg))
				break
			}
		}
	}
	// >=2 query events alive on one group
	alive := map[string]int{}
	for _, qe := range m.evs {
		if !qe.failed {
			if qe.group != "" {
				alive[qe.group]++
			}
		}
	}
	for _, n := range alive {
		if n >= 2 {
			out.nontrivial = true
		}
	}
	if m.listenerExits != m.listenerStarts {
		m.viol = append(m.viol, fmt.Sprintf("%d query listener goroutines were started but only %d exited after every query event expired (goroutine/channel not released)", m.listenerStarts, m.listenerExits))
	}
	if n := fakeconn.ClosedChanSends() - closedSends; n > 0 {
		m.viol = append(m.viol, fmt.Sprintf("%d messages were delivered to a subscription channel the service had already closed (a real client panics with send on closed channel): a query request can arrive after the drain was requested", n))
	}
	out.nEvents, out.nReqs = len(m.evs), len(m.reqs)
	m.mu.Unlock()

	m.ctl.Free()
	_ = s.Shutdown()
	<-exited
	// leaked listeners would deadlock the bubble: unblock them so the verdict above is the one reported
	for _, sb := range m.conn.Subs() {
		if strings.HasPrefix(sb.Subject, "_INBOX.") {
			func() { defer func() { _ = recover() }(); close(sb.Ch) }()
		}
	}
	synctest.Wait()
	m.mu.Lock()
	out.viol = m.viol
	m.mu.Unlock()
	out.trace = m.ctl.TraceCopy()
	return out
}

func checkResponse(rq *qrequest, data []byte, pre [][]byte) string {
	var p struct {
		Result *struct {
			Model      json.RawMessage   `json:"model"`
			Collection json.RawMessage   `json:"collection"`
			Events     []json.RawMessage `json:"events"`
		} `json:"result"`
		Error *struct{ Code, Message string } `json:"error"`
	}
	if err := json.Unmarshal(data, &p); err != nil {
		return fmt.Sprintf("query response %q is not JSON", data)
	}
	want := func(kind string) string {
		return fmt.Sprintf("query request %d (payload %s, behaviour %s on a %s): expected %s, got %s", rq.id, rq.payload, rq.behav.Op, rq.ev.typ, kind, data)
	}
	wantErr := func(code string) string {
		if p.Error == nil || (code != "" && p.Error.Code != code) {
			return want("error " + code)
		}
		return ""
	}
	if rq.payload != "valid" {
		if rq.cbRuns > 0 {
			return fmt.Sprintf("query request %d with %s payload reached the callback", rq.id, rq.payload)
		}
		return wantErr(res.CodeInternalError)
	}
	if rq.cbRuns != 1 {
		return fmt.Sprintf("query request %d: callback ran %d times, expected once", rq.id, rq.cbRuns)
	}
	b := rq.behav
	switch b.Op {
	case "model":
		if rq.ev.typ == "collection" || b.V.Unmarshalable() || b.V.MarshalPanics() {
			return wantErr(res.CodeInternalError)
		}
		if p.Result == nil || !gen.JSONEqual(p.Result.Model, b.V.Wire()) {
			return want("model " + string(b.V.Wire()))
		}
	case "collection":
		if rq.ev.typ == "model" || b.V.Unmarshalable() || b.V.MarshalPanics() {
			return wantErr(res.CodeInternalError)
		}
		if p.Result == nil || !gen.JSONEqual(p.Result.Collection, b.V.Wire()) {
			return want("collection " + string(b.V.Wire()))
		}
	case "events":
		n := 2
		if rq.ev.typ == "model" {
			n = 1
		}
		if p.Result == nil || p.Result.Events == nil || len(p.Result.Events) != n {
			return want(fmt.Sprintf("%d events", n))
		}
	case "nothing":
		if p.Result == nil || p.Result.Events == nil || len(p.Result.Events) != 0 {
			return want("an empty events list")
		}
	case "error":
		if msg := wantErr("custom.q"); msg != "" || p.Error.Message != b.S {
			return want("error custom.q " + b.S)
		}
	case "errorplain":
		return wantErr(res.CodeInternalError)
	case "notfound", "twice", "panicafter", "eventsnotfound", "replytimeout":
		return wantErr(res.CodeNotFound)
	case "eventspanic":
		return wantErr(res.CodeInternalError)
	case "timeoutreply":
		if len(pre) != 1 || string(pre[0]) != fmt.Sprintf(`timeout:"%d"`, b.N) {
			return want(fmt.Sprintf("pre-response timeout:%d, got %q", b.N, pre))
		}
		return wantErr(res.CodeNotFound)
	case "invalidquery":
		return wantErr(res.CodeInvalidQuery)
	case "panic":
		if b.S == "reserror" {
			return wantErr("custom.panic")
		}
		return wantErr(res.CodeInternalError)
	}
	return ""
}

var gateSets = [][]string{
	{"qexpire.enter", "qexpire.drained", "qlistener.msg", "cb.mid"},
	{"qexpire.enter", "qexpire.drained", "qlistener.msg", "runWith.checked", "cb.mid"},
	{"qlistener.msg", "cb.mid"},
	{"qexpire.drained", "runWith.checked"},
	{},
}

func genBehav(t *rapid.T) QBehav {
	b := QBehav{Op: rapid.SampledFrom([]string{"model", "collection", "events", "nothing", "error", "errorplain", "notfound", "invalidquery", "timeoutreply", "panic", "panicafter", "twice", "eventsnotfound", "eventspanic", "nothing", "events", "replytimeout"}).Draw(t, "bop")}
	switch b.Op {
	case "model":
		v := gen.Val{Kind: "json", JSON: rapid.SampledFrom([]string{`{"a":1}`, `{}`, `{"x":{"rid":"svc.q.1"},"s":"é\"\\"}`}).Draw(t, "model")}
		if rapid.IntRange(0, 9).Draw(t, "unm") == 0 {
			v = gen.Val{Kind: rapid.SampledFrom([]string{"chan", "marshalpanic"}).Draw(t, "unmkind")} // cannot be encoded: an error, or a panic inside MarshalJSON
		}
		b.V = &v
	case "collection":
		v := gen.Val{Kind: "json", JSON: rapid.SampledFrom([]string{`[]`, `[1,"a",{"rid":"svc.q.2"}]`, `[null]`}).Draw(t, "coll")}
		if rapid.IntRange(0, 9).Draw(t, "unm") == 0 {
			v = gen.Val{Kind: rapid.SampledFrom([]string{"func", "marshalpanic"}).Draw(t, "unmkind")}
		}
		b.V = &v
	case "events", "timeoutreply", "eventsnotfound", "eventspanic", "replytimeout":
		b.N = rapid.IntRange(0, 5000).Draw(t, "n")
	case "error", "errorplain", "invalidquery":
		b.S = rapid.SampledFrom([]string{"", "msg", "é\"x"}).Draw(t, "s")
		if b.Op == "error" && b.S == "" {
			b.S = "m"
		}
	case "panic":
		b.S = rapid.SampledFrom([]string{"string", "error", "reserror", "int"}).Draw(t, "pk")
	}
	return b
}

func genCase() *rapid.Generator[Case] {
	return rapid.Custom(func(t *rapid.T) Case {
		c := Case{Workers: rapid.IntRange(1, 3).Draw(t, "workers"), DurMs: rapid.SampledFrom([]int{1000, 2000, 5000}).Draw(t, "dur")}
		c.Gates = gateSets[rapid.IntRange(0, len(gateSets)-1).Draw(t, "gates")]
		ridList := []string{"svc.q.1", "svc.q.2", "svc.qs.1", "svc.qs.2", "svc.qp.1"}
		n := rapid.IntRange(2, 40).Draw(t, "nops")
		emitted := 0
		for i := 0; i < n; i++ {
			k := rapid.IntRange(0, 99).Draw(t, "opk")
			switch {
			case (k < 12 || emitted == 0) && emitted < 4:
				if rapid.IntRange(0, 9).Draw(t, "fail") == 0 {
					c.Prog = append(c.Prog, Op{K: "failnext"})
				}
				c.Prog = append(c.Prog, Op{K: "emit", RID: rapid.SampledFrom(ridList).Draw(t, "rid")})
				emitted++
			case k < 45:
				c.Prog = append(c.Prog, Op{K: "release", Pick: rapid.IntRange(0, 5).Draw(t, "pick")})
			case k < 75:
				c.Prog = append(c.Prog, Op{K: "qreq", Pick: rapid.IntRange(0, 3).Draw(t, "pick"), Payload: rapid.SampledFrom([]string{"valid", "valid", "valid", "valid", "empty", "none", "malformed", "trailing"}).Draw(t, "payload"), B: genBehav(t)})
			case k < 85:
				c.Prog = append(c.Prog, Op{K: "advance", D: rapid.SampledFrom([]int{1, 10, 500, 999, 1000, 1001, 2000, 5000}).Draw(t, "d")})
			default:
				c.Prog = append(c.Prog, Op{K: "advanceToExpiry", D: rapid.SampledFrom([]int{1, 1000, 1000000, 0}).Draw(t, "before")})
			}
		}
		return c
	})
}

func runInBubble(t *testing.T, c Case) (out result) {
	defer func() {
		if v := recover(); v != nil {
			out.viol = append(out.viol, fmt.Sprintf("bubble ended abnormally: %v", v))
		}
	}()
	synctest.Test(t, func(*testing.T) { out = run(c) })
	return out
}

func TestPropQueryEvents(t *testing.T) {
	rapid.Check(t, func(rt *rapid.T) {
		c := genCase().Draw(rt, "case")
		out := runInBubble(t, c)
		ev.Case(out.nontrivial, evid.Hash(c.String()), "scenario")
		ev.Add("query-events", int64(out.nEvents))
		ev.Add("query-requests", int64(out.nReqs))
		if len(out.viol) > 0 {
			rt.Fatalf("%s\ncase: %s\ntrace: %v", out.viol[0], c, out.trace)
		}
		if out.nontrivial {
			ev.Sample("scenario", 2, func() interface{} { return map[string]interface{}{"case": c, "trace": out.trace} })
		}
	})
}

var _ = nats.ErrTimeout

// ---- regression + real NATS release check -------------------------------------

func TestRegressListenerReleased(t *testing.T) {
	c := Case{Workers: 1, DurMs: 1000, Gates: gateSets[0], Prog: []Op{
		{K: "emit", RID: "svc.q.1"},
		{K: "qreq", Pick: 0, Payload: "valid", B: QBehav{Op: "notfound"}},
		{K: "advanceToExpiry", D: 1},
		{K: "qreq", Pick: 0, Payload: "valid", B: QBehav{Op: "nothing"}},
	}}
	out := runInBubble(t, c)
	msg := ""
	if len(out.viol) > 0 {
		msg = out.viol[0]
	}
	evid.ReportKnown(t, prop, "C15-listener-leak-late-request", msg != "", msg, c)
	ev.Case(true, evid.Hash("regress-listener"), "regress")
}
