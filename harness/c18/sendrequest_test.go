package c18

import (
	"encoding/json"
	"fmt"
	"testing"
	"time"

	res "github.com/jirenius/go-res"
	"github.com/jirenius/go-res/resprot"
	"pgregory.net/rapid"

	"verifharness/internal/evid"
	"verifharness/internal/fakeconn"
	"verifharness/internal/gen"
	"verifharness/internal/svc"
)

// TestPropSendRequest: the client package's SendRequest against a live service whose
// handler sends 0-4 timeout pre-responses before its reply: the client reports every
// extension and decodes the response the handler supplied.
func TestPropSendRequest(t *testing.T) {
	rapid.Check(t, func(t *rapid.T) {
		durs := rapid.SliceOfN(rapid.SampledFrom([]int{1000, 5000, 60000, 86400000}), 0, 4).Draw(t, "timeouts")
		kind := rapid.SampledFrom([]string{"ok", "ok", "error", "resource", "notfound"}).Draw(t, "reply")
		val := gen.AnyVal(100).Draw(t, "value")
		code := rapid.SampledFrom([]string{"custom.err", "system.timeout", "a.b"}).Draw(t, "code")
		msgText := rapid.OneOf(rapid.SampledFrom([]string{"m", ""}), gen.StringTricky()).Draw(t, "msg")
		s := res.NewService("svc")
		s.SetWorkerCount(1)
		seen := make(chan time.Duration, 8)
		s.Handle("model", res.Call("do", func(r res.CallRequest) {
			for _, d := range durs {
				r.Timeout(time.Duration(d) * time.Millisecond)
				// the client's inbox holds one message: wait until it has taken this one
				select {
				case <-seen:
				case <-time.After(5 * time.Second):
				}
			}
			switch kind {
			case "ok":
				r.OK(val.Go())
			case "error":
				r.Error(&res.Error{Code: code, Message: msgText})
			case "resource":
				r.Resource("svc.other.1")
			default:
				r.NotFound()
			}
		}))
		conn := fakeconn.New()
		rn, err := svc.Start(s, conn, nil)
		if err != nil {
			t.Fatalf("%v", err)
		}
		var exts []time.Duration
		resp := resprot.SendRequest(conn, "call.svc.model.do", nil, 20*time.Second, func(d time.Duration) {
			exts = append(exts, d)
			seen <- d
		})
		_ = rn.Stop()
		what := fmt.Sprintf("handler with %d Timeout calls %v then %s", len(durs), durs, kind)
		if len(exts) != len(durs) {
			t.Fatalf("%s: the client reported %d timeout extensions %v (response: result=%v error=%v)", what, len(exts), exts, resp.HasResult(), resp.Error)
		}
		for i, d := range durs {
			if exts[i] != time.Duration(d)*time.Millisecond {
				t.Fatalf("%s: extension %d reported as %v", what, i, exts[i])
			}
		}
		switch kind {
		case "ok":
			if val.Unmarshalable() {
				if !resp.HasError() || resp.Error.Code != res.CodeInternalError {
					t.Fatalf("%s (unmarshalable value): client sees %+v", what, resp)
				}
				break
			}
			var raw json.RawMessage
			if !resp.HasResult() || resp.ParseResult(&raw) != nil {
				t.Fatalf("%s: client sees no result (error %v)", what, resp.Error)
			}
			if raw == nil {
				raw = json.RawMessage("null")
			}
			if !gen.JSONEqual(raw, val.Wire()) {
				t.Fatalf("%s: client decodes result %s, handler supplied %s", what, raw, val.Wire())
			}
		case "error":
			if !resp.HasError() || resp.Error.Code != code || resp.Error.Message != msgText {
				t.Fatalf("%s: client sees %+v, handler supplied error %s %q", what, resp.Error, code, msgText)
			}
		case "resource":
			if !resp.HasResource() || string(resp.Resource) != "svc.other.1" {
				t.Fatalf("%s: client sees resource %q (error %v)", what, resp.Resource, resp.Error)
			}
		default:
			if !resp.HasError() || resp.Error.Code != res.CodeNotFound {
				t.Fatalf("%s: client sees %+v", what, resp)
			}
		}
		ev.Case(len(durs) >= 2, evid.Hash("sendrequest", fmt.Sprint(durs), kind, fmt.Sprintf("%+v", val), code, msgText), "sendrequest-end-to-end")
	})
}
