package csched

import (
	"fmt"
	"os"
	"runtime"
	"strings"
	"testing"
	"testing/synctest"
	"time"

	"pgregory.net/rapid"

	"verifharness/internal/evid"
)

func TestMain(m *testing.M) { os.Exit(evid.Main(m)) }

func synctestWait() { synctest.Wait() }

var gateSets = map[string][]string{
	"core":     {"runWith.checked", "runWith.beforeSignal", "work.beforeCall", "work.afterCall", "cb.mid"},
	"mid":      {"cb.mid", "runWith.checked"},
	"listener": {"listener.msg", "runWith.checked", "cb.mid", "work.afterCall"},
	"shutdown": {"runWith.checked", "runWith.beforeSignal", "close.enter", "close.beforeBroadcast", "close.afterBroadcast", "close.done", "shutdown.cas", "shutdown.drained", "shutdown.done", "publish.before", "cb.mid", "work.beforeCall", "worker.start", "serve.onserve"},
	"shutlite": {"runWith.checked", "close.enter", "close.beforeBroadcast", "shutdown.done", "publish.before", "cb.mid", "serve.onserve"},
	"query":    {"qexpire.enter", "qexpire.drained", "qlistener.msg", "runWith.checked", "cb.mid"},
}

// genCase draws a case; profile selects op weights: "excl" (C01/C02) or "shutdown" (C03).
func genCase(profile string) *rapid.Generator[Case] {
	return rapid.Custom(func(t *rapid.T) Case {
		var c Case
		c.Cfg.Workers = rapid.IntRange(1, 4).Draw(t, "workers")
		if rapid.IntRange(0, 2).Draw(t, "workers2") == 0 {
			c.Cfg.Workers2 = rapid.IntRange(1, 4).Draw(t, "workers2n") // another worker count after a restart
		}
		c.Cfg.InCh = rapid.IntRange(1, 8).Draw(t, "inch")
		c.Cfg.OnError = rapid.IntRange(0, 3).Draw(t, "onerror") == 0
		c.Cfg.EarlyLookups = rapid.IntRange(0, 3).Draw(t, "earlyLookups") == 0
		c.Cfg.QDurMs = rapid.SampledFrom([]int{1000, 3000}).Draw(t, "qdur")
		var sets []string
		if profile == "shutdown" {
			sets = []string{"shutdown", "shutdown", "shutlite", "core"}
		} else {
			sets = []string{"core", "core", "mid", "listener", "query"}
		}
		gateName := rapid.SampledFrom(sets).Draw(t, "gates")
		c.Cfg.Gates = gateSets[gateName]
		// with the query gates the program leans towards query events, query requests and the
		// clock: requests pile up behind a parked query listener while the event expires
		queryHeavy := gateName == "query" || gateName == "listener"
		hot := []string{"svc.s.1", "svc.s.2", "svc.t.a.1", "svc.t.a.2", "svc.r.1", "svc.m.1", "svc.m.w.a.x", "svc.t.a.1", "svc.m.fixed", "svc.m.q.1",
			"svc.u.book.1", "svc.u.toy.1", "svc.m.a.b", "svc.m.c.b", "svc.r.1", "svc", "svc", "svc.m.n.a.1", "svc.m.n.a.2", "svc.x.a.1", "svc.x.a.2", "svc.m.n.k.1.a", "svc.m.n.k.2.a", "svc.z.1", "svc.m.fixed", "svc.m.fixed"}
		genRID := rapid.OneOf(rapid.SampledFrom(hot), rapid.SampledFrom(hot), rapid.SampledFrom(allRIDs))
		foreign := func() Op {
			return Op{K: "foreign", Typ: rapid.SampledFrom([]string{"reset", "resetall", "token", "tokenid", "tokenreset", "event", "queryevent", "queryevent"}).Draw(t, "ftyp"), RID: rapid.SampledFrom(allRIDs[:10]).Draw(t, "rid")}
		}
		genOp := func() Op {
			k := rapid.IntRange(0, 99).Draw(t, "opk")
			if queryHeavy {
				switch q := rapid.IntRange(0, 9).Draw(t, "qheavy"); {
				case q < 2:
					return Op{K: "qreq", Pick: rapid.IntRange(0, 3).Draw(t, "pick")}
				case q == 2:
					return Op{K: "advance", D: rapid.SampledFrom([]int{999, 1000, 1001, 3000, 3001}).Draw(t, "d")}
				case q == 3:
					return Op{K: "with", RID: rapid.SampledFrom(hot).Draw(t, "rid"), QE: true}
				}
			}
			switch {
			case k < 48:
				return Op{K: "release", Pick: rapid.IntRange(0, 7).Draw(t, "pick")}
			case k < 62:
				rid := genRID.Draw(t, "rid")
				if rapid.IntRange(0, 5).Draw(t, "withquery") == 0 {
					// a resource id with a query part: the group is that of the resource name
					rid = rapid.SampledFrom([]string{"svc.r.1?q=1", "svc.s.1?x=y", "svc.t.a.1?", "svc.r.1?id=2"}).Draw(t, "qrid")
				}
				return Op{K: "with", RID: rid, QE: rapid.IntRange(0, 9).Draw(t, "qe") == 0}
			case k < 74:
				return Op{K: "deliver", RID: genRID.Draw(t, "rid"), Typ: rapid.SampledFrom([]string{"get", "call", "access", "auth"}).Draw(t, "typ"), QE: rapid.IntRange(0, 9).Draw(t, "qe") == 0, Pick: rapid.IntRange(0, 1).Draw(t, "othermethod")}
			case k < 79:
				return Op{K: "withres", RID: rapid.SampledFrom(hot).Draw(t, "rid"), Pick: rapid.IntRange(0, 1).Draw(t, "reqobj")}
			case k < 84:
				return Op{K: "withgroup", G: rapid.SampledFrom([]string{"shared", "svc.r.1", "tg.a", "mm.1", "other", ""}).Draw(t, "g")}
			case k < 87:
				return Op{K: "qreq", Pick: rapid.IntRange(0, 3).Draw(t, "pick")}
			case k < 90:
				return Op{K: "advance", D: rapid.SampledFrom([]int{1, 500, 999, 1000, 1001, 3000, 3001}).Draw(t, "d")}
			case k < 94:
				return Op{K: "quiesce"}
			default:
				if profile == "shutdown" {
					return foreign()
				}
				return Op{K: "release", Pick: rapid.IntRange(0, 7).Draw(t, "pick")}
			}
		}
		phases := 1
		if profile == "shutdown" {
			phases = rapid.IntRange(1, 3).Draw(t, "phases")
		} else if rapid.IntRange(0, 5).Draw(t, "restart") == 0 {
			phases = 2
		}
		for ph := 0; ph < phases; ph++ {
			n := rapid.IntRange(1, 60/phases+5).Draw(t, "nops")
			for i := 0; i < n; i++ {
				c.Prog = append(c.Prog, genOp())
			}
			if ph == phases-1 && profile != "shutdown" {
				break
			}
			c.Prog = append(c.Prog, Op{K: "shutdown"})
			// activity racing with the shutdown
			k := rapid.IntRange(0, 25).Draw(t, "nrace")
			for i := 0; i < k; i++ {
				switch r := rapid.IntRange(0, 11).Draw(t, "racek"); {
				case r == 11:
					// time passes while Shutdown waits for callbacks that are still running
					c.Prog = append(c.Prog, Op{K: "advance", D: rapid.SampledFrom([]int{1000, 3001, 10000, 60000}).Draw(t, "d")})
				case r == 10 && rapid.Bool().Draw(t, "second"):
					// a second Shutdown call racing with the first (returns nil or not-started, never panics)
					c.Prog = append(c.Prog, Op{K: "foreign", Typ: "shutdown2"})
				case r == 10:
					// restart attempted while Shutdown may still be finishing (refused or accepted)
					c.Prog = append(c.Prog, Op{K: "serve"})
				case r < 6:
					c.Prog = append(c.Prog, Op{K: "release", Pick: rapid.IntRange(0, 7).Draw(t, "pick")})
				case r < 8:
					c.Prog = append(c.Prog, Op{K: "with", RID: genRID.Draw(t, "rid")})
				case r < 9:
					c.Prog = append(c.Prog, foreign())
				default:
					c.Prog = append(c.Prog, Op{K: "deliver", RID: genRID.Draw(t, "rid"), Typ: "call"})
				}
			}
			if ph < phases-1 {
				c.Prog = append(c.Prog, Op{K: "quiesce"}, Op{K: "serve"})
			}
		}
		return c
	})
}

// runInBubble runs a case in a fresh synctest bubble and converts a bubble
// deadlock (goroutines left blocked forever) into a C03 violation.
func runInBubble(t *testing.T, c Case) (out *Outcome) {
	// A case takes milliseconds. Goroutines that block each other on a lock of the service
	// are not "durably blocked" for the bubble, so such a deadlock would hang the run: a
	// watchdog (real time, one minute) looks at the goroutine dump then. A goroutine of the
	// library still waiting for one of its mutexes then = a deadlock, reported; anything else is
	// inconclusive.
	done := make(chan *Outcome, 1)
	go func() {
		done <- runInBubbleUnguarded(t, c)
	}()
	select {
	case out = <-done:
		return out
	case <-time.After(time.Minute):
	}
	buf := make([]byte, 1<<20)
	dump := string(buf[:runtime.Stack(buf, true)])
	waits := 0
	for _, g := range strings.Split(dump, "\n\n") {
		if (strings.Contains(g, "sync.(*RWMutex).") || strings.Contains(g, "sync.(*Mutex).Lock")) && strings.Contains(g, "github.com/jirenius/go-res.") {
			waits++
		}
	}
	if d := os.Getenv("VERIF_WORK"); d != "" {
		_ = os.WriteFile(d+"/hung-goroutines.txt", []byte(dump), 0o644)
	}
	out = &Outcome{Viol: map[string][]string{}}
	if waits >= 1 {
		out.Viol["C03"] = append(out.Viol["C03"], fmt.Sprintf("the case did not finish within a minute of real time: %d goroutines of the library have been waiting for one of its mutexes all that time (a lock is held across a publish or a wait: deadlock); Shutdown and the calls racing it never return", waits))
		return out
	}
	// nothing of the library waits for a lock: the machine may simply have stood still for a
	// while (a snapshot, a suspended VM); the case gets more time before the run is given up
	select {
	case out = <-done:
		return out
	case <-time.After(5 * time.Minute):
	}
	t.Fatalf("VERIF-INCONCLUSIVE: a bubble case did not finish within six minutes of real time (no lock cycle in the goroutine dump)")
	return out
}

func runInBubbleUnguarded(t *testing.T, c Case) (out *Outcome) {
	defer func() {
		if v := recover(); v != nil {
			msg := fmt.Sprint(v)
			if out == nil {
				out = &Outcome{Viol: map[string][]string{}}
			}
			if strings.Contains(msg, "deadlock") {
				out.Viol["C03"] = append(out.Viol["C03"], "goroutines of the service remain blocked forever after the case ended (bubble deadlock): "+msg)
			} else {
				out.Viol["C03"] = append(out.Viol["C03"], "panic escaped: "+msg)
			}
		}
	}()
	synctest.Test(t, func(*testing.T) {
		out = run(c)
	})
	return out
}

func TestC01Exclusion(t *testing.T) {
	ev := evid.For("C01")
	ev.SetRule("cases = schedules of a real service inside a synctest bubble: configuration (1-4 workers, in-channel 1-8, resources with default / literal / ${tag} / mounted ${tag} / Parallel groups, gate set) and a program of up to 60 steps (release the i-th parked goroutine, With/WithResource/WithGroup from a fresh goroutine, deliver a get/call/access/auth request, emit a query event from a callback, deliver a query request, advance the virtual clock past expiry, quiesce, restart); every callback counts per-group occupancy against the group computed by the reference router; a schedule is non-trivial when a callback of group g was suspended mid-execution while a further callback of g was submitted and more than one worker existed; distinct = hash of the case")
	ev.Assume("exclusion is decided at the granularity of the hook points; code between two hooks runs atomically in controlled mode")
	rapid.Check(t, func(rt *rapid.T) {
		c := genCase("excl").Draw(rt, "case")
		out := runInBubble(t, c)
		ev.Case(out.Overlapable, evid.Hash(c.String()), fmt.Sprintf("workers-%d", c.Cfg.Workers))
		ev.Add("query-events", int64(out.QueryEvents))
		ev.Add("cycles", int64(out.Cycles))
		if len(out.Viol["C01"]) > 0 {
			rt.Fatalf("%s\ncase: %s\ntrace: %v", out.Viol["C01"][0], c, out.Trace)
		}
		if out.Overlapable {
			ev.Sample("overlapable", 2, func() interface{} { return map[string]interface{}{"case": c, "trace": out.Trace} })
		}
	})
}
