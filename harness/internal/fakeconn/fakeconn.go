// Package fakeconn is an in-memory res.Conn that records everything published
// in one ordered log (shared with harness notes such as apply-handler and
// listener calls), keeps a subscription table with NATS delivery semantics
// (non-blocking sends, queue groups, wildcards) and can inject faults.
package fakeconn

import (
	"errors"
	"fmt"
	"sync"
	"sync/atomic"

	nats "github.com/nats-io/nats.go"

	"verifharness/internal/natsref"
)

// Entry is one element of the ordered log.
type Entry struct {
	Seq     int
	Kind    string // "pub", "sub", "close", or a harness note kind
	Subject string
	Reply   string
	Data    []byte
	Note    interface{}
}

func (e Entry) String() string {
	if e.Kind == "pub" {
		return fmt.Sprintf("#%d pub %s %s", e.Seq, e.Subject, e.Data)
	}
	return fmt.Sprintf("#%d %s %s %v", e.Seq, e.Kind, e.Subject, e.Note)
}

// Sub is one subscription.
type Sub struct {
	Subject string
	Queue   string
	Ch      chan *nats.Msg
	NSub    *nats.Subscription
}

// Conn implements res.Conn.
type Conn struct {
	mu      sync.Mutex
	log     []Entry
	subs    []*Sub
	Closed  int
	Dropped int
	// Strict makes subscribe/publish fail like nats.go v1.10.0 would on bad subjects.
	Strict bool
	// Blocking makes deliveries block on a full subscription channel (instead of dropping),
	// holding a mutex that Close also takes - the behaviour of restest.MockConn.
	Blocking bool
	dmu      sync.Mutex
	// FailSubscribe, if set, may return an error for the n-th (1-based) subscribe call.
	FailSubscribe func(subject string, n int) error
	// FailPublish, if set, may return an error for the n-th (1-based) publish call.
	FailPublish func(subject string, n int) error
	// LogFailedPublish: a publish refused by FailPublish is still written to the log (kind
	// "pub", note "failed"): the attempt is an effect of the calling code.
	LogFailedPublish bool
	// LogAfterClose: a publish made after Close is refused, but still written to the log
	// (kind "pub", note "after-close").
	LogAfterClose bool
	nsub, npub    int
	// OnPublish is called (outside the lock) after a publish was logged.
	OnPublish func(Entry)
}

// New returns a new connection.
func New() *Conn { return &Conn{} }

// ErrBadSubject mirrors nats.ErrBadSubject.
var ErrBadSubject = nats.ErrBadSubject

// Note appends a harness note to the ordered log.
func (c *Conn) Note(kind, subject string, note interface{}) {
	c.mu.Lock()
	c.log = append(c.log, Entry{Seq: len(c.log), Kind: kind, Subject: subject, Note: note})
	c.mu.Unlock()
}

// Log returns a copy of the log.
func (c *Conn) Log() []Entry {
	c.mu.Lock()
	defer c.mu.Unlock()
	return append([]Entry(nil), c.log...)
}

// LogFrom returns a copy of the log entries from index i on.
func (c *Conn) LogFrom(i int) []Entry {
	c.mu.Lock()
	defer c.mu.Unlock()
	if i > len(c.log) {
		i = len(c.log)
	}
	return append([]Entry(nil), c.log[i:]...)
}

// LogLen returns the current log length.
func (c *Conn) LogLen() int {
	c.mu.Lock()
	defer c.mu.Unlock()
	return len(c.log)
}

// Published returns the publish entries on a subject.
func (c *Conn) Published(subject string) []Entry {
	var out []Entry
	for _, e := range c.Log() {
		if e.Kind == "pub" && e.Subject == subject {
			out = append(out, e)
		}
	}
	return out
}

// Subs returns a copy of the subscription table.
func (c *Conn) Subs() []*Sub {
	c.mu.Lock()
	defer c.mu.Unlock()
	return append([]*Sub(nil), c.subs...)
}

func (c *Conn) publish(subject, reply string, payload []byte) error {
	c.mu.Lock()
	c.npub++
	n := c.npub
	ff := c.FailPublish
	c.mu.Unlock()
	if ff != nil {
		if err := ff(subject, n); err != nil {
			if c.LogFailedPublish {
				c.mu.Lock()
				c.log = append(c.log, Entry{Seq: len(c.log), Kind: "pub", Subject: subject, Reply: reply, Data: append([]byte(nil), payload...), Note: "failed"})
				c.mu.Unlock()
			}
			return err
		}
	}
	if c.Strict && !natsref.ValidPublish(subject) && !natsref.ValidSubscribe(subject) {
		return ErrBadSubject
	}
	c.mu.Lock()
	if c.Closed > 0 {
		if c.LogAfterClose {
			c.log = append(c.log, Entry{Seq: len(c.log), Kind: "pub", Subject: subject, Reply: reply, Data: append([]byte(nil), payload...), Note: "after-close"})
		}
		c.mu.Unlock()
		return nats.ErrConnectionClosed
	}
	e := Entry{Seq: len(c.log), Kind: "pub", Subject: subject, Reply: reply, Data: append([]byte(nil), payload...)}
	c.log = append(c.log, e)
	targets := c.match(subject)
	c.mu.Unlock()
	c.deliver(targets, subject, reply, payload)
	if cb := c.OnPublish; cb != nil {
		cb(e)
	}
	return nil
}

// match returns the subscriptions to deliver to (lock held).
func (c *Conn) match(subject string) []*Sub {
	var out []*Sub
	queues := map[string]bool{}
	for _, s := range c.subs {
		if !natsref.Matches(s.Subject, subject) {
			continue
		}
		if s.Queue != "" {
			if queues[s.Queue] {
				continue
			}
			queues[s.Queue] = true
		}
		out = append(out, s)
	}
	return out
}

// blockingSend sends like a connection that blocks on the subscription channel
// (restest.MockConn does); a send on a closed channel is counted, not propagated.
func blockingSend(ch chan *nats.Msg, m *nats.Msg) (ok bool) {
	defer func() {
		if recover() != nil {
			atomic.AddInt64(&closedChanSends, 1)
			ok = false
		}
	}()
	ch <- m
	return true
}

func (c *Conn) deliver(targets []*Sub, subject, reply string, payload []byte) int {
	if c.Blocking {
		// deliveries block on a full channel while holding the delivery mutex that Close takes
		c.dmu.Lock()
		defer c.dmu.Unlock()
		c.mu.Lock()
		closed := c.Closed > 0
		c.mu.Unlock()
		if closed {
			return 0
		}
		n := 0
		for _, s := range targets {
			m := &nats.Msg{Subject: subject, Reply: reply, Data: append([]byte(nil), payload...), Sub: s.NSub}
			if blockingSend(s.Ch, m) {
				n++
			}
		}
		return n
	}
	// The (non-blocking) sends happen under the connection mutex so that, like
	// with a real client, nothing is delivered once Close has returned.
	c.mu.Lock()
	defer c.mu.Unlock()
	if c.Closed > 0 {
		return 0
	}
	n := 0
	for _, s := range targets {
		m := &nats.Msg{Subject: subject, Reply: reply, Data: append([]byte(nil), payload...), Sub: s.NSub}
		if trySend(s.Ch, m) {
			n++
		} else {
			c.Dropped++
		}
	}
	return n
}

// ClosedChanSends counts deliveries that hit a closed channel (a real client
// would have panicked with "send on closed channel").
var closedChanSends int64

// ClosedChanSends returns the process-wide count of sends on closed channels.
func ClosedChanSends() int64 { return atomic.LoadInt64(&closedChanSends) }

func trySend(ch chan *nats.Msg, m *nats.Msg) (ok bool) {
	defer func() {
		if recover() != nil {
			atomic.AddInt64(&closedChanSends, 1)
			ok = false
		}
	}()
	select {
	case ch <- m:
		return true
	default:
		return false
	}
}

// Deliver injects a message from "the network" without logging it as a publish
// of the service; it returns the number of subscriptions that received it.
func (c *Conn) Deliver(subject, reply string, payload []byte) int {
	c.mu.Lock()
	targets := c.match(subject)
	c.mu.Unlock()
	return c.deliver(targets, subject, reply, payload)
}

// MatchCount returns how many deliveries a subject would cause.
func (c *Conn) MatchCount(subject string) int {
	c.mu.Lock()
	defer c.mu.Unlock()
	return len(c.match(subject))
}

// Publish implements res.Conn.
func (c *Conn) Publish(subject string, payload []byte) error {
	return c.publish(subject, "", payload)
}

// PublishRequest implements res.Conn.
func (c *Conn) PublishRequest(subject, reply string, data []byte) error {
	return c.publish(subject, reply, data)
}

func (c *Conn) subscribe(subject, queue string, ch chan *nats.Msg) (*nats.Subscription, error) {
	c.mu.Lock()
	c.nsub++
	n := c.nsub
	ff := c.FailSubscribe
	c.mu.Unlock()
	if ff != nil {
		if err := ff(subject, n); err != nil {
			return nil, err
		}
	}
	if c.Strict && !natsref.ValidSubscribe(subject) {
		return nil, ErrBadSubject
	}
	if ch == nil {
		return nil, errors.New("nats: channel required")
	}
	s := &Sub{Subject: subject, Queue: queue, Ch: ch, NSub: &nats.Subscription{Subject: subject, Queue: queue}}
	c.mu.Lock()
	if c.Closed > 0 {
		c.mu.Unlock()
		return nil, nats.ErrConnectionClosed
	}
	c.subs = append(c.subs, s)
	c.log = append(c.log, Entry{Seq: len(c.log), Kind: "sub", Subject: subject, Note: queue})
	c.mu.Unlock()
	return s.NSub, nil
}

// ChanSubscribe implements res.Conn.
func (c *Conn) ChanSubscribe(subject string, ch chan *nats.Msg) (*nats.Subscription, error) {
	return c.subscribe(subject, "", ch)
}

// ChanQueueSubscribe implements res.Conn.
func (c *Conn) ChanQueueSubscribe(subject, queue string, ch chan *nats.Msg) (*nats.Subscription, error) {
	return c.subscribe(subject, queue, ch)
}

// Unsubscribe removes the subscription owning channel ch (the detached
// *nats.Subscription values cannot do it themselves).
func (c *Conn) Unsubscribe(ch chan *nats.Msg) {
	c.mu.Lock()
	defer c.mu.Unlock()
	for i, s := range c.subs {
		if s.Ch == ch {
			c.subs = append(c.subs[:i:i], c.subs[i+1:]...)
			return
		}
	}
}

// Close implements res.Conn.
func (c *Conn) Close() {
	if c.Blocking {
		c.dmu.Lock()
		defer c.dmu.Unlock()
	}
	c.mu.Lock()
	c.Closed++
	c.log = append(c.log, Entry{Seq: len(c.log), Kind: "close"})
	c.mu.Unlock()
}
