package c18

import (
	"encoding/json"
	"testing"

	"pgregory.net/rapid"

	"verifharness/internal/evid"
	"verifharness/internal/reqcase"
)

// TestPropConcurrentResponses: the response oracle (classified as exactly one of
// result/resource/error by the client package and decoding to what the handler
// supplied) on concurrent batches: many requests with different values answered at
// the same time on different worker groups.
func TestPropConcurrentResponses(t *testing.T) {
	rapid.Check(t, func(t *rapid.T) {
		c := reqcase.Case{Name: "svc", Workers: rapid.SampledFrom([]int{2, 4, 16}).Draw(t, "workers")}
		c.Handlers = reqcase.GenHandlers().Draw(t, "handlers")
		for i := range c.Handlers {
			c.Handlers[i].Group = ""
		}
		nshape := rapid.IntRange(2, 8).Draw(t, "nshape")
		var shapes []reqcase.ReqSpec
		for i := 0; i < nshape; i++ {
			shapes = append(shapes, reqcase.GenRequest(c.Name, c.Handlers, "").Draw(t, "shape"))
		}
		n := rapid.IntRange(8, 150).Draw(t, "nreq")
		for i := 0; i < n; i++ {
			rq := shapes[rapid.IntRange(0, nshape-1).Draw(t, "which")]
			if rq.Fields == nil {
				continue
			}
			cp := map[string]json.RawMessage{}
			for k, v := range rq.Fields {
				cp[k] = v
			}
			rq.Fields = cp
			c.Reqs = append(c.Reqs, rq)
		}
		if len(c.Reqs) == 0 {
			return
		}
		reqcase.TagQueries(&c)
		r := reqcase.RunConcurrent(&c)
		if r.StartErr != nil || r.WaitErr != nil {
			t.Fatalf("run: %v %v", r.StartErr, r.WaitErr)
		}
		ntc := 0
		for i := range r.Obs {
			msg, nt := checkResponse(&c, &c.Reqs[i], r.Obs[i])
			if nt {
				ntc++
			}
			if msg != "" {
				t.Fatalf("concurrent batch of %d (workers %d): %s", len(c.Reqs), c.Workers, msg)
			}
		}
		ev.Case(ntc > 0 && len(c.Reqs) >= 8, evid.Hash("concresp", c.String()), "concurrent-responses")
	})
}
