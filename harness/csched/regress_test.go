package csched

import (
	"fmt"
	"testing"
	"time"

	res "github.com/jirenius/go-res"

	"verifharness/internal/evid"
	"verifharness/internal/fakeconn"
)

// scripted runs a case whose release ops name the point to release ("rel:<point>").
func scripted(t *testing.T, cfg Cfg, steps []Op) *Outcome {
	return runInBubble(t, Case{Cfg: cfg, Prog: steps})
}

func rel(point string) Op { return Op{K: "relpoint", G: point} }

// TestRegressShutdownHang: a submission slips between the started-check and the lock while close() runs.
func TestRegressShutdownHang(t *testing.T) {
	cfg := Cfg{Workers: 1, InCh: 1, QDurMs: 1000, Gates: gateSets["shutdown"]}
	out := scripted(t, cfg, []Op{
		rel("publish.before"),                   // system.reset of Serve
		{K: "with", RID: "svc.r.1"},             // parks at runWith.checked
		{K: "shutdown"},                         // parks at shutdown.cas
		rel("shutdown.cas"), rel("close.enter"), // close() sets the queue to nil, parks before the broadcast
		rel("runWith.checked"), // the submission proceeds
		rel("worker.start"),    // the worker starts only now
	})
	msg := ""
	if len(out.Viol["C03"]) > 0 {
		msg = out.Viol["C03"][0]
	}
	evid.ReportKnown(t, "C03", "C03-shutdown-hang-revived-queue", msg != "", msg, map[string]interface{}{"trace": out.Trace})
	evid.For("C03").Case(true, evid.Hash("regress-hang"), "regress")
}

// TestRegressPublishOnStoppedService: an event emitted by a foreign goroutine after/while Shutdown clears the connection.
func TestRegressPublishOnStoppedService(t *testing.T) {
	cfg := Cfg{Workers: 1, InCh: 1, QDurMs: 1000, Gates: gateSets["shutlite"]}
	out := scripted(t, cfg, []Op{
		rel("publish.before"),
		{K: "foreign", Typ: "event", RID: "svc.r.1"}, // parks at publish.before, after any state check
		{K: "shutdown"},
		rel("close.enter"), rel("close.beforeBroadcast"), // Shutdown completes and clears the connection
		rel("publish.before"), // now the publisher proceeds
		{K: "foreign", Typ: "reset", RID: "svc.r.1"},
		{K: "foreign", Typ: "event", RID: "svc.r.1"},
	})
	msg := ""
	if len(out.Viol["C03"]) > 0 {
		msg = fmt.Sprint(out.Viol["C03"])
	}
	evid.ReportKnown(t, "C03", "C03-nil-connection-after-shutdown", msg != "", msg, map[string]interface{}{"trace": out.Trace})
	evid.For("C03").Case(true, evid.Hash("regress-nilconn"), "regress")
}

// TestRegressFailedStartLeavesServiceStopped: Serve fails on ValidateListeners (an event
// listener on a pattern without handler); with the handler added, Serve must work.
func TestRegressFailedStartLeavesServiceStopped(t *testing.T) {
	msg := ""
	s := res.NewService("svc")
	s.SetLogger(nil)
	s.Handle("g", res.Call("do", func(r res.CallRequest) { r.OK(nil) }))
	s.AddListener("late", func(*res.Event) {})
	if err := s.Serve(fakeconn.New()); err == nil {
		msg = "Serve with a listener on a pattern without handler returned nil"
	} else {
		s.Handle("late", res.Call("do", func(r res.CallRequest) { r.OK(nil) }))
		served := make(chan struct{})
		s.SetOnServe(func(*res.Service) { close(served) })
		ret := make(chan error, 1)
		go func() { ret <- s.Serve(fakeconn.New()) }()
		select {
		case <-served:
			_ = s.Shutdown()
			<-ret
		case err := <-ret:
			msg = fmt.Sprintf("after a Serve call that failed to start, Serve returns %v: the service is stuck in its starting state", err)
		case <-time.After(20 * time.Second):
			t.Fatalf("VERIF-INCONCLUSIVE: Serve neither served nor returned")
		}
	}
	evid.ReportKnown(t, "C03", "C03-failed-start-stuck-starting", msg != "", msg, map[string]string{"steps": "AddListener(late); Serve -> error; Handle(late); Serve"})
	evid.For("C03").Case(true, evid.Hash("regress-failedstart"), "regress")
}
