package cidx

import (
	"fmt"
	"testing"

	"pgregory.net/rapid"

	"verifharness/internal/evid"
)

func genQuery(indexes []string) *rapid.Generator[Query] {
	return rapid.Custom(func(t *rapid.T) Query {
		return Query{
			Index:   rapid.SampledFrom(indexes).Draw(t, "index"),
			Prefix:  rapid.SampledFrom([]string{"", "", "a", "b", "ab", "a:", "~", "a~", "abababab", "a^", "^", ":", "a:b", "b:"}).Draw(t, "prefix"),
			Filter:  rapid.SampledFrom([]string{"", "", "evenlen", "lastb", "nonempty"}).Draw(t, "filter"),
			Offset:  rapid.SampledFrom([]int{0, 0, 1, 2, 3, 8}).Draw(t, "offset"),
			Limit:   rapid.SampledFrom([]int{-1, -1, 0, 1, 2, 5, 1000}).Draw(t, "limit"),
			Reverse: rapid.Bool().Draw(t, "reverse"),
		}
	})
}

func genCfg() *rapid.Generator[Cfg] {
	return rapid.Custom(func(t *rapid.T) Cfg {
		c := Cfg{Prefix: rapid.SampledFrom([]string{"", "pfx", "a.b"}).Draw(t, "prefix")}
		c.Indexes = rapid.SampledFrom([][]string{{"ia"}, {"ia", "ib"}, {"ia", "ib", "ic"}, {"ic"}, {"ib", "ic"}}).Draw(t, "indexes")
		c.SlowKey = rapid.SampledFrom([]int{0, 0, 0, 1, 2}).Draw(t, "slow")
		c.ReuseIQ = rapid.IntRange(0, 2).Draw(t, "reuseIQ") == 0
		n := rapid.IntRange(1, 4).Draw(t, "nstanding")
		for i := 0; i < n; i++ {
			c.Standing = append(c.Standing, genQuery(c.Indexes).Draw(t, "standing"))
		}
		return c
	})
}

func genCase() *rapid.Generator[Case] {
	return rapid.Custom(func(t *rapid.T) Case {
		c := Case{Cfg: genCfg().Draw(t, "cfg")}
		n := rapid.IntRange(2, 40).Draw(t, "nops")
		for i := 0; i < n; i++ {
			k := rapid.SampledFrom([]string{"create", "create", "update", "update", "update", "delete", "flush", "query", "query", "query"}).Draw(t, "k")
			if x := rapid.IntRange(0, 19).Draw(t, "admin"); x == 0 {
				k = "rebuild"
			} else if x == 1 {
				k = "init"
			}
			op := Op{K: k}
			switch k {
			case "init":
				op.ID = rapid.SampledFrom(idAlpha).Draw(t, "id")
				op.A = rapid.SampledFrom(fieldAlpha).Draw(t, "a")
				op.B = rapid.SampledFrom(fieldAlpha).Draw(t, "b")
				if rapid.Bool().Draw(t, "race") {
					op.Then = "race"
					op.A2 = rapid.SampledFrom(fieldAlpha).Draw(t, "a2")
					op.B2 = rapid.SampledFrom(fieldAlpha).Draw(t, "b2")
				}
			case "create", "update":
				op.ID = rapid.SampledFrom(idAlpha).Draw(t, "id")
				op.A = rapid.SampledFrom(fieldAlpha).Draw(t, "a")
				op.B = rapid.SampledFrom(fieldAlpha).Draw(t, "b")
				if rapid.IntRange(0, 4).Draw(t, "then") == 0 {
					op.Then = rapid.SampledFrom([]string{"update", "update", "delete"}).Draw(t, "thenk")
					op.A2 = rapid.SampledFrom(fieldAlpha).Draw(t, "a2")
					op.B2 = rapid.SampledFrom(fieldAlpha).Draw(t, "b2")
				}
			case "delete":
				op.ID = rapid.SampledFrom(idAlpha).Draw(t, "id")
				op.Raw = rapid.IntRange(0, 5).Draw(t, "raw") == 0
			case "query":
				q := genQuery(c.Cfg.Indexes).Draw(t, "q")
				op.Q = &q
			}
			c.Ops = append(c.Ops, op)
		}
		return c
	})
}

func TestC13IndexQueries(t *testing.T) {
	ev := evid.For("C13")
	ev.SetRule("cases = histories on a real BadgerDB (fresh per case): creates, key-changing and key-preserving updates and deletes over 6 ids; 1-3 indexes whose key functions return byte strings over {a,b,:,0xff}, the empty key, or nil; Flush; queries with prefix (empty, partial, full, longer than any key, containing 0x00 or ':'), filter, offset 0-8, limit in {-1,0,1,2,5,1000}, both directions; the index Key function of the first index yields or sleeps in a drawn fraction of cases; reference = sort bytewise by (key,id), filter, reverse, window; a case is non-trivial when it has a query with a non-empty reference result issued after >=1 key-changing update and >=1 delete; distinct = hash of the case")
	ev.Assume("ids and index keys contain no NUL byte (the documented entry layout name:key\\x00id presupposes it)")
	rapid.Check(t, func(rt *rapid.T) {
		c := genCase().Draw(rt, "case")
		r := runSequential(c)
		rev := false
		for _, op := range c.Ops {
			if op.Q != nil && op.Q.Reverse {
				rev = true
			}
		}
		labels := []string{"sequential"}
		if rev {
			labels = append(labels, "with-reverse-query")
		}
		if c.Cfg.SlowKey > 0 {
			labels = append(labels, "slow-key")
		}
		ev.Case(r.nt13, evid.Hash(c.String()), labels...)
		ev.Add("queries", int64(r.queries))
		if r.c13 != "" {
			rt.Fatalf("%s\ncase: %s", r.c13, c)
		}
		if r.nt13 {
			ev.Sample("sequential", 2, func() interface{} { return c })
		}
	})
}

func TestC14QueryChange(t *testing.T) {
	ev := evid.For("C14")
	ev.SetRule("cases = the C13 histories with registered OnQueryChange callbacks and 1-4 standing queries (prefix, filter, window, direction); for every mutation the reference result of every standing query before and after is computed from the model; a case is non-trivial when some mutation moves an id across the boundary of a standing query (in->out, out->in, or a position change inside the window); distinct = hash of the case")
	rapid.Check(t, func(rt *rapid.T) {
		c := genCase().Draw(rt, "case")
		r := runSequential(c)
		ev.Case(r.nt14, evid.Hash(c.String()), "sequential")
		if r.c13 != "" && r.c14 == "" {
			// index contents are C13's business; the callback oracle needs them right
			return
		}
		if r.c14 != "" {
			rt.Fatalf("%s\ncase: %s", r.c14, c)
		}
		if r.nt14 {
			ev.Sample("sequential", 2, func() interface{} { return c })
		}
	})
}

var _ = fmt.Sprint
