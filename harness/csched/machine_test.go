package csched

import (
	"encoding/json"
	"fmt"
	"sort"
	"strconv"
	"strings"
	"sync"
	"time"

	res "github.com/jirenius/go-res"
	nats "github.com/nats-io/nats.go"

	"verifharness/internal/fakeconn"
	"verifharness/internal/refmux"
	"verifharness/internal/sched"
)

// Op is one step of a schedule program.
type Op struct {
	K    string `json:"k"`              // release with withres withgroup deliver qreq advance quiesce shutdown serve foreign
	RID  string `json:"rid,omitempty"`  // resource id for with/deliver/foreign
	Typ  string `json:"typ,omitempty"`  // request type for deliver; foreign call kind
	G    string `json:"g,omitempty"`    // group for withgroup
	QE   bool   `json:"qe,omitempty"`   // the callback emits a query event
	Pick int    `json:"pick,omitempty"` // index choice for release / qreq
	D    int    `json:"d,omitempty"`    // advance duration in ms
}

// Cfg is the configuration of a case.
type Cfg struct {
	Workers int `json:"workers"`
	// Workers2, when > 0, is the worker count set before the service is served again.
	Workers2 int      `json:"workers2,omitempty"`
	InCh     int      `json:"inch"`
	Gates    []string `json:"gates"`
	QDurMs   int      `json:"qdur"`
	// OnError: an error handler is set on the service (which has no logger)
	OnError bool `json:"onerror,omitempty"`
	// EarlyLookups: every resource id of the case is looked up (Resource, With) while the
	// handlers are being registered: before the mounts, and between them.
	EarlyLookups bool `json:"earlyLookups,omitempty"`
}

// Case is a full schedule case.
type Case struct {
	Cfg  Cfg  `json:"cfg"`
	Prog []Op `json:"prog"`
}

func (c Case) String() string { b, _ := json.Marshal(c); return string(b) }

// Sub is one submission (With*, request, query request) and what happened to it.
type Sub struct {
	ID                int
	Kind              string // with withres withgroup req qreq
	RID               string
	Group             string // reference group ("" for parallel)
	Parallel          bool
	Cycle             int   // service start cycle in which it was submitted
	BeginStep         int64 // controller step at which the submission began
	EndStep           int64 // controller step at which the submitting call had returned (0 = not yet)
	Returned          bool
	Err               string // With error
	WantErr           bool
	Started           bool // service was in started state for the whole submission
	Dropped           bool // request not accepted by the connection (channel full / no subscription)
	Starts            []int64
	Ends              []int64
	DeliverNo         int // order of delivery on the connection (requests)
	QE                bool
	AfterShutdownCall bool
}

// Outcome is the observable history of a case.
type Outcome struct {
	Subs                   []*Sub
	Viol                   map[string][]string // property id -> violations
	Trace                  []string
	Overlapable            bool // some callback was suspended mid-execution while another of its group was submitted and a worker idle
	OrderedPairs           int
	Cycles                 int
	ShutdownDuringActivity bool
	Quiesced               int
	Panics                 []string
	NilCalls               map[int]int
	QueryEvents            int
	Closes                 []int
	MaxParked              int
	EarlyRestarts          int
}

type machine struct {
	c     Case
	ctl   *sched.Ctl
	s     *res.Service
	conn  *fakeconn.Conn
	conns []*fakeconn.Conn
	out   *Outcome

	mu                       sync.Mutex
	subs                     []*Sub
	occ                      map[string]int
	started                  bool // between OnServe and the Shutdown call
	cycle                    int
	serveRet                 chan struct{}
	shutCalled, shutReturned bool
	shutStep                 int64
	serveDone                bool
	serveDoneCyc             map[int]bool // cycle -> its Serve call has returned
	running                  map[int]bool // callbacks currently executing
	qsubj                    []string     // active query subjects in order of appearance
	qchans                   []chan *nats.Msg
	delivered                int
	entries                  []refmux.Entry
	foreignPending           int
	resources                map[string]res.Resource
	reqRes                   map[string]res.Resource // request objects kept by handlers, by resource id
	prevCycle                *cycleState
	serveRefused             bool
}

var allRIDs = []string{"svc.r.1", "svc.r.2", "svc.s.1", "svc.s.2", "svc.t.a.1", "svc.t.a.2", "svc.t.b.1", "svc.p.1", "svc.m.1", "svc.m.2", "svc.nosuch.1",
	"svc.m.w.a.x", "svc.m.w.a.y.z", "svc.m.fixed", "svc.m.q.1", "svc.u.book.1", "svc.u.toy.1", "svc.m.a.b", "svc.m.c.b", "svc.r.1.deep",
	"svc.m.n.a.1", "svc.m.n.a.2", "svc.m.n.b.1", "svc.m.n.k.1.a", "svc.m.n.k.2.a",
	// placeholder values outside the usual alphabet: still resources of their patterns
	"svc.r.åsa", "svc.r.$q", "svc.t.a.*", "svc.x.a.1", "svc.x.b.1",
	// no handler: the service name glued to further characters
	"svcx.r.1", "svc_r.1", "svc",
	// served by a mux that is mounted as the very last registration step
	"svc.z.1", "svc.z.2"}

func (m *machine) viol(prop, format string, a ...interface{}) {
	m.mu.Lock()
	m.violLocked(prop, fmt.Sprintf(format, a...))
	m.mu.Unlock()
}

// violLocked records a violation (lock held). A C01/C02 violation in a cycle after
// a restart is also a C03 violation: a re-served service must give the same guarantees.
func (m *machine) violLocked(prop, msg string) {
	m.out.Viol[prop] = append(m.out.Viol[prop], msg)
	if (prop == "C01" || prop == "C02") && m.cycle > 1 {
		m.out.Viol["C03"] = append(m.out.Viol["C03"], fmt.Sprintf("after restart (cycle %d) the service no longer gives its guarantees: %s", m.cycle, msg))
	}
}

func (m *machine) refGroup(rid string) (group string, parallel, found bool) {
	name := rid
	if i := strings.IndexByte(rid, '?'); i >= 0 {
		name = rid[:i]
	}
	best, _ := refmux.Route(m.entries, name)
	if best == nil {
		return "", false, false
	}
	return refmux.GroupOf(best, name), best.Parallel, true
}

// body is the instrumented body of every callback.
func (m *machine) body(sb *Sub, r res.Resource, qe bool) {
	tick := m.ctl.Tick()
	m.mu.Lock()
	sb.Starts = append(sb.Starts, tick)
	if m.shutReturned && sb.Cycle == m.cycle {
		m.out.Viol["C03"] = append(m.out.Viol["C03"], fmt.Sprintf("callback of submission %d (%s %s) started after Shutdown had returned", sb.ID, sb.Kind, sb.RID))
	}
	// one counter per group over the whole history: a callback of an earlier Serve cycle that is
	// still executing excludes callbacks of its group in a later cycle as well
	key := sb.Group
	if !sb.Parallel {
		m.occ[key]++
		if m.occ[key] > 1 {
			m.violLocked("C01", fmt.Sprintf("two callbacks of group %q execute at the same instant (entering: submission %d %s %s)", sb.Group, sb.ID, sb.Kind, sb.RID))
		}
	}
	m.running[sb.ID] = true
	m.mu.Unlock()

	m.ctl.Gate("cb.mid", strconv.Itoa(sb.ID))
	if qe && r != nil {
		m.emitQuery(sb, r)
	}

	m.mu.Lock()
	if !sb.Parallel {
		m.occ[key]--
	}
	delete(m.running, sb.ID)
	sb.Ends = append(sb.Ends, m.ctl.Tick())
	m.mu.Unlock()
}

func (m *machine) emitQuery(parent *Sub, r res.Resource) {
	m.mu.Lock()
	m.out.QueryEvents++
	qid := len(m.subs)
	nilSub := &Sub{ID: qid, Kind: "qnil", RID: parent.RID, Group: parent.Group, Parallel: parent.Parallel, Cycle: parent.Cycle, Started: true, Returned: true}
	m.subs = append(m.subs, nilSub)
	m.mu.Unlock()
	defer func() {
		if v := recover(); v != nil {
			m.viol("C03", "QueryEvent panicked: %v", v)
		}
	}()
	inCall := true
	defer func() { m.mu.Lock(); inCall = false; m.mu.Unlock() }()
	r.QueryEvent(func(qr res.QueryRequest) {
		if qr == nil {
			m.mu.Lock()
			m.out.NilCalls[qid]++
			nested := inCall
			m.mu.Unlock()
			if nested {
				// failed subscription: QueryEvent calls back synchronously on the calling
				// goroutine, inside the emitting callback; that is nesting, not overlap
				return
			}
			m.body(nilSub, nil, false)
			return
		}
		// find the submission by the query text
		id, _ := strconv.Atoi(strings.TrimPrefix(qr.Query(), "id="))
		m.mu.Lock()
		var sb *Sub
		if id >= 0 && id < len(m.subs) {
			sb = m.subs[id]
		}
		m.mu.Unlock()
		if sb == nil {
			return
		}
		m.body(sb, nil, false)
		// the query request is a resource of the emitting resource's group: a later WithResource
		// may be given it
		m.mu.Lock()
		if m.reqRes == nil {
			m.reqRes = map[string]res.Resource{}
		}
		m.reqRes[parent.RID] = qr
		m.mu.Unlock()
		qr.NotFound()
	})
}

func (m *machine) handler(kind string) func(r *res.Request) {
	return func(r *res.Request) {
		id, err := strconv.Atoi(strings.TrimPrefix(r.Query(), "id="))
		m.mu.Lock()
		var sb *Sub
		if err == nil && id >= 0 && id < len(m.subs) {
			sb = m.subs[id]
		}
		m.mu.Unlock()
		if sb == nil {
			r.NotFound()
			return
		}
		m.body(sb, r, sb.qe())
		// the request object is kept: a later WithResource may be given it
		m.mu.Lock()
		if m.reqRes == nil {
			m.reqRes = map[string]res.Resource{}
		}
		m.reqRes[sb.RID] = r
		m.mu.Unlock()
		switch kind {
		case "access":
			r.AccessGranted()
		case "get":
			r.Model(map[string]int{"id": id})
		default:
			r.OK(nil)
		}
	}
}

func (s *Sub) qe() bool { return s.QE }

func (m *machine) build() {
	s := res.NewService("svc")
	s.SetWorkerCount(m.c.Cfg.Workers)
	s.SetInChannelSize(m.c.Cfg.InCh)
	s.SetLogger(nil)
	if m.c.Cfg.OnError {
		s.SetOnError(func(*res.Service, string) {})
	}
	if m.c.Cfg.QDurMs > 0 {
		s.SetQueryEventDuration(time.Duration(m.c.Cfg.QDurMs) * time.Millisecond)
	}
	opts := func(extra ...res.Option) []res.Option {
		o := []res.Option{
			res.Access(func(r res.AccessRequest) { m.handler("access")(r.(*res.Request)) }),
			res.GetResource(func(r res.GetRequest) { m.handler("get")(r.(*res.Request)) }),
			res.Call("do", func(r res.CallRequest) { m.handler("call")(r.(*res.Request)) }),
			res.Auth("do", func(r res.AuthRequest) { m.handler("auth")(r.(*res.Request)) }),
			// catch-all handlers: any other method is a callback of the group just the same
			res.Call("*", func(r res.CallRequest) { m.handler("call")(r.(*res.Request)) }),
			res.Auth("*", func(r res.AuthRequest) { m.handler("auth")(r.(*res.Request)) }),
		}
		return append(o, extra...)
	}
	s.Handle("r.$id", opts()...)
	s.Handle("s.$id", opts(res.Group("shared"))...)
	s.Handle("t.$tag.$id", opts(res.Group("tg.${tag}"))...)
	s.Handle("p.$id", opts(res.Parallel(true))...)
	lookups := func() {
		if !m.c.Cfg.EarlyLookups {
			return
		}
		for _, rid := range allRIDs {
			_, _ = s.Resource(rid)
			_ = s.With(rid, func(res.Resource) {})
		}
	}
	lookups()
	sub := res.NewMux("")
	sub.Handle("$id", opts(res.Group("mm.${id}"))...)
	// a full-wildcard pattern inside the mounted mux whose group template is shared with t.$tag.$id
	sub.Handle("w.$g.>", opts(res.Group("tg.${g}"))...)
	// a mux mounted two levels deep whose group is a single tag, the first token after the mounts
	sub2 := res.NewMux("")
	sub2.Handle("$tag.$id", opts(res.Group("${tag}"))...)
	sub2.Handle("k.$id.$tag", opts(res.Group("${tag}"))...) // the tag is the last token
	sub.Mount("n", sub2)
	lookups()
	s.Mount("m", sub)
	lookups()
	// registered through the parent after mounting: default group, and a ${tag} group
	s.Handle("m.fixed", opts()...)
	s.Handle("m.q.$id", opts(res.Group("mm.${id}"))...)
	// placeholder names where one is a prefix of an earlier one; a literal branch that dead-ends
	// (r.1.deep next to r.$id); a three-placeholder pattern reached by backtracking out of the mount
	s.Handle("u.$itemType.$item", opts(res.Group("it.${item}"))...)
	s.Handle("r.1.deep", opts()...)
	s.Handle("$a.$b.$c", opts(res.Group("${a}"))...)
	// the resource named like the service (root pattern), default group
	s.Handle("", opts()...)
	// a mux mounted last of all, after every resource id has been looked up once more
	subz := res.NewMux("")
	subz.Handle("$id", opts()...)
	lookups()
	s.Mount("z", subz)
	m.entries = []refmux.Entry{
		{Pattern: "svc", Marker: 11},
		{Pattern: "svc.z.$id", Marker: 14},
		{Pattern: "svc.u.$itemType.$item", Marker: 8, Group: "it.${item}"},
		{Pattern: "svc.r.1.deep", Marker: 9},
		{Pattern: "svc.$a.$b.$c", Marker: 10, Group: "${a}"},
		{Pattern: "svc.m.n.$tag.$id", Marker: 12, Group: "${tag}"},
		{Pattern: "svc.m.n.k.$id.$tag", Marker: 13, Group: "${tag}"},
		{Pattern: "svc.m.w.$g.>", Marker: 5, Group: "tg.${g}"},
		{Pattern: "svc.m.fixed", Marker: 6},
		{Pattern: "svc.m.q.$id", Marker: 7, Group: "mm.${id}"},
		{Pattern: "svc.r.$id", Marker: 0},
		{Pattern: "svc.s.$id", Marker: 1, Group: "shared"},
		{Pattern: "svc.t.$tag.$id", Marker: 2, Group: "tg.${tag}"},
		{Pattern: "svc.p.$id", Marker: 3, Parallel: true},
		{Pattern: "svc.m.$id", Marker: 4, Group: "mm.${id}"},
	}
	m.s = s
}

type cycleState struct {
	cycle                                        int
	shutCalled, shutReturned, serveDone, started bool
	conn                                         *fakeconn.Conn
	serveRet                                     chan struct{}
}

func (m *machine) serve() {
	m.mu.Lock()
	// Serve may be attempted as soon as the previous Serve call returned, i.e. possibly while
	// Shutdown is still finishing. It is then either refused (errNotStopped) or accepted.
	prev := cycleState{m.cycle, m.shutCalled, m.shutReturned, m.serveDone, m.started, m.conn, m.serveRet}
	m.prevCycle = &prev
	m.serveRefused = false
	m.cycle++
	m.out.Cycles = m.cycle
	m.shutCalled, m.shutReturned, m.serveDone = false, false, false
	conn := fakeconn.New()
	m.conn = conn
	m.conns = append(m.conns, conn)
	ret := make(chan struct{})
	m.serveRet = ret
	myCycle := m.cycle
	if m.serveDoneCyc == nil {
		m.serveDoneCyc = map[int]bool{}
	}
	m.mu.Unlock()
	if myCycle >= 2 && m.c.Cfg.Workers2 > 0 && prev.shutReturned {
		// (settings may only be changed on a stopped service: Shutdown has returned)
		m.s.SetWorkerCount(m.c.Cfg.Workers2)
	}
	m.s.SetOnServe(func(*res.Service) {
		m.mu.Lock()
		m.started = true
		m.mu.Unlock()
		// Serve's start-up tail: the service is started, the listener loop not yet running
		m.ctl.Gate("serve.onserve", "")
	})
	conn.OnPublish = func(e fakeconn.Entry) {
		if strings.HasSuffix(e.Subject, ".query") && strings.HasPrefix(e.Subject, "event.") {
			var p struct{ Subject string }
			if json.Unmarshal(e.Data, &p) == nil && p.Subject != "" {
				m.mu.Lock()
				m.qsubj = append(m.qsubj, p.Subject)
				m.mu.Unlock()
			}
		}
	}
	go func() {
		defer close(ret)
		defer func() {
			if v := recover(); v != nil {
				m.viol("C03", "Serve panicked: %v", v)
			}
		}()
		if err := m.s.Serve(conn); err != nil {
			if strings.Contains(err.Error(), "not stopped") {
				m.mu.Lock()
				early := m.prevCycle != nil && !m.prevCycle.shutReturned && m.prevCycle.serveRet != nil
				if early {
					m.serveRefused = true // the documented refusal while Shutdown is still finishing
				} else {
					m.out.Viol["C03"] = append(m.out.Viol["C03"], "Serve on a stopped service (Shutdown had returned) was refused: "+err.Error())
				}
				m.mu.Unlock()
				return
			}
			m.viol("C03", "Serve returned error: %v", err)
		}
		m.mu.Lock()
		m.serveDoneCyc[myCycle] = true
		if myCycle == m.cycle {
			m.serveDone = true
		}
		m.mu.Unlock()
	}()
}

func (m *machine) newSub(kind, rid string) *Sub {
	g, par, found := m.refGroup(rid)
	m.mu.Lock()
	defer m.mu.Unlock()
	sb := &Sub{ID: len(m.subs), Kind: kind, RID: rid, Group: g, Parallel: par, Cycle: m.cycle, BeginStep: m.ctl.Step(), WantErr: !found, Started: m.started && !m.shutCalled, AfterShutdownCall: m.shutCalled}
	m.subs = append(m.subs, sb)
	return sb
}

func (m *machine) finish(sb *Sub, err error) {
	m.mu.Lock()
	sb.Returned = true
	sb.EndStep = m.ctl.Step()
	if err != nil {
		sb.Err = err.Error()
	}
	if !(m.started && !m.shutCalled) {
		sb.Started = false
	}
	m.mu.Unlock()
}

func (m *machine) guard(what string) {
	if v := recover(); v != nil {
		m.mu.Lock()
		m.out.Panics = append(m.out.Panics, fmt.Sprintf("%s: %v", what, v))
		m.out.Viol["C03"] = append(m.out.Viol["C03"], fmt.Sprintf("%s panicked: %v", what, v))
		m.mu.Unlock()
	}
}

// noteOverlapPossible is called when a submission to group g is made.
func (m *machine) noteSubmission(sb *Sub) {
	m.mu.Lock()
	defer m.mu.Unlock()
	for id := range m.running {
		o := m.subs[id]
		if o.Group == sb.Group && o.Cycle == sb.Cycle && !o.Parallel && (m.c.Cfg.Workers > 1 || m.c.Cfg.Workers2 > 1) {
			m.out.Overlapable = true
		}
	}
}

func (m *machine) exec(op Op) {
	switch op.K {
	case "release":
		ps := m.ctl.Snapshot()
		if len(ps) == 0 {
			return
		}
		if len(ps) > m.out.MaxParked {
			m.out.MaxParked = len(ps)
		}
		p := ps[op.Pick%len(ps)]
		if p.Point == "close.enter" {
			m.mu.Lock()
			if len(m.running) > 0 || m.ctl.ParkedAt("runWith.checked", "publish.before", "runWith.beforeSignal") > 0 {
				m.out.ShutdownDuringActivity = true
			}
			m.mu.Unlock()
		}
		m.ctl.Release(p)
	case "relpoint":
		for _, p := range m.ctl.Snapshot() {
			if p.Point == op.G {
				m.ctl.Release(p)
				return
			}
		}
		m.viol("C03", "scripted schedule: nothing parked at %s (parked: %v)", op.G, m.ctl.Snapshot())
	case "with":
		sb := m.newSub("with", op.RID)
		sb.QE = op.QE
		m.noteSubmission(sb)
		m.ctl.Do("with "+op.RID, func() {
			go func() {
				defer m.guard("With")
				err := m.s.With(op.RID, func(r res.Resource) { m.body(sb, r, op.QE) })
				m.finish(sb, err)
			}()
		})
	case "withres":
		m.mu.Lock()
		r := m.resources[op.RID]
		m.mu.Unlock()
		if r == nil {
			rr, err := m.s.Resource(op.RID)
			if err != nil {
				return
			}
			r = rr
			m.mu.Lock()
			m.resources[op.RID] = r
			m.mu.Unlock()
		}
		if op.Pick%2 == 1 {
			// the request object a handler of this resource received earlier, if any
			m.mu.Lock()
			if rr := m.reqRes[op.RID]; rr != nil {
				r = rr
			}
			m.mu.Unlock()
		}
		sb := m.newSub("withres", op.RID)
		m.noteSubmission(sb)
		m.ctl.Do("withres "+op.RID, func() {
			go func() {
				defer m.guard("WithResource")
				m.s.WithResource(r, func() { m.body(sb, r, false) })
				m.finish(sb, nil)
			}()
		})
	case "withgroup":
		m.mu.Lock()
		sb := &Sub{ID: len(m.subs), Kind: "withgroup", RID: "", Group: op.G, Parallel: op.G == "", Cycle: m.cycle, BeginStep: m.ctl.Step(), Started: m.started && !m.shutCalled, AfterShutdownCall: m.shutCalled}
		m.subs = append(m.subs, sb)
		m.mu.Unlock()
		m.noteSubmission(sb)
		m.ctl.Do("withgroup "+op.G, func() {
			go func() {
				defer m.guard("WithGroup")
				m.s.WithGroup(op.G, func(*res.Service) { m.body(sb, nil, false) })
				m.finish(sb, nil)
			}()
		})
	case "deliver":
		if m.conn == nil {
			return
		}
		sb := m.newSub("req", op.RID)
		sb.QE = op.QE
		m.noteSubmission(sb)
		subj := op.Typ + "." + op.RID
		if op.Typ == "call" || op.Typ == "auth" {
			if op.Pick == 1 {
				subj += ".other" // served by the catch-all handler
			} else {
				subj += ".do"
			}
		}
		payload := fmt.Sprintf(`{"query":"id=%d"}`, sb.ID)
		m.ctl.Do("deliver "+subj, func() {
			n := m.conn.Deliver(subj, fmt.Sprintf("_INBOX.r%d", sb.ID), []byte(payload))
			m.mu.Lock()
			if n == 0 {
				sb.Dropped = true
			} else {
				m.delivered++
				sb.DeliverNo = m.delivered
			}
			sb.Returned = true
			sb.EndStep = 0 // set by the listener.msgDone note
			m.mu.Unlock()
		})
	case "qreq":
		m.mu.Lock()
		if len(m.qsubj) == 0 || m.conn == nil {
			m.mu.Unlock()
			return
		}
		subj := m.qsubj[op.Pick%len(m.qsubj)]
		m.mu.Unlock()
		// the query request runs in the group of the resource that emitted the event; find it
		rid := ""
		for _, e := range m.conn.Log() {
			if e.Kind == "pub" && strings.HasSuffix(e.Subject, ".query") && strings.Contains(string(e.Data), subj) {
				rid = strings.TrimSuffix(strings.TrimPrefix(e.Subject, "event."), ".query")
			}
		}
		sb := m.newSub("qreq", rid)
		sb.WantErr = false
		m.ctl.Do("qreq "+rid, func() {
			n := m.conn.Deliver(subj, fmt.Sprintf("_INBOX.q%d", sb.ID), []byte(fmt.Sprintf(`{"query":"id=%d"}`, sb.ID)))
			m.mu.Lock()
			if n == 0 {
				sb.Dropped = true
			}
			sb.Returned = true
			m.mu.Unlock()
		})
	case "advance":
		m.ctl.Do(fmt.Sprintf("advance %dms", op.D), func() { time.Sleep(time.Duration(op.D) * time.Millisecond) })
	case "quiesce":
		m.quiesce()
	case "shutdown":
		m.shutdown()
	case "serve":
		m.mu.Lock()
		// a stopped service may be served again as soon as Shutdown has returned, even if the
		// previous Serve call has not returned to its caller yet
		can := !m.started && (m.serveRet == nil || m.serveDone || m.shutReturned)
		m.mu.Unlock()
		if can {
			m.ctl.Do("serve", m.serve)
			m.mu.Lock()
			if m.serveRefused {
				// refused: nothing changed, the previous cycle is still the current one
				p := m.prevCycle
				m.cycle, m.shutCalled, m.shutReturned, m.serveDone, m.started, m.conn, m.serveRet = p.cycle, p.shutCalled, p.shutReturned, p.serveDone, p.started, p.conn, p.serveRet
				m.out.Cycles = m.cycle
				m.serveRefused = false
				m.ctl.Trace = append(m.ctl.Trace, "(serve refused: not stopped yet)")
			} else if m.prevCycle != nil && m.prevCycle.serveRet != nil && !m.prevCycle.shutReturned {
				m.out.EarlyRestarts++
			}
			m.mu.Unlock()
		}
	case "foreign":
		m.mu.Lock()
		started := m.started && !m.shutCalled
		m.mu.Unlock()
		_ = started
		m.ctl.Do("foreign "+op.Typ, func() {
			go func() {
				defer m.guard("foreign " + op.Typ)
				switch op.Typ {
				case "reset":
					m.s.Reset([]string{"svc.r.1"}, nil)
				case "resetall":
					m.s.ResetAll()
				case "token":
					m.s.TokenEvent("cid1", map[string]int{"a": 1})
				case "tokenid":
					m.s.TokenEventWithID("cid1", "tid", nil)
				case "tokenreset":
					m.s.TokenReset("auth.svc.r.1.do", "tid")
				case "event":
					r, err := m.s.Resource(op.RID)
					if err == nil {
						r.Event("foreign", nil)
					}
				case "queryevent":
					// a query event sent from outside the workers, as a store change listener does
					// (its callback only ever sees the final nil call here)
					r, err := m.s.Resource(op.RID)
					if err == nil {
						r.QueryEvent(func(res.QueryRequest) {})
					}
				case "shutdown2":
					m.mu.Lock()
					called := m.shutCalled
					m.mu.Unlock()
					if called {
						_ = m.s.Shutdown() // nil or errNotStarted
					}
				}
			}()
		})
	}
}

func (m *machine) shutdown() {
	m.mu.Lock()
	if !m.started || m.shutCalled {
		m.mu.Unlock()
		return
	}
	m.shutCalled = true
	m.started = false
	m.shutStep = m.ctl.Step()
	if len(m.running) > 0 {
		m.out.ShutdownDuringActivity = true
	}
	cyc := m.cycle
	m.mu.Unlock()
	m.ctl.Do("shutdown", func() {
		go func() {
			defer m.guard("Shutdown")
			if err := m.s.Shutdown(); err != nil {
				m.viol("C03", "Shutdown of a started service returned %v", err)
			}
			m.mu.Lock()
			if cyc == m.cycle {
				m.shutReturned = true
				for id := range m.running {
					if m.subs[id].Cycle == cyc {
						m.out.Viol["C03"] = append(m.out.Viol["C03"], fmt.Sprintf("Shutdown returned while the callback of submission %d is still executing", id))
					}
				}
			}
			m.mu.Unlock()
		}()
	})
}

// quiesce drains fairly and checks exactly-once for everything submitted so far.
func (m *machine) quiesce() {
	m.ctl.Trace = append(m.ctl.Trace, "quiesce")
	if n := m.ctl.Drain(5000); n >= 5000 {
		m.viol("C03", "drain did not terminate within 5000 releases")
		return
	}
	m.mu.Lock()
	defer m.mu.Unlock()
	if !m.started || m.shutCalled {
		return
	}
	m.out.Quiesced++
	for _, sb := range m.subs {
		if sb.Cycle != m.cycle || !sb.Returned || sb.Dropped || sb.Kind == "qnil" {
			continue
		}
		if sb.Kind == "qreq" {
			continue // query requests after expiry are legitimately ignored; C15 decides those
		}
		want := 1
		if sb.WantErr || !sb.Started {
			continue
		}
		if len(sb.Starts) != want || len(sb.Ends) != want {
			m.violLocked("C02", fmt.Sprintf("at quiescence submission %d (%s %s, group %q) has run %d times (finished %d), expected exactly once", sb.ID, sb.Kind, sb.RID, sb.Group, len(sb.Starts), len(sb.Ends)))
		}
	}
}

// observe is the hook observer (never blocks).
func (m *machine) observe(point string, arg interface{}) {
	switch point {
	case "qlistener.msgDone":
		// the query listener has passed the query request on: it is submitted now
		msg := arg.(*nats.Msg)
		id, err := strconv.Atoi(strings.TrimPrefix(msg.Reply, "_INBOX.q"))
		if err != nil {
			return
		}
		m.mu.Lock()
		if id >= 0 && id < len(m.subs) {
			m.subs[id].EndStep = m.ctl.Step()
		}
		m.mu.Unlock()
	case "listener.msgDone":
		msg := arg.(*nats.Msg)
		id, err := strconv.Atoi(strings.TrimPrefix(msg.Reply, "_INBOX.r"))
		if err != nil {
			return
		}
		m.mu.Lock()
		if id >= 0 && id < len(m.subs) {
			m.subs[id].EndStep = m.ctl.Step()
			if !(m.started && !m.shutCalled) {
				m.subs[id].Started = false
			}
		}
		m.mu.Unlock()
	}
}

// run executes the case inside the current synctest bubble.
func run(c Case) *Outcome {
	out := &Outcome{Viol: map[string][]string{}, NilCalls: map[int]int{}}
	m := &machine{c: c, out: out, occ: map[string]int{}, running: map[int]bool{}, resources: map[string]res.Resource{}}
	m.ctl = sched.New(c.Cfg.Gates)
	m.ctl.Observe = m.observe
	res.VerifHook = m.ctl.Hook
	m.build()
	m.ctl.Do("serve", m.serve)
	for _, op := range c.Prog {
		m.exec(op)
	}
	// end game: quiesce, shut down, verify completion
	m.quiesce()
	m.mu.Lock()
	started := m.started
	m.mu.Unlock()
	if started {
		m.shutdown()
	}
	if n := m.ctl.Drain(5000); n >= 5000 {
		m.viol("C03", "final drain did not terminate")
	}
	m.mu.Lock()
	everServed := m.serveRet != nil
	if everServed && m.shutCalled && !m.shutReturned {
		m.out.Viol["C03"] = append(m.out.Viol["C03"], "Shutdown is blocked forever: every goroutine is durably blocked, nothing is parked, and Shutdown has not returned")
	}
	if everServed && m.shutCalled && !m.serveDone {
		m.out.Viol["C03"] = append(m.out.Viol["C03"], "Serve is blocked forever after Shutdown")
	}
	for k := 1; k < m.cycle; k++ {
		if !m.serveDoneCyc[k] {
			m.out.Viol["C03"] = append(m.out.Viol["C03"], fmt.Sprintf("the Serve call of cycle %d never returned although its Shutdown did", k))
		}
	}
	if m.conn != nil && m.shutReturned && m.conn.Closed != 1 {
		m.out.Viol["C03"] = append(m.out.Viol["C03"], fmt.Sprintf("connection closed %d times in the last cycle, expected exactly once", m.conn.Closed))
	}
	for _, sb := range m.subs {
		if len(sb.Starts) > 1 {
			m.violLocked("C02", fmt.Sprintf("submission %d (%s %s) ran %d times", sb.ID, sb.Kind, sb.RID, len(sb.Starts)))
		}
		if len(sb.Starts) != len(sb.Ends) {
			m.out.Viol["C03"] = append(m.out.Viol["C03"], fmt.Sprintf("callback of submission %d started but never finished", sb.ID))
		}
		if sb.Kind == "with" && sb.Returned {
			if sb.WantErr != (sb.Err != "") {
				m.violLocked("C02", fmt.Sprintf("With(%q): error=%q, but a matching handler exists=%v", sb.RID, sb.Err, !sb.WantErr))
			}
			if sb.Err != "" && len(sb.Starts) > 0 {
				m.violLocked("C02", fmt.Sprintf("With(%q) returned an error and still ran its callback", sb.RID))
			}
		}
	}
	m.checkOrder()
	m.out.Subs = m.subs
	m.mu.Unlock()
	// let everything that is still parked go, close query inboxes (listener goroutines), settle
	m.ctl.Free()
	// virtual time stops when the bubble's root exits: let pending query-event timers fire now
	time.Sleep(time.Duration(m.c.Cfg.QDurMs)*time.Millisecond + time.Second)
	synctestWait()
	for _, cn := range m.conns {
		for _, sb := range cn.Subs() {
			if strings.HasPrefix(sb.Subject, "_INBOX.") {
				closeQuietly(sb.Ch)
			}
		}
	}
	synctestWait()
	out.Trace = m.ctl.TraceCopy()
	res.VerifHook = nil
	return out
}

// checkOrder checks the C02 order clause on the recorded history (lock held).
func (m *machine) checkOrder() {
	byGroup := map[string][]*Sub{}
	for _, sb := range m.subs {
		if sb.Parallel || len(sb.Starts) != 1 || sb.Kind == "qnil" {
			continue
		}
		// (a query request is submitted once the query listener has passed it on: EndStep is
		// set by the qlistener.msgDone note, 0 = unknown, and then it orders nothing after it)
		k := strconv.Itoa(sb.Cycle) + "/" + sb.Group
		byGroup[k] = append(byGroup[k], sb)
	}
	keys := make([]string, 0, len(byGroup))
	for k := range byGroup {
		keys = append(keys, k)
	}
	sort.Strings(keys)
	for _, k := range keys {
		l := byGroup[k]
		for _, x := range l {
			for _, y := range l {
				if x == y {
					continue
				}
				before := false
				if x.Kind == "req" && y.Kind == "req" {
					before = x.DeliverNo < y.DeliverNo
				} else if x.EndStep > 0 && x.EndStep < y.BeginStep {
					before = true
				}
				if before {
					m.out.OrderedPairs++
					if x.Starts[0] > y.Starts[0] {
						m.violLocked("C02", fmt.Sprintf("group %q: submission %d (%s %s) was submitted before submission %d (%s %s) but its callback started later", x.Group, x.ID, x.Kind, x.RID, y.ID, y.Kind, y.RID))
					}
				}
			}
		}
	}
}

func closeQuietly(ch chan *nats.Msg) {
	defer func() { _ = recover() }()
	close(ch)
}
