// Package svc runs a real res.Service on a fakeconn and offers quiescence
// detection through the verif hooks (no sleeps).
package svc

import (
	"fmt"
	"runtime"
	"strings"
	"sync"
	"sync/atomic"
	"time"

	res "github.com/jirenius/go-res"
	nats "github.com/nats-io/nats.go"

	"verifharness/internal/fakeconn"
)

// Logger counts and keeps error lines.
type Logger struct {
	mu     sync.Mutex
	Errs   []string
	Traces int
}

func (l *Logger) Infof(format string, v ...interface{}) {}
func (l *Logger) Errorf(format string, v ...interface{}) {
	l.mu.Lock()
	if len(l.Errs) < 200 {
		l.Errs = append(l.Errs, fmt.Sprintf(format, v...))
	}
	l.mu.Unlock()
}
func (l *Logger) Tracef(format string, v ...interface{}) {
	l.mu.Lock()
	l.Traces++
	l.mu.Unlock()
}

// Errors returns a copy of the error lines.
func (l *Logger) Errors() []string {
	l.mu.Lock()
	defer l.mu.Unlock()
	return append([]string(nil), l.Errs...)
}

// Runner is a running service.
type Runner struct {
	S      *res.Service
	C      *fakeconn.Conn
	Log    *Logger
	served chan struct{}
	exited chan error

	mu       sync.Mutex
	cond     *sync.Cond
	done     map[string]int // reply subject -> request.done count
	listened int64          // listener.msgDone count
	qpassed  int64
	// listenedReply counts, per reply subject, the messages the listener is done with
	listenedReply map[string]int
	reqSeq        int64
	extra         func(point string, arg interface{})
}

var hookMu sync.Mutex

// Start serves s on c and returns once the service is started (OnServe) or
// Serve returned. extraHook, if non-nil, sees every hook point as well.
func Start(s *res.Service, c *fakeconn.Conn, extraHook func(point string, arg interface{})) (*Runner, error) {
	return start(s, c, extraHook, false)
}

// StartNoLog is Start for a service configured without logger (SetLogger(nil)).
func StartNoLog(s *res.Service, c *fakeconn.Conn, extraHook func(point string, arg interface{})) (*Runner, error) {
	return start(s, c, extraHook, true)
}

func start(s *res.Service, c *fakeconn.Conn, extraHook func(point string, arg interface{}), noLog bool) (*Runner, error) {
	r := &Runner{S: s, C: c, Log: &Logger{}, served: make(chan struct{}), exited: make(chan error, 1), done: map[string]int{}, extra: extraHook}
	r.cond = sync.NewCond(&r.mu)
	if noLog {
		s.SetLogger(nil)
	} else {
		s.SetLogger(r.Log)
	}
	s.SetOnServe(func(*res.Service) { close(r.served) })
	res.VerifHook = r.hook
	go func() { r.exited <- s.Serve(c) }()
	select {
	case <-r.served:
		return r, nil
	case err := <-r.exited:
		r.exited <- err
		return r, fmt.Errorf("Serve returned before start: %v", err)
	case <-time.After(30 * time.Second):
		return r, fmt.Errorf("VERIF-INCONCLUSIVE: service did not start within 30s")
	}
}

func (r *Runner) hook(point string, arg interface{}) {
	switch point {
	case "request.done":
		m := arg.(*nats.Msg)
		r.mu.Lock()
		r.done[m.Reply]++
		r.mu.Unlock()
		r.cond.Broadcast()
	case "listener.msgDone":
		r.mu.Lock()
		r.listened++
		if m, ok := arg.(*nats.Msg); ok && m != nil {
			if r.listenedReply == nil {
				r.listenedReply = map[string]int{}
			}
			r.listenedReply[m.Reply]++
		}
		r.mu.Unlock()
		r.cond.Broadcast()
	case "qlistener.msgDone":
		r.mu.Lock()
		r.qpassed++
		r.mu.Unlock()
		r.cond.Broadcast()
	}
	if r.extra != nil {
		r.extra(point, arg)
	}
}

// NewReply returns a fresh reply subject.
func (r *Runner) NewReply() string {
	n := atomic.AddInt64(&r.reqSeq, 1)
	return fmt.Sprintf("_INBOX.reply.%d", n)
}

// Send delivers a request message; it returns the reply subject and the
// number of subscriptions that received it.
func (r *Runner) Send(subject string, payload []byte) (string, int) {
	reply := r.NewReply()
	n := r.C.Deliver(subject, reply, payload)
	return reply, n
}

// WaitDone blocks until the request with that reply subject was processed n times.
func (r *Runner) WaitDone(reply string, n int) error {
	deadline := time.Now().Add(30 * time.Second)
	r.mu.Lock()
	defer r.mu.Unlock()
	for r.done[reply] < n {
		if time.Now().After(deadline) {
			if w := Wedged(); w != "" {
				return Behaviour(fmt.Sprintf("request %s has not been processed after 30s and never will be: %s", reply, w))
			}
			if r.listenedReply[reply] >= n {
				// the listener is done with the message; if nothing in the service is moving any
				// more - every worker waits for work, the listener for messages - nothing will
				// ever handle it (looked at twice, the count re-read in between)
				r.mu.Unlock()
				q1 := Quiescent()
				time.Sleep(200 * time.Millisecond)
				q2 := Quiescent()
				r.mu.Lock()
				if q1 != "" && q2 != "" && r.done[reply] < n {
					return Behaviour(fmt.Sprintf("request %s was taken off the connection by the listener and is never handled: %s", reply, q2))
				}
			}
			return fmt.Errorf("VERIF-INCONCLUSIVE: request %s not processed within 30s", reply)
		}
		waitCond(r.cond, 100*time.Millisecond)
	}
	return nil
}

// WaitListened blocks until the listener has taken n messages off the channel.
func (r *Runner) WaitListened(n int64) error {
	deadline := time.Now().Add(30 * time.Second)
	r.mu.Lock()
	defer r.mu.Unlock()
	for r.listened < n {
		if time.Now().After(deadline) {
			return fmt.Errorf("VERIF-INCONCLUSIVE: listener did not consume %d messages within 30s", n)
		}
		waitCond(r.cond, 100*time.Millisecond)
	}
	return nil
}

// Behaviour is an error that describes what the service did (an unexpected answer, a wrong
// number of responses), as opposed to the harness failing to bring a situation about: a
// verdict, not an inconclusive run.
type Behaviour string

func (b Behaviour) Error() string { return string(b) }

// Verdict turns an error of a harness helper into the message of the case: a Behaviour as
// it is, anything else marked inconclusive.
func Verdict(err error) string {
	if _, ok := err.(Behaviour); ok || strings.HasPrefix(err.Error(), "VERIF-INCONCLUSIVE") {
		return err.Error()
	}
	return "VERIF-INCONCLUSIVE: " + err.Error()
}

// Wedged reports a goroutine that is inside go-res and waits for a mutex, together with where:
// after half a minute without progress that is a deadlock (a lock that its holder never
// released, or takes again), not slowness. "" if there is none.
func Wedged() string {
	buf := make([]byte, 1<<22)
	buf = buf[:runtime.Stack(buf, true)]
	for _, g := range strings.Split(string(buf), "\n\n") {
		head, _, _ := strings.Cut(g, "\n")
		if !strings.Contains(head, "[sync.Mutex.Lock") && !strings.Contains(head, "[sync.RWMutex.") {
			continue
		}
		var frames []string
		inLib := false
		for _, l := range strings.Split(g, "\n")[1:] {
			if strings.HasPrefix(l, "\t") || strings.HasPrefix(l, "created by") {
				continue
			}
			if strings.HasPrefix(l, "github.com/jirenius/go-res") {
				inLib = true
			}
			if i := strings.LastIndexByte(l, '('); i > 0 {
				l = l[:i]
			}
			if !strings.HasPrefix(l, "internal/sync.") && !strings.HasPrefix(l, "sync.") && len(frames) < 6 {
				frames = append(frames, l)
			}
		}
		if inLib {
			return "a goroutine waits for a mutex in " + strings.Join(frames, " <- ")
		}
	}
	return ""
}

// Quiescent describes the service as at rest when it is: a listener goroutine exists and waits
// for messages, and every worker goroutine (there may be none) waits for work. A request
// the listener is done with and that has not been handled in that state never will be: no
// goroutine is left that could do it. "" if something is still moving.
func Quiescent() string {
	buf := make([]byte, 1<<22)
	buf = buf[:runtime.Stack(buf, true)]
	workers, listeners := 0, 0
	for _, g := range strings.Split(string(buf), "\n\n") {
		head, _, _ := strings.Cut(g, "\n")
		switch {
		case strings.Contains(g, "go-res.(*Service).startWorker"):
			if !strings.Contains(head, "[sync.Cond.Wait") {
				return ""
			}
			workers++
		case strings.Contains(g, "go-res.(*Service).startListener"):
			if !strings.Contains(head, "[chan receive") && !strings.Contains(head, "[select") {
				return ""
			}
			listeners++
		case strings.Contains(g, "go-res.(*Request).executeHandler") || strings.Contains(g, "go-res.(*Service).processRequest"):
			return ""
		}
	}
	if listeners == 0 {
		return ""
	}
	return fmt.Sprintf("the listener waits for messages and all %d workers wait for work", workers)
}

// Stalled describes the process as stalled when every goroutine that is inside go-res is
// blocked on a channel, condition, wait group or mutex - none is running, runnable or
// sleeping - and at least one of them is inside the named function (e.g. "Shutdown"): with
// the callers of the service gone, nothing is left that could wake them. "" otherwise.
func Stalled(fn string) string {
	buf := make([]byte, 1<<22)
	buf = buf[:runtime.Stack(buf, true)]
	in, where := 0, ""
	for _, g := range strings.Split(string(buf), "\n\n") {
		if !strings.Contains(g, "github.com/jirenius/go-res.") {
			continue
		}
		head, _, _ := strings.Cut(g, "\n")
		blocked := false
		for _, st := range []string{"[chan receive", "[chan send", "[select", "[sync.Cond.Wait", "[sync.WaitGroup.Wait", "[sync.Mutex.Lock", "[sync.RWMutex", "[semacquire"} {
			if strings.Contains(head, st) {
				blocked = true
			}
		}
		if !blocked {
			return ""
		}
		if strings.Contains(g, "go-res.(*Service)."+fn+"(") {
			in++
			if i := strings.IndexByte(head, '['); i >= 0 {
				where = strings.TrimSuffix(strings.TrimSpace(head[i:]), ":")
			}
		}
	}
	if in == 0 {
		return ""
	}
	return fmt.Sprintf("%d goroutines are inside %s (%s) and every goroutine inside go-res is blocked", in, fn, where)
}

// QueryPassed returns how many query requests the query listeners have passed on to workers.
func (r *Runner) QueryPassed() int64 {
	r.mu.Lock()
	defer r.mu.Unlock()
	return r.qpassed
}

// QueryResponse delivers a query request for the query event with that subject, emitted by
// the resource named rname, and returns the response payloads. Nothing is waited for with a
// clock as a verdict: once the query listener has passed the request on, a With callback on
// the same resource is queued behind it (one group, first-in first-out); when that callback
// runs, the request has been handled, and what was published on the reply subject by then is
// all there will be.
func (r *Runner) QueryResponse(rname, subject, reply string, payload []byte) ([][]byte, error) {
	base := r.QueryPassed()
	if n := r.C.Deliver(subject, reply, payload); n != 1 {
		return nil, fmt.Errorf("query request on %s delivered to %d subscriptions", subject, n)
	}
	deadline := time.Now().Add(30 * time.Second)
	r.mu.Lock()
	for r.qpassed <= base {
		if time.Now().After(deadline) {
			r.mu.Unlock()
			return nil, fmt.Errorf("VERIF-INCONCLUSIVE: the query listener did not pass the request on within 30s")
		}
		waitCond(r.cond, 100*time.Millisecond)
	}
	r.mu.Unlock()
	barrier := make(chan struct{})
	if err := r.S.With(rname, func(res.Resource) { close(barrier) }); err != nil {
		return nil, fmt.Errorf("With(%q): %v", rname, err)
	}
	select {
	case <-barrier:
	case <-time.After(30 * time.Second):
		return nil, fmt.Errorf("VERIF-INCONCLUSIVE: a With callback on %s did not run within 30s", rname)
	}
	var out [][]byte
	for _, e := range r.C.Published(reply) {
		out = append(out, e.Data)
	}
	return out, nil
}

// DoneCount returns how many times the request with that reply subject was processed.
func (r *Runner) DoneCount(reply string) int {
	r.mu.Lock()
	defer r.mu.Unlock()
	return r.done[reply]
}

func waitCond(c *sync.Cond, d time.Duration) {
	t := time.AfterFunc(d, c.Broadcast)
	c.Wait()
	t.Stop()
}

// Stop shuts the service down and waits for Serve to return.
func (r *Runner) Stop() error {
	shut := make(chan error, 1)
	go func() { shut <- r.S.Shutdown() }()
	var err error
	select {
	case err = <-shut:
	case <-time.After(30 * time.Second):
		res.VerifHook = nil
		if w := Wedged(); w != "" {
			return Behaviour("Shutdown has not returned after 30s and never will: " + w)
		}
		return fmt.Errorf("VERIF-INCONCLUSIVE: Shutdown did not return within 30s")
	}
	select {
	case <-r.exited:
	case <-time.After(30 * time.Second):
		return fmt.Errorf("VERIF-INCONCLUSIVE: Serve did not return within 30s after Shutdown (%v)", err)
	}
	res.VerifHook = nil
	return nil
}

// Replies returns the payloads published on a reply subject, split into
// pre-responses and responses.
func (r *Runner) Replies(reply string) (pre, resp [][]byte) {
	for _, e := range r.C.Published(reply) {
		if IsPreResponse(e.Data) {
			pre = append(pre, e.Data)
		} else {
			resp = append(resp, e.Data)
		}
	}
	return
}

// IsPreResponse implements the protocol's rule: a pre-response starts with a
// key (a letter), a response is a JSON object.
func IsPreResponse(b []byte) bool {
	return len(b) > 0 && (b[0]|32) >= 'a' && (b[0]|32) <= 'z'
}

// SplitSubject splits a request subject as the protocol defines it.
func SplitSubject(subj string) (rtype, rname, method string, ok bool) {
	i := strings.IndexByte(subj, '.')
	if i < 0 {
		return "", "", "", false
	}
	rtype, rname = subj[:i], subj[i+1:]
	if rtype == "call" || rtype == "auth" {
		j := strings.LastIndexByte(rname, '.')
		if j < 0 {
			return rtype, rname, "", false
		}
		method = rname[j+1:]
		rname = rname[:j]
	}
	return rtype, rname, method, true
}
