package c19

import (
	"fmt"
	"sync"
	"sync/atomic"
	"testing"
	"time"

	res "github.com/jirenius/go-res"
	"github.com/jirenius/go-res/resprot"
	"pgregory.net/rapid"

	"verifharness/internal/evid"
	"verifharness/internal/fakeconn"
)

// TestPropConcurrentRequests: 2-8 goroutines call SendRequest at the same instant
// (spin-aligned), for some hundred rounds, against a service that answers each request with
// the request's own number. Every call returns the response to its own request - the first
// message on ITS inbox - and no two calls listen on the same inbox subject.
func TestPropConcurrentRequests(t *testing.T) {
	rapid.Check(t, func(rt *rapid.T) {
		callers := rapid.IntRange(2, 8).Draw(rt, "callers")
		rounds := rapid.IntRange(50, 300).Draw(rt, "rounds")
		s := res.NewService("svc")
		s.SetLogger(nil)
		s.SetWorkerCount(4)
		s.Handle("echo.$id", res.Call("do", func(r res.CallRequest) { r.OK(r.RawParams()) }))
		conn := fakeconn.New()
		conn.Blocking = true
		served := make(chan struct{})
		s.SetOnServe(func(*res.Service) { close(served) })
		exited := make(chan struct{})
		go func() { _ = s.Serve(conn); close(exited) }()
		select {
		case <-served:
		case <-time.After(30 * time.Second):
			rt.Fatalf("VERIF-INCONCLUSIVE: service did not start")
		}
		start := conn.LogLen()
		var first atomic.Pointer[string]
		for round := 0; round < rounds && first.Load() == nil; round++ {
			var aligned int32
			var wg sync.WaitGroup
			for g := 0; g < callers; g++ {
				wg.Add(1)
				go func(g int) {
					defer wg.Done()
					n := round*100 + g
					atomic.AddInt32(&aligned, 1)
					for k := 0; k < 1000000 && atomic.LoadInt32(&aligned) < int32(callers); k++ {
					}
					r := resprot.SendRequest(conn, fmt.Sprintf("call.svc.echo.%d.do", g), map[string]int{"params": n}, 20*time.Second)
					var got int
					if !r.HasResult() || r.ParseResult(&got) != nil || got != n {
						m := fmt.Sprintf("round %d, caller %d of %d: the request carried %d, SendRequest returned %s (error %v)", round, g, callers, n, r.Result, r.Error)
						first.CompareAndSwap(nil, &m)
					}
				}(g)
			}
			wg.Wait()
		}
		_ = s.Shutdown()
		<-exited
		inboxes := map[string]int{}
		dup := ""
		for _, e := range conn.LogFrom(start) {
			if e.Kind == "sub" {
				inboxes[e.Subject]++
				if inboxes[e.Subject] > 1 && dup == "" {
					dup = e.Subject
				}
			}
		}
		ev.Case(true, evid.Hash("conc-requests", callers, rounds), "concurrent-requests")
		ev.Add("concurrent-sendrequest-calls", int64(len(inboxes)))
		if m := first.Load(); m != nil {
			rt.Fatalf("%s", *m)
		}
		if dup != "" {
			rt.Fatalf("two SendRequest calls subscribed to the same inbox subject %s (%d callers at the same instant, %d rounds)", dup, callers, rounds)
		}
	})
}
